"""Developer tool for the seeded changes under /verif/seeded/<id>/ (patch.diff, demo.py, meta.json).

  seeded.py import <dir-with-mN-folders> <PROP>     copy sub-agent output into /verif/seeded/<PROP>-mN (demo made location independent)
  seeded.py verify [ids...]                          in a scratch worktree: tests pass with the patch, demo fails with it, passes without
  seeded.py detect [ids...]                          apply to /repo, run all 19 quick checks, undo; record which checks fire

Nothing here is a registered check; demos execute the library and exist only to confirm that a seeded change is a real break."""
import json
import os
import re
import shutil
import subprocess
import sys
import tempfile

V = os.path.dirname(os.path.dirname(os.path.abspath(__file__)))
SEEDED = os.path.join(V, 'seeded')
PY = '/venv/bin/python'
PROPS = ['C%02d' % i for i in range(1, 20)]


def sh(cmd, cwd=None, env=None, timeout=600):
    return subprocess.run(cmd, cwd=cwd, env=env, capture_output=True, text=True, timeout=timeout)


def load_meta(d):
    p = os.path.join(d, 'meta.json')
    return json.load(open(p)) if os.path.exists(p) else {}


def save_meta(d, meta):
    json.dump(meta, open(os.path.join(d, 'meta.json'), 'w'), indent=1, sort_keys=True)


def cmd_import(src, prop):
    for name in sorted(os.listdir(src)):
        d = os.path.join(src, name)
        if not (os.path.isdir(d) and re.match(r'^m\d+$', name) and os.path.exists(os.path.join(d, 'patch.diff'))):
            continue
        sid = '%s-%s' % (prop, name)
        out = os.path.join(SEEDED, sid)
        n = 1
        while os.path.exists(out):
            n += 1
            sid = '%s-%s-r%d' % (prop, name, n)
            out = os.path.join(SEEDED, sid)
        os.makedirs(out)
        shutil.copy(os.path.join(d, 'patch.diff'), os.path.join(out, 'patch.diff'))
        demo = open(os.path.join(d, 'demo.py')).read()
        demo = re.sub(r"""(['"])/tmp/seed\d*/[^'"]*?/src\1""", "__import__('os').environ.get('SEED_SRC', '/repo/src')", demo)
        open(os.path.join(out, 'demo.py'), 'w').write(demo)
        if os.path.exists(os.path.join(d, 'notes.md')):
            shutil.copy(os.path.join(d, 'notes.md'), os.path.join(out, 'author_notes.md'))
        meta = {'id': sid, 'property': prop, 'origin': 'sub-agent given only the property text and a scratch worktree'}
        save_meta(out, meta)
        print('imported', sid)


def ids_or_all(ids):
    if ids:
        return ids
    return sorted(d for d in os.listdir(SEEDED) if os.path.isdir(os.path.join(SEEDED, d)))


def cmd_verify(ids):
    wt = tempfile.mkdtemp(prefix='sv_')
    os.rmdir(wt)
    r = sh(['git', '-C', '/repo', 'worktree', 'add', '-q', '--detach', wt, 'HEAD'])
    assert r.returncode == 0, r.stderr
    try:
        for sid in ids_or_all(ids):
            d = os.path.join(SEEDED, sid)
            meta = load_meta(d)
            env = dict(os.environ, SEED_SRC=wt + '/src', PYTHONDONTWRITEBYTECODE='1')
            res = {}
            r0 = sh([PY, os.path.join(d, 'demo.py')], cwd=wt, env=env)
            res['demo_without_change_exit'] = r0.returncode
            ap = sh(['git', '-C', wt, 'apply', os.path.join(d, 'patch.diff')])
            res['applies'] = ap.returncode == 0
            if ap.returncode == 0:
                t = sh([PY, '-m', 'pytest', '-q', '-p', 'no:cacheprovider', 'tests'], cwd=wt, env=env)
                tail = t.stdout.strip().splitlines()[-1] if t.stdout.strip() else ''
                res['tests_with_change'] = tail
                r1 = sh([PY, os.path.join(d, 'demo.py')], cwd=wt, env=env, timeout=120)
                res['demo_with_change_exit'] = r1.returncode
                res['demo_with_change_tail'] = (r1.stderr.strip().splitlines() or r1.stdout.strip().splitlines() or [''])[-1][:200]
            sh(['git', '-C', wt, 'checkout', '--', '.'])
            sh(['git', '-C', wt, 'clean', '-fdq'])
            ok = res.get('applies') and res['demo_without_change_exit'] == 0 and res.get('demo_with_change_exit', 0) != 0 and \
                re.match(r'^306 passed', res.get('tests_with_change', '')) is not None
            res['confirmed'] = bool(ok)
            meta['verification'] = res
            meta['what_i_ran'] = ('scratch worktree of /repo HEAD: demo.py (exit 0) ; git apply patch.diff ; pytest tests (306 passed) ; '
                                  'demo.py (non-zero) ; git checkout -- .')
            save_meta(d, meta)
            print(sid, 'CONFIRMED' if ok else 'NOT CONFIRMED', res)
    finally:
        sh(['git', '-C', '/repo', 'worktree', 'remove', '--force', wt])
        shutil.rmtree(wt, ignore_errors=True)


def cmd_detect(ids):
    REPO = os.environ.get('SEED_REPO', '/repo')     # a scratch worktree of /repo may stand in for it
    st = sh(['git', '-C', REPO, 'status', '--porcelain'])
    assert not st.stdout.strip(), '/repo is not clean: ' + st.stdout
    summary = {}
    for sid in ids_or_all(ids):
        d = os.path.join(SEEDED, sid)
        meta = load_meta(d)
        ap = sh(['git', '-C', REPO, 'apply', os.path.join(d, 'patch.diff')])
        if ap.returncode != 0:
            print(sid, 'patch does not apply', ap.stderr[:200])
            continue
        try:
            fired = {}
            errors = {}
            env = dict(os.environ, SA_NOWRITE='1')
            procs = {p: subprocess.Popen([PY, '-m', 'sa.check', p, '--tier', 'quick', '--repo', REPO], cwd=V, env=env, stdout=subprocess.PIPE, stderr=subprocess.STDOUT, text=True)
                     for p in PROPS}
            for p, pr in procs.items():
                out, _ = pr.communicate()
                rules = sorted(set(re.findall(r'^  ([A-Z]\d+) ', out, re.M)))
                if pr.returncode == 1:
                    fired[p] = rules
                elif pr.returncode == 2:
                    errors[p] = [l for l in out.splitlines() if l.startswith('ANALYSIS-ERROR')][:2]
        finally:
            sh(['git', '-C', REPO, 'checkout', '--', '.'])
        if 'detection' not in meta:      # the very first run against this change, before any tuning of the rules
            meta['first_shot'] = 'detected' if meta.get('property') in fired else ('other property only' if fired else
                                                                                  ('analysis-error only' if errors else 'missed'))
            meta['first_shot_violations'] = fired
        meta['detection'] = {'violations': fired, 'analysis_errors': errors, 'target_detected': meta.get('property') in fired,
                             'detected_by_any': bool(fired)}
        save_meta(d, meta)
        summary[sid] = meta['detection']
        print('%-14s target=%s %s  fired=%s%s' % (sid, meta.get('property'), 'DETECTED' if meta['detection']['target_detected'] else
                                               ('other-prop' if fired else 'MISSED'), {k: v for k, v in fired.items()},
                                               ('  errors=%s' % list(errors)) if errors else ''))
    st = sh(['git', '-C', REPO, 'status', '--porcelain'])
    assert not st.stdout.strip(), '/repo left dirty!'
    return summary


def cmd_import_benign(src, tag):
    for name in sorted(os.listdir(src)):
        d = os.path.join(src, name)
        if not (os.path.isdir(d) and re.match(r'^r\d+$', name) and os.path.exists(os.path.join(d, 'patch.diff'))):
            continue
        sid = 'benign-%s-%s' % (tag, name)
        out = os.path.join(V, 'benign', sid)
        os.makedirs(out, exist_ok=True)
        shutil.copy(os.path.join(d, 'patch.diff'), os.path.join(out, 'patch.diff'))
        if os.path.exists(os.path.join(d, 'notes.md')):
            shutil.copy(os.path.join(d, 'notes.md'), os.path.join(out, 'author_notes.md'))
        save_meta(out, {'id': sid, 'kind': 'behaviour-preserving refactoring', 'origin': 'sub-agent given only an area of the code and a scratch worktree; '
                        'it checked 306 tests and a byte-identical behaviour transcript'})
        print('imported', sid)


def cmd_benign(ids):
    REPO = os.environ.get('SEED_REPO', '/repo')     # a scratch worktree of /repo may stand in for it
    global SEEDED
    SEEDED = os.path.join(V, 'benign')
    st = sh(['git', '-C', REPO, 'status', '--porcelain'])
    assert not st.stdout.strip(), '/repo is not clean'
    bad = 0
    for sid in ids_or_all(ids):
        d = os.path.join(SEEDED, sid)
        meta = load_meta(d)
        ap = sh(['git', '-C', REPO, 'apply', os.path.join(d, 'patch.diff')])
        if ap.returncode != 0:
            print(sid, 'patch does not apply', ap.stderr[:200])
            continue
        try:
            t = sh([PY, '-m', 'pytest', '-q', '-p', 'no:cacheprovider', 'tests'], cwd=REPO)
            tail = (t.stdout.strip().splitlines() or ['?'])[-1]
            env = dict(os.environ, SA_NOWRITE='1')
            procs = {p: subprocess.Popen([PY, '-m', 'sa.check', p, '--tier', 'quick', '--repo', REPO], cwd=V, env=env, stdout=subprocess.PIPE, stderr=subprocess.STDOUT, text=True)
                     for p in PROPS}
            alarms = {}
            for p, pr in procs.items():
                out, _ = pr.communicate()
                if pr.returncode != 0:
                    alarms[p] = {'exit': pr.returncode, 'lines': [l[:260] for l in out.splitlines() if l.startswith(('  ', 'ANALYSIS-ERROR'))][:4]}
        finally:
            sh(['git', '-C', REPO, 'checkout', '--', '.'])
            sh(['git', '-C', REPO, 'clean', '-fdq', 'src'])
        meta['tests_with_change'] = tail
        if 'alarms' not in meta:      # the very first run against this refactoring, before any tuning of the rules
            meta['first_shot_alarms'] = alarms
        meta['alarms'] = alarms
        save_meta(d, meta)
        print('%-18s tests: %-22s %s' % (sid, tail, 'silent' if not alarms else 'ALARMS %s' % sorted(alarms)))
        for p, a in alarms.items():
            bad += 1
            for l in a['lines'][:2]:
                print('      %s exit %d %s' % (p, a['exit'], l))
    assert not sh(['git', '-C', REPO, 'status', '--porcelain']).stdout.strip(), '/repo left dirty!'
    return bad


if __name__ == '__main__':
    a = sys.argv[1:]
    if a[0] == 'import-benign':
        cmd_import_benign(a[1], a[2])
        sys.exit(0)
    if a[0] == 'benign':
        cmd_benign(a[1:])
        sys.exit(0)
    if a[0] == 'import':
        cmd_import(a[1], a[2])
    elif a[0] == 'verify':
        cmd_verify(a[1:])
    elif a[0] == 'detect':
        cmd_detect(a[1:])

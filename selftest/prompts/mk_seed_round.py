#!/venv/bin/python
"""Create the scratch worktrees and prompts of one round of seeded property-breaking changes (developer tooling).
usage: mk_seed_round.py <round-number> ["extra instruction inserted before 'Avoid the single most obvious ...'"]
The sub-agent sees only the text of one property and its own worktree: nothing from /verif."""
import json
import os
import re
import subprocess
import sys

V = os.path.dirname(os.path.dirname(os.path.dirname(os.path.abspath(__file__))))


def main():
    rnd = sys.argv[1]
    extra = sys.argv[2] if len(sys.argv) > 2 else ''
    ex = open(os.path.join(V, 'selftest', 'prompts', 'seeding_prompt_example_C01.txt')).read()
    m = re.search(r"THE PROPERTY the library is supposed to satisfy:\n\n(.*?)\n\n\nYOUR TASK", ex, re.S)
    for line in open(os.path.join(V, 'properties.jsonl')):
        d = json.loads(line)
        pid = d['id']
        ptxt = "%s — %s\n\nStatement: %s\n\nQuantified over: %s" % (pid, d['title'], d['statement'], d.get('quantifier', {}).get('text', ''))
        s = ex[:m.start(1)] + ptxt + ex[m.end(1):]
        wt, out = '/tmp/seed%s/%s' % (rnd, pid), '/tmp/seedout%s/%s' % (rnd, pid)
        s = s.replace('/tmp/seed4/C01', wt).replace('/tmp/seedout4/C01', out)
        if extra:
            s = s.replace('Avoid the single most obvious one-token mutation of the central function;', extra + ' Avoid the single most obvious one-token mutation of the central function;')
        os.makedirs(out, exist_ok=True)
        os.makedirs(os.path.dirname(wt), exist_ok=True)
        if not os.path.exists(wt):
            subprocess.run(['git', '-C', '/repo', 'worktree', 'add', '-q', '--detach', wt, 'HEAD'], check=True)
        open(os.path.join(out, 'prompt.txt'), 'w').write(s)
        print(wt, out)


if __name__ == '__main__':
    main()

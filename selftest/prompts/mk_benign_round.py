#!/venv/bin/python
"""Create the scratch worktrees and the prompts of one round of behaviour-preserving refactorings (developer tooling).
usage: mk_benign_round.py <round-number> <tag-letter>      e.g. 5 E  ->  /tmp/ben5/E1.. and /tmp/benout5/E1../prompt.txt
The sub-agent sees only its area of the code and its own worktree: nothing from /verif."""
import os
import subprocess
import sys

AREAS = [
    ('ansi_parsing.py: the tokenizer ParsedAnsiControlSequenceString (its __init__ scan loop, formatted_str, __str__/__repr__) and parse_graphic_sequence'),
    ('ansi_format.py and ansi_param.py: AnsiSetting (valid, parsable, to_list, get_initial_param, __eq__/__hash__), _AnsiControlFn, the AnsiFormat members and '
     'the code->effect table _ANSI_CODE_TO_EFFECT / AnsiParam'),
    ('ansi_string.py: AnsiString.__init__, set_ansi_str, simplify, assign_str, base_str, copy, and the module-level helper settings_to_dict'),
    ('ansi_string.py: AnsiString.apply_formatting, remove_formatting, clear_formatting, _AnsiSettingPoint.insert_settings, _scrub_ansi_settings, _find_setting_reference'),
    ('ansi_string.py: AnsiString.__getitem__, clip, _slice_val_to_idx, the iterator classes _AnsiSettingsIterator and _AnsiCharIterator'),
    ('ansi_string.py: AnsiString.__add__, __iadd__, join, _shift_settings_idx, ljust, rjust, center, zfill'),
    ('ansi_string.py: AnsiString.to_str, _apply_string_format, __format__, __str__, and the optimiser part of to_str'),
    ('ansi_string.py: the str-like editing methods of AnsiString: replace, expandtabs, split, rsplit, _split, splitlines, partition, rpartition, strip, lstrip, rstrip, '
     '_strip, removeprefix, removesuffix, capitalize/lower/upper/swapcase/title'),
    ('ansi_string.py: the immutable wrapper class AnsiStr (all of its methods, __new__, and how each delegates to AnsiString)'),
    ('ansi_string.py: the queries AnsiString.find_settings, ansi_settings_at, settings_at, is_formatting_valid, is_formatting_parsable, is_optimizable, '
     'format_matching, unformat_matching'),
    ('ansi_string.py: _AnsiSettingPoint._parse_rgb_string, _scrub_ansi_format_string and the other code that turns the user-facing spellings of a setting '
     '(names, "rgb(...)", ints, "[31", lists, AnsiFormat members) into AnsiSetting objects'),
    ('ansi_format.py / ansi_param.py / __init__.py / utils.py: the cursor and erase helper functions, the colour helper functions (rgb, color256, ...), '
     'ColorComponentType, and the small utilities'),
]

PROMPT = '''You are helping to test a static-analysis tool: it must stay silent on code changes that do not change behaviour. Your job is to write such changes.

The git worktree at {wt} is a checkout of the library Tails86/ansi-string (a pure-Python library for building, parsing, slicing and rendering strings with ANSI SGR colour/style escape sequences with a str-like API). Package source: src/ansi_string/*.py, tests: tests/. Use the interpreter /venv/bin/python. Work ONLY inside {wt} and {out}. Never touch or read /repo or /verif. Do not commit anything and do not use git stash (the stash is shared between worktrees); to get back to the clean tree use `git checkout -- .`, to re-apply a change use `git apply <patch>`.

YOUR AREA of the code: {area}

YOUR TASK: produce 4 independent BEHAVIOUR-PRESERVING refactorings of code in your area (only files under src/ansi_string), each starting from the clean worktree. They must be the kind of change a maintainer really makes and would merge: STRUCTURAL refactorings, 5 to 40 changed lines each, for example
 - extract a private helper function / method / nested function out of a longer function, or inline a small helper into its callers;
 - restructure control flow (early return / guard clause instead of nested if-else or the other way round, a while loop as a for loop, a loop as a comprehension or the reverse, merge two loops, split one, hoist an invariant computation, introduce a local variable for a repeated expression);
 - build a table or constant a different way (comprehension, helper, dict.update, class-level constant instead of literal in the function);
 - rename local variables, private helpers or private attributes consistently; reorder independent statements; replace an idiom by an equivalent one (`x if c else y` vs if/else, `not a or b` vs nested ifs, `dict.get` vs `in` test, `enumerate`, tuple unpacking, `any`/`all`, f-string vs format, `+=` on a list vs append, isinstance tuple vs chained or).
The 4 refactorings should differ in kind and touch different functions where possible. Do NOT change any public name, signature, default, return type, exception type, or observable behaviour -- including for unusual inputs (empty strings, negative or out-of-range indices, None arguments, equal-but-distinct setting objects, overlapping ranges), and including which object identities are shared or copied (aliasing is behaviour here: a copy must stay a copy, a shared reference may stay shared).

For each refactoring you must CHECK that it preserves behaviour:
 1. the complete existing test-suite passes: `cd {wt} && /venv/bin/python -m pytest -q -p no:cacheprovider tests` (306 tests);
 2. write once a script {out}/transcript.py that starts with `import sys; sys.path.insert(0, '{wt}/src')`, exercises the functions of your area broadly (at least 150 varied calls including the unusual inputs listed above, multi-step sequences, both classes AnsiString and AnsiStr where applicable, exceptions caught and printed by type and message) and prints every result with repr() (for AnsiString/AnsiStr results print str(x), x.base_str and the per-character settings [x.settings_at(i) for i in range(len(x))], and for mutable receivers also print the receiver afterwards). Save its output on the clean tree as {out}/transcript_clean.txt; with each refactoring applied the output must be byte-identical (`diff`). If it is not, the refactoring changed behaviour: fix or discard it.

For each refactoring N (1..4) save into {out}/rN/ :
  - patch.diff : the output of `git -C {wt} diff` with only that refactoring applied
  - notes.md   : what was restructured and why it cannot change behaviour (one paragraph), plus the commands you ran with their outcomes (tests, transcript diff)
After saving each one restore the worktree: `git -C {wt} checkout -- .`

Final answer: a short list of the four refactorings (file, function, one line each).
'''


def main():
    rnd, tag = sys.argv[1], sys.argv[2]
    for i, area in enumerate(AREAS, 1):
        wt = '/tmp/ben%s/%s%d' % (rnd, tag, i)
        out = '/tmp/benout%s/%s%d' % (rnd, tag, i)
        os.makedirs(os.path.dirname(wt), exist_ok=True)
        os.makedirs(out, exist_ok=True)
        if not os.path.exists(wt):
            subprocess.run(['git', '-C', '/repo', 'worktree', 'add', '-q', '--detach', wt, 'HEAD'], check=True)
        open(os.path.join(out, 'prompt.txt'), 'w').write(PROMPT.format(wt=wt, out=out, area=area))
        print(wt, out)


if __name__ == '__main__':
    main()

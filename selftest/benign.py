"""Developer tool: behaviour-preserving rewrites of the package; every check must stay silent (exit 0) on each.
usage: benign.py [name ...]"""
import ast, os, re, shutil, subprocess, sys, tempfile
PY = '/venv/bin/python'
V = os.path.dirname(os.path.dirname(os.path.abspath(__file__)))
PROPS = ['C%02d' % i for i in range(1, 20)]

def each_file(d):
    for fn in sorted(os.listdir(d)):
        if fn.endswith('.py'):
            yield os.path.join(d, fn)

def v_unparse(d):
    "formatter pass: every module re-emitted by ast.unparse (comments gone, layout changed, line numbers moved)"
    for p in each_file(d):
        src = open(p).read()
        open(p, 'w').write(ast.unparse(ast.parse(src)) + '\n')

def v_shift(d):
    "comment lines inserted at the top of every module and before every def"
    for p in each_file(d):
        s = open(p).read()
        s = '# shifted\n# shifted again\n' + re.sub(r'(?m)^(\s*)def ', r'\1# a comment before the function\n\1def ', s)
        open(p, 'w').write(s)

def _sub_all(d, pairs):
    for p in each_file(d):
        s = open(p).read()
        for a, b in pairs:
            s = re.sub(a, b, s)
        open(p, 'w').write(s)

def v_rename_fields(d):
    "private fields renamed: AnsiString._fmts -> _table, _AnsiSettingPoint.add/rem -> starts/stops"
    _sub_all(d, [(r'\b_fmts\b', '_table'), (r'(?<=\.)add\b(?!\()', 'starts'), (r'(?<=\.)rem\b(?!\()', 'stops'),
                 (r'\badd:Union', 'starts:Union'), (r'\brem:Union', 'stops:Union'), (r'\badd or \[\]', 'starts or []'), (r'\brem or \[\]', 'stops or []'),
                 (r'_AnsiSettingPoint\(rem=', '_AnsiSettingPoint(stops='), (r'_AnsiSettingPoint\(add=', '_AnsiSettingPoint(starts=')])

def v_rename_helpers(d):
    "private helpers renamed"
    _sub_all(d, [(r'\b_slice_val_to_idx\b', '_norm_index'), (r'\b_find_setting_reference\b', '_identity_index'),
                 (r'\b_find_settings_references\b', '_identity_pairs'), (r'\b_scrub_ansi_settings\b', '_clean_settings'),
                 (r'\b_AnsiSettingsIterator\b', '_PointWalker'), (r'\b_AnsiSettingPoint\b', '_Point')])

def v_rename_locals(d):
    "local variables renamed in the big functions"
    _sub_all(d, [(r'\bcpy\b', 'duplicate'), (r'\bsettings_point\b', 'pt'), (r'\bremoved_settings\b', 'taken_out'), (r'\bprevious_settings\b', 'before'),
                 (r'\bsettings_initialized\b', 'seeded'), (r'\bout_str\b', 'rendered'), (r'\blast_idx\b', 'cursor'), (r'\bincoming_fmts\b', 'their_points')])

def v_ifexp_switch(d):
    "the in-place switch written as a conditional expression"
    p = os.path.join(d, 'ansi_string.py')
    s = open(p).read()
    s = re.sub(r'(?m)^(\s+)if inplace:\n\s+obj = self\n\s+else:\n\s+obj = self\.copy\(\)\n', r'\1obj = self if inplace else self.copy()\n', s)
    open(p, 'w').write(s)

VARIANTS = {f.__name__[2:]: f for f in (v_unparse, v_shift, v_rename_fields, v_rename_helpers, v_rename_locals, v_ifexp_switch)}

def main():
    names = sys.argv[1:] or list(VARIANTS)
    bad = 0
    for nme in names:
        d = tempfile.mkdtemp(prefix='benign_')
        try:
            shutil.copytree('/repo/src', d + '/src')
            shutil.copytree('/repo/tests', d + '/tests')
            VARIANTS[nme](d + '/src/ansi_string')
            t = subprocess.run([PY, '-m', 'pytest', '-q', '-p', 'no:cacheprovider', 'tests'], cwd=d, capture_output=True, text=True)
            tail = (t.stdout.strip().splitlines() or ['?'])[-1]
            procs = {p: subprocess.Popen([PY, '-m', 'sa.check', p, '--repo', d], cwd=V, env=dict(os.environ, SA_NOWRITE='1'),
                                         stdout=subprocess.PIPE, stderr=subprocess.STDOUT, text=True) for p in PROPS}
            res = {}
            for p, pr in procs.items():
                out, _ = pr.communicate()
                if pr.returncode != 0:
                    res[p] = (pr.returncode, [l[:230] for l in out.splitlines() if l.startswith(('  ', 'ANALYSIS'))][:3])
            print('%-16s tests: %s   checks: %s' % (nme, tail, 'all silent' if not res else ''))
            for p, (rc, lines) in res.items():
                bad += 1
                print('    %s exit %d' % (p, rc))
                for l in lines:
                    print('       ', l)
        finally:
            shutil.rmtree(d)
    return 1 if bad else 0
sys.exit(main())

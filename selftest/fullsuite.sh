#!/bin/bash
cd /verif
echo "== clean" 
for i in $(seq -w 1 19); do SA_NOWRITE=1 /venv/bin/python -m sa.check C$i > /tmp/o_$i.txt 2>&1 || echo "C$i FAIL $(grep -v conda /tmp/o_$i.txt | tail -3 | cut -c1-250)"; done
echo "== benign subagent"
timeout 12000 /venv/bin/python selftest/seeded.py benign 2>&1 | grep -v conda | cut -c1-300 | grep -v " silent$"
echo "== benign mechanical"
timeout 900 /venv/bin/python selftest/benign.py 2>&1 | grep -v conda | cut -c1-200
echo "== seeded detect"
timeout 12000 /venv/bin/python selftest/seeded.py detect 2>&1 | grep -v conda | grep -v DETECTED | cut -c1-250
echo "== regress"
timeout 3000 /venv/bin/python selftest/regress.py 2>&1 | grep -v conda | grep -v " ok$"
echo "== corpus"
timeout 3000 /venv/bin/python selftest/corpus.py 2>&1 | grep -v conda | tail -6
echo "== done"

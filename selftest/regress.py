"""Developer tool: every "fix:" commit of /repo, reverted on its own in a scratch worktree, must be reported again by the property it is
recorded under in known_findings.json (a fixed entry suppresses nothing).  Nothing here is a registered check.

usage: regress.py [commit ...]"""
import json
import os
import re
import shutil
import subprocess
import sys
import tempfile

V = os.path.dirname(os.path.dirname(os.path.abspath(__file__)))
PY = '/venv/bin/python'
PROPS = ['C%02d' % i for i in range(1, 20)]


def sh(cmd, **kw):
    return subprocess.run(cmd, capture_output=True, text=True, **kw)


def main():
    fixed = json.load(open(os.path.join(V, 'known_findings.json')))['fixed']
    by_commit = {}
    for line in fixed:
        m = re.match(r'fixed: property=(C\d+) ([0-9a-f]{7,}) (.*)', line)
        by_commit.setdefault(m.group(2), []).append((m.group(1), m.group(3)))
    log = sh(['git', '-C', '/repo', 'log', '--format=%h %s', '--reverse']).stdout.splitlines()
    commits = [l.split()[0] for l in log if l.split(' ', 1)[1].startswith('fix:')]
    if sys.argv[1:]:
        commits = [c for c in commits if c in sys.argv[1:]]
    wt = tempfile.mkdtemp(prefix='rg_')
    os.rmdir(wt)
    assert sh(['git', '-C', '/repo', 'worktree', 'add', '-q', '--detach', wt, 'HEAD']).returncode == 0
    bad = 0
    try:
        for c in commits:
            want = sorted({p for p, _ in by_commit.get(c, [])})
            patch = sh(['git', '-C', '/repo', 'diff', c + '~1', c]).stdout
            pf = os.path.join(wt, '.rev.diff')
            open(pf, 'w').write(patch)
            ap = sh(['git', '-C', wt, 'apply', '-R', pf])
            os.remove(pf)
            if ap.returncode != 0:
                print('%s  revert does not apply on HEAD (later commits touch the same lines): %s' % (c, ap.stderr.strip().splitlines()[0][:100]))
                sh(['git', '-C', wt, 'checkout', '--', '.'])
                continue
            env = dict(os.environ, SA_NOWRITE='1')
            procs = {p: subprocess.Popen([PY, '-m', 'sa.check', p, '--tier', 'quick', '--repo', wt], cwd=V, env=env, stdout=subprocess.PIPE,
                                         stderr=subprocess.STDOUT, text=True) for p in PROPS}
            fired, errs = [], []
            for p, pr in procs.items():
                pr.communicate()
                if pr.returncode == 1:
                    fired.append(p)
                elif pr.returncode == 2:
                    errs.append(p)
            sh(['git', '-C', wt, 'checkout', '--', '.'])
            ok = bool(want) and set(want) <= set(fired)
            bad += not ok
            print('%s  recorded under %s  reverted -> VIOLATION %s%s  %s' % (c, want or '?', fired, (' ANALYSIS-ERROR %s' % errs) if errs else '',
                                                                          'ok' if ok else 'NOT REPORTED AGAIN'))
    finally:
        sh(['git', '-C', '/repo', 'worktree', 'remove', '--force', wt])
        shutil.rmtree(wt, ignore_errors=True)
    print('commits: %d  not reported again: %d' % (len(commits), bad))


if __name__ == '__main__':
    main()

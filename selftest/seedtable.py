"""Developer tool: print the markdown table "which checks catch which seeded change" from seeded/*/meta.json (DESIGN §8.5)."""
import json
import os
import re

V = os.path.dirname(os.path.dirname(os.path.abspath(__file__)))


def main():
    rows = []
    for sid in sorted(os.listdir(os.path.join(V, 'seeded'))):
        d = os.path.join(V, 'seeded', sid)
        mp = os.path.join(d, 'meta.json')
        if not os.path.exists(mp):
            continue
        m = json.load(open(mp))
        patch = open(os.path.join(d, 'patch.diff')).read()
        fns = []
        for h in re.findall(r'^@@.*@@\s*(.*)$', patch, re.M):
            h = h.strip()
            mm = re.search(r'(def|class)\s+(\w+)', h)
            if mm and mm.group(2) not in fns:
                fns.append(mm.group(2))
        files = sorted({os.path.basename(f) for f in re.findall(r'^\+\+\+ b/(\S+)', patch, re.M)})
        det = m.get('detection', {})
        v = det.get('violations', {})
        tgt = m.get('property')
        first = m.get('first_shot')
        own = ','.join(v.get(tgt, [])) or '—'
        others = ' '.join('%s(%s)' % (p, ','.join(r)) for p, r in sorted(v.items()) if p != tgt)
        needs = m.get('needs', '')
        rows.append('| %s | %s: %s | %s | %s | %s | %s |' % (sid, ','.join(files).replace('.py', ''), ', '.join(fns[:3]) or '?', needs, own, others or '—',
                                                          first if first is not None else ''))
    print('| id | file: enclosing def/class of the hunks | needs to manifest | rules firing at the target property | other properties firing | first shot |')
    print('|---|---|---|---|---|---|')
    print('\n'.join(rows))


if __name__ == '__main__':
    main()

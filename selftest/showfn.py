"""Developer tool: print functions of the model (after the normal form and the inlining pre-pass) for /repo with a stored patch applied.
usage: showfn.py <seeded-or-benign id | -> <qualname> [<qualname> ...]"""
import ast
import os
import shutil
import subprocess
import sys
import tempfile

V = os.path.dirname(os.path.dirname(os.path.abspath(__file__)))
sys.path.insert(0, V)


def main():
    sid, quals = sys.argv[1], sys.argv[2:]
    d = tempfile.mkdtemp(prefix='show_')
    try:
        shutil.copytree(os.environ.get('SEED_REPO', '/repo') + '/src', d + '/src')
        if sid != '-':
            pd = os.path.join(V, 'benign' if sid.startswith('benign') else 'seeded', sid, 'patch.diff')
            r = subprocess.run(['patch', '-p1', '-s', '-d', d, '-i', pd], capture_output=True, text=True)
            if r.returncode:
                print(r.stdout, r.stderr)
        from sa.model import Model
        m = Model(d)
        for l in m.prepass_log:
            print('#', l)
        for q in quals:
            f = m.funcs.get(q)
            print(ast.unparse(f.node) if f else '%s: not found' % q)
            print()
    finally:
        shutil.rmtree(d)


main()

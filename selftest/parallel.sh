#!/bin/bash
# Developer tooling: the stored refactorings (must be silent) and the stored seeded changes (must be reported) checked in parallel on N scratch
# worktrees of /repo's HEAD (created under /tmp, removed afterwards).  /repo's own working tree is not touched.
# usage: parallel.sh [N]      output: /tmp/par_benign_K.log, /tmp/par_seeded_K.log
N=${1:-14}
cd /verif
for k in $(seq 1 $N); do git -C /repo worktree remove --force /tmp/par$k 2>/dev/null; git -C /repo worktree add -q --detach /tmp/par$k HEAD; done
b=($(ls benign | sort)); s=($(ls seeded | sort))
qb=$(( (${#b[@]} + N - 1) / N )); qs=$(( (${#s[@]} + N - 1) / N ))
for k in $(seq 1 $N); do
  ( SEED_REPO=/tmp/par$k /venv/bin/python selftest/seeded.py benign ${b[@]:$(( (k-1)*qb )):$qb} > /tmp/par_benign_$k.log 2>&1
    SEED_REPO=/tmp/par$k /venv/bin/python selftest/seeded.py detect ${s[@]:$(( (k-1)*qs )):$qs} > /tmp/par_seeded_$k.log 2>&1 ) &
done
wait
for k in $(seq 1 $N); do git -C /repo worktree remove --force /tmp/par$k; done
git -C /repo worktree prune
echo "== benign not silent: $(cat /tmp/par_benign_*.log | grep -c ALARMS) of ${#b[@]}"
cat /tmp/par_benign_*.log | grep -A2 ALARMS | cut -c1-260
echo "== seeded not reported at target: $(cat /tmp/par_seeded_*.log | grep -v conda | grep 'target=' | grep -vc DETECTED) of ${#s[@]}"
cat /tmp/par_seeded_*.log | grep 'target=' | grep -v DETECTED | cut -c1-250

"""Developer tool: run every rule on the graded single-edit corpus (notes/triage/survey2_labels.json: 765 edits that survive the test
suite, 352 graded property-breaking by the differential oracle, 413 equivalent / oracle misses).  The variants are rebuilt in memory from
/repo's current source with the survey's own generator; nothing is executed -- only the static rules run on each variant.

usage: corpus.py [--jobs N] [--only-file ansi_string.py] [--limit N]"""
import ast
import collections
import importlib.util
import json
import multiprocessing as mp
import os
import sys
import time

V = os.path.dirname(os.path.dirname(os.path.abspath(__file__)))
sys.path.insert(0, V)
SRC = '/repo/src/ansi_string'
FILES = ['ansi_string.py', 'ansi_parsing.py', 'ansi_format.py', 'ansi_param.py']


def load_gen():
    path = os.path.join(V, 'notes', 'triage', 'survey2_gen.py')
    src = open(path).read().replace("main(sys.argv[1])", "")
    mod = type(sys)('survey2_gen')
    exec(compile(src, path, 'exec'), mod.__dict__)
    return mod


def build_variants():
    gen = load_gen()
    labels = json.load(open(os.path.join(V, 'notes', 'triage', 'survey2_labels.json')))['items']
    # labels are keyed by function + description; the line is only used to order several equal edits inside one function
    # (fix commits made after the survey shift line numbers)
    by_fd = collections.defaultdict(list)
    for it in labels:
        by_fd[(it['file'], it['qual'], it['desc'])].append(it)
    for v in by_fd.values():
        v.sort(key=lambda it: it['line'])
    out = []
    for fname in FILES:
        tree = ast.parse(open(os.path.join(SRC, fname)).read())
        base = ast.unparse(tree)
        gens = list(gen.mutants_for(tree, fname))
        gen_fd = collections.defaultdict(list)
        for qual, line, desc, ap in gens:
            gen_fd[(fname, qual, desc)].append(line)
        want = collections.defaultdict(list)
        shift_votes = collections.defaultdict(collections.Counter)       # function -> line shift since the survey
        for k, lines in gen_fd.items():
            labs = by_fd.get(k, [])
            lines = sorted(lines)
            if len(labs) == len(lines):
                for ln, it in zip(lines, labs):
                    want[(k[0], k[1], ln, k[2])].append(it)
                    shift_votes[k[1]][ln - it['line']] += 1
        for k, lines in gen_fd.items():
            labs = by_fd.get(k, [])
            if len(labs) != len(lines):
                d = shift_votes[k[1]].most_common(1)[0][0] if shift_votes[k[1]] else 0
                for it in labs:
                    for cand in (it['line'] + d, it['line']):
                        if cand in lines and not want[(k[0], k[1], cand, k[2])]:
                            want[(k[0], k[1], cand, k[2])].append(it)
                            break
        for qual, line, desc, ap in gens:
            key = (fname, qual, line, desc)
            if key not in want or not want[key]:
                continue
            undo = ap()
            try:
                code = ast.unparse(tree)
            finally:
                undo()
            if code == base:
                continue
            try:
                compile(code, fname, 'exec')
            except Exception:
                continue
            it = want[key].pop(0)
            out.append((it, fname[:-3], code))
    missing = len(labels) - len(out)
    return out, missing


def run_one(args):
    it, modname, code = args
    from sa.model import Model, AnalysisError
    from sa import report
    from sa.report import RULES, VIOL, UNDEC
    import sa.rules  # noqa
    from sa.props import PROPS
    fired = {}
    errors = {}
    allobl = {}
    try:
        model = Model('/repo', {modname: code})
    except AnalysisError as e:
        return dict(it, fired={}, errors={'model': str(e)}, props=[], error_props=sorted(PROPS))
    for rid in RULES:
        try:
            obls = report.run_rule(rid, model)
        except AnalysisError as e:
            errors[rid] = str(e)[:120]
            continue
        except Exception as e:
            errors[rid] = 'crash %s: %s' % (type(e).__name__, str(e)[:100])
            continue
        allobl[rid] = obls
        floor = RULES[rid][2]
        if len(obls) < floor and not any(o.status == VIOL for o in obls):
            errors[rid] = 'floor %d > %d' % (floor, len(obls))
        v = [o for o in obls if o.status == VIOL and not (rid == 'P23')]
        u = [o for o in obls if o.status == UNDEC]
        if v:
            fired[rid] = v[0].construct[:80]
        if u:
            errors[rid] = 'undecided: ' + u[0].construct[:60]
    import re
    props, eprops = [], []
    for p, d in PROPS.items():
        hit = err = False
        for spec in d['rules']:
            rid, flt = (spec, None) if isinstance(spec, str) else (spec[0], re.compile(spec[1]))
            if rid in errors and rid not in allobl:
                err = True
            for o in allobl.get(rid, []):
                if flt is not None and not flt.search('%s :: %s' % (o.func, o.construct)):
                    continue
                if o.status == VIOL and rid != 'P23':
                    hit = True
                if o.status == UNDEC:
                    err = True
            if rid in errors and errors[rid].startswith('floor'):
                err = True
        if hit:
            props.append(p)
        elif err:
            eprops.append(p)
    return dict(it, fired=fired, errors=errors, props=sorted(props), error_props=sorted(eprops))


def main():
    a = sys.argv[1:]
    jobs = int(a[a.index('--jobs') + 1]) if '--jobs' in a else 16
    variants, missing = build_variants()
    if '--limit' in a:
        variants = variants[:int(a[a.index('--limit') + 1])]
    print('variants rebuilt: %d (labelled items not matched: %d)' % (len(variants), missing))
    t = time.time()
    with mp.Pool(jobs) as pool:
        res = pool.map(run_one, variants, chunksize=4)
    json.dump(res, open(os.path.join(V, 'selftest', 'corpus_result.json'), 'w'), indent=0)
    br = [r for r in res if r['kinds']]
    eq = [r for r in res if not r['kinds']]
    det = [r for r in br if r['fired']]
    err_only = [r for r in br if not r['fired'] and r['errors']]
    fa = [r for r in eq if r['fired']]
    fe = [r for r in eq if not r['fired'] and r['errors']]
    print('graded property-breaking: %d  -> VIOLATION %d, only ANALYSIS-ERROR %d, silent %d' % (len(br), len(det), len(err_only), len(br) - len(det) - len(err_only)))
    print('graded equivalent/unflagged: %d -> VIOLATION %d, only ANALYSIS-ERROR %d, silent %d' % (len(eq), len(fa), len(fe), len(eq) - len(fa) - len(fe)))
    # target-property agreement: a fired property among the oracle's properties
    agree = 0
    for r in det:
        op = set(r.get('oracle_props') or [k.split()[0] for k in r['kinds']])
        if op & set(r['props']):
            agree += 1
    print('of the detected, %d fire at least one of the properties the oracle named' % agree)
    print('wall %.1fs' % (time.time() - t))


if __name__ == '__main__':
    main()

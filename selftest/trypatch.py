"""Developer tool: apply a patch (benign/<id> or seeded/<id>) to a scratch copy of /repo/src and run checks.
usage: trypatch.py <id> <PROP[,PROP]> [--only RULE]"""
import os, shutil, subprocess, sys, tempfile
a = sys.argv[1:]
only = None
if '--only' in a:
    i = a.index('--only'); only = a[i+1]; del a[i:i+2]
sid, props = a
V = os.path.dirname(os.path.dirname(os.path.abspath(__file__)))
pd = next(p for p in (os.path.join(V, 'benign', sid, 'patch.diff'), os.path.join(V, 'seeded', sid, 'patch.diff')) if os.path.exists(p))
d = tempfile.mkdtemp(prefix='tp_')
try:
    shutil.copytree('/repo/src', d + '/src')
    r = subprocess.run(['patch', '-p1', '-s', '-d', d, '-i', pd], capture_output=True, text=True)
    if r.returncode:
        print('patch failed', r.stdout, r.stderr); sys.exit(3)
    for p in props.split(','):
        cmd = ['/venv/bin/python', '-m', 'sa.check', p, '--repo', d] + (['--only', only] if only else [])
        subprocess.run(cmd, cwd=V, env=dict(os.environ, SA_NOWRITE='1', SA_DEBUG='1'))
finally:
    shutil.rmtree(d)

"""Developer tool: apply one textual edit to a scratch copy of the package and run checks on it.
usage: tryedit.py <file.py> <old> <new> <PROP>[,<PROP>...] [--only RULE] [--nth N]"""
import os, shutil, subprocess, sys, tempfile
def main():
    a = sys.argv[1:]
    only = None; nth = 0
    if '--only' in a:
        i = a.index('--only'); only = a[i+1]; del a[i:i+2]
    if '--nth' in a:
        i = a.index('--nth'); nth = int(a[i+1]); del a[i:i+2]
    fname, old, new, props = a
    d = tempfile.mkdtemp(prefix='sa_try_')
    try:
        shutil.copytree('/repo/src', d + '/src')
        p = d + '/src/ansi_string/' + fname
        s = open(p).read()
        idx = -1
        for _ in range(nth + 1):
            idx = s.find(old, idx + 1)
            if idx < 0:
                print('OLD TEXT NOT FOUND'); return 3
        s = s[:idx] + new + s[idx+len(old):]
        compile(s, p, 'exec')
        open(p, 'w').write(s)
        rc = 0
        for prop in props.split(','):
            cmd = ['/venv/bin/python', '-m', 'sa.check', prop, '--repo', d] + (['--only', only] if only else [])
            env = dict(os.environ, SA_NOWRITE='1')
            r = subprocess.run(cmd, cwd='/verif', env=env)
            rc = max(rc, r.returncode)
        print('exit', rc)
        return rc
    finally:
        shutil.rmtree(d)
sys.exit(main())

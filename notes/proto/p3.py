import ast,sys
sys.path.insert(0,'/tmp/proto')
from cfg import *
def get_fn(path,cls,name):
    t=ast.parse(open(path).read())
    for c in t.body:
        if isinstance(c,ast.ClassDef) and c.name==cls:
            for f in c.body:
                if isinstance(f,ast.FunctionDef) and f.name==name: return f
def assign_hook(st,env):
    # constant flags
    if isinstance(st,ast.Assign) and len(st.targets)==1 and isinstance(st.targets[0],ast.Name):
        n=st.targets[0].id
        if isinstance(st.value,ast.Constant) and isinstance(st.value.value,bool): env[n]=st.value.value
        else:
            env.pop(n,None)
        # invalidate text facts mentioning n
        for k in [k for k in env if k!=n and n in k.split() ]: env.pop(k)
    # taint: variables carrying RESET
    tainted=env.setdefault('#reset',frozenset())
    def has_reset(e):
        return 'AnsiParam.RESET' in ast.unparse(e) or any(isinstance(x,ast.Name) and x.id in tainted for x in ast.walk(e))
    if isinstance(st,ast.Assign) and isinstance(st.targets[0],ast.Name):
        n=st.targets[0].id
        env['#reset']=(tainted|{n}) if has_reset(st.value) else (tainted-{n})
    if isinstance(st,ast.AugAssign) and isinstance(st.target,ast.Name) and st.target.id=='out_str':
        if has_reset(st.value) or 'ansi_escape_clear' in ast.unparse(st.value): env['#emitted_reset']=True
        elif '_s[' in ast.unparse(st.value) and not env.get('#emitted_reset'): env['#text_before_reset']=True
def check(path):
    fn=get_fn(path,'AnsiString','to_str'); cfg=CFG(fn)
    loop=[n for n in cfg.nodes if n.kind=='loop' and isinstance(n.stmt,ast.For) and '_AnsiSettingsIterator' in ast.unparse(n.stmt.iter)][0]
    body_first=[n for l,n in loop.succ if l is True][0]
    res=[]
    for scen,facts in (('idx==0',{'idx == 0':True,'idx > 0':False,'idx >= len(obj)':False}),('idx>0',{'idx == 0':False,'idx > 0':True,'idx >= len(obj)':False})):
        env={'reset_start':True,'first_iter':True,**facts}
        ps=paths(cfg,body_first,lambda n:n is loop,env,assign_hook)
        bad=[p for p,e in ps if not e.get('#emitted_reset') and p[-1] is loop]
        bad2=[p for p,e in ps if e.get('#text_before_reset')]
        res.append((scen,len(ps),len(bad),len(bad2)))
        if bad:
            p=bad[0]; print('  witness path:',[ (n.stmt.lineno if n.stmt is not None else None) for n in p if n.kind in('stmt','test')])
    return res
for p in sys.argv[1:]:
    print(p, check(p))

"""Prototype: statement-level CFG + bounded path enumeration with flag constant propagation."""
import ast, itertools
class Node:
    __slots__=('id','kind','stmt','test','succ')
    def __init__(s,i,kind,stmt=None,test=None): s.id=i; s.kind=kind; s.stmt=stmt; s.test=test; s.succ=[]   # succ: list of (label, node)
    def __repr__(s): return f'<{s.id}:{s.kind}:{ast.unparse(s.stmt or s.test)[:40] if (s.stmt or s.test) else ""}>'
class CFG:
    def __init__(self, fn):
        self.fn=fn; self.nodes=[]; self.entry=self.new('entry'); self.exit=self.new('exit'); self.raise_exit=self.new('raise')
        outs=self.block(fn.body,[(None,self.entry)],None,None)
        for lab,n in outs: n.succ.append((lab,self.exit))
    def new(self,kind,stmt=None,test=None):
        n=Node(len(self.nodes),kind,stmt,test); self.nodes.append(n); return n
    def link(self,ins,node):
        for lab,n in ins: n.succ.append((lab,node))
    def block(self,stmts,ins,brk,cont):
        """ins: list of (label, node) dangling edges; returns dangling edges after block"""
        for st in stmts:
            if not ins: break
            ins=self.stmt(st,ins,brk,cont)
        return ins
    def stmt(self,st,ins,brk,cont):
        if isinstance(st,ast.If):
            t=self.new('test',test=st.test,stmt=None); t.stmt=st; self.link(ins,t)
            a=self.block(st.body,[(True,t)],brk,cont)
            b=self.block(st.orelse,[(False,t)],brk,cont) if st.orelse else [(False,t)]
            return a+b
        if isinstance(st,(ast.For,ast.While)):
            h=self.new('loop',stmt=st,test=getattr(st,'test',None)); self.link(ins,h)
            brk_out=[]; 
            body_out=self.block(st.body,[(True,h)],brk_out,h)
            self.link(body_out,h)
            outs=[(False,h)]
            if st.orelse: outs=self.block(st.orelse,outs,brk,cont)
            return outs+brk_out
        if isinstance(st,ast.Return):
            n=self.new('return',stmt=st); self.link(ins,n); n.succ.append((None,self.exit)); return []
        if isinstance(st,ast.Raise):
            n=self.new('raise',stmt=st); self.link(ins,n); n.succ.append((None,self.raise_exit)); return []
        if isinstance(st,ast.Break):
            n=self.new('break',stmt=st); self.link(ins,n); brk.append((None,n)); return []
        if isinstance(st,ast.Continue):
            n=self.new('continue',stmt=st); self.link(ins,n); n.succ.append((None,cont)); return []
        if isinstance(st,ast.Try):
            # body; handlers reachable from try entry (coarse: any stmt in body may raise)
            tn=self.new('try',stmt=st); self.link(ins,tn)
            body=self.block(st.body,[(None,tn)],brk,cont)
            outs=self.block(st.orelse,body,brk,cont) if st.orelse else body
            for h in st.handlers:
                hn=self.new('except',stmt=h); tn.succ.append(('exc',hn))
                outs+=self.block(h.body,[(None,hn)],brk,cont)
            if st.finalbody: outs=self.block(st.finalbody,outs,brk,cont)
            return outs
        if isinstance(st,(ast.FunctionDef,ast.ClassDef)): return ins
        n=self.new('stmt',stmt=st); self.link(ins,n); return [(None,n)]

def const_eval(expr, env):
    """3-valued evaluation of a test under env: dict name/text -> value.  Returns True/False/None(unknown)."""
    txt=ast.unparse(expr)
    if txt in env: return env[txt]
    if isinstance(expr,ast.Constant): return bool(expr.value)
    if isinstance(expr,ast.Name): return env.get(expr.id)
    if isinstance(expr,ast.UnaryOp) and isinstance(expr.op,ast.Not):
        v=const_eval(expr.operand,env); return None if v is None else (not v)
    if isinstance(expr,ast.BoolOp):
        vals=[const_eval(v,env) for v in expr.values]
        if isinstance(expr.op,ast.And):
            if any(v is False for v in vals): return False
            if all(v is True for v in vals): return True
            return None
        if any(v is True for v in vals): return True
        if all(v is False for v in vals): return False
        return None
    return None

def paths(cfg, start, stop_pred, env0, assign_hook, max_visits=2, limit=20000):
    """enumerate paths from start until stop_pred(node) true or exit; env propagated; returns list of (path, env)"""
    out=[]; stack=[(start,[start],dict(env0),{})]
    while stack:
        node,path,env,visits=stack.pop()
        if len(out)>limit: raise RuntimeError('path explosion')
        if node is not start and stop_pred(node): out.append((path,env)); continue
        if node.kind in('exit','raise') : out.append((path,env)); continue
        env=dict(env)
        if node.kind=='stmt': assign_hook(node.stmt,env)
        succ=node.succ
        if node.kind in('test','loop') and node.test is not None:
            v=const_eval(node.test,env)
            if v is not None: succ=[(l,n) for l,n in succ if l is v or l not in (True,False)]
        for lab,n in succ:
            c=visits.get(n.id,0)
            if c>=max_visits: continue
            v2=dict(visits); v2[n.id]=c+1
            e2=env
            if node.kind=='test' and lab in (True,False):
                e2=dict(env); e2[ast.unparse(node.test)]=lab
                # learn simple facts: name / not name
                t=node.test
                if isinstance(t,ast.Name): e2[t.id]=lab
                if isinstance(t,ast.UnaryOp) and isinstance(t.op,ast.Not) and isinstance(t.operand,ast.Name): e2[t.operand.id]=not lab
            stack.append((n,path+[n],e2,v2))
    return out

"""Prototype: provenance (root,path) tracking, flow-insensitive, for E4 (writes through an argument) and E5 (POINT ctor args fresh)."""
import ast, sys, itertools
MUT={'append','extend','insert','pop','remove','clear','update','sort','reverse','insert_settings','setdefault','popitem'}
FRESH_CALLS={'list','dict','sorted','tuple','set','reversed','AnsiString','_AnsiSettingPoint','AnsiSetting','str','len','int','range','enumerate','min','max','bool','isinstance','type','id'}
class Ctx:
    def __init__(self,fn):
        self.fn=fn; self.env={}; self.elems={}; self.counter=itertools.count(); self.writes=[]; self.ctor=[]
        args=fn.args
        for i,a in enumerate(args.args):
            self.env[a.arg]={('Self' if i==0 and a.arg=='self' else 'Arg:'+a.arg, ())}
        if args.vararg: self.env[args.vararg.arg]={('Arg:'+args.vararg.arg,())}
    def fresh(self,node,elems=()):
        r=('Fresh:%d'%node.lineno,()); 
        self.elems.setdefault(r,set()).update(elems); return {r}
    def elem_of(self,refs):
        out=set()
        for r in refs:
            if r in self.elems and self.elems[r]: out|=self.elems[r]
            elif not r[0].startswith('Fresh'): out.add((r[0],r[1]+('[*]',)))
        return out
    def ev(self,e):
        if isinstance(e,ast.Name): return set(self.env.get(e.id,set()))
        if isinstance(e,ast.Attribute):
            base=self.ev(e.value); return {(r[0],r[1]+(e.attr,)) for r in base}
        if isinstance(e,ast.Subscript):
            base=self.ev(e.value)
            if isinstance(e.slice,ast.Slice): return self.fresh(e,self.elem_of(base))
            return self.elem_of(base)
        if isinstance(e,ast.Call):
            f=e.func
            if isinstance(f,ast.Name) and f.id=='_AnsiSettingsIterator':
                r=self.fresh(e); rr=next(iter(r)); tbl=self.ev(e.args[0])
                self.elems[rr]={('TUPLE',(('k',),tuple(sorted(self.elem_of(tbl))),(('IterList:%d'%e.lineno,()),)))}
                return r
            if isinstance(f,ast.Name) and f.id in FRESH_CALLS:
                el=set()
                for a in e.args: el|=self.elem_of(self.ev(a)) if f.id in('list','sorted','tuple','reversed','set','dict') else set()
                return self.fresh(e,el)
            if isinstance(f,ast.Attribute):
                recv=self.ev(f.value)
                if f.attr in('items',):   # container of (key, elem)
                    r=self.fresh(e); rr=next(iter(r)); self.elems[rr]={('TUPLE',(('k',),tuple(sorted(self.elem_of(recv)))))} ; return r
                if f.attr in('values',): return self.fresh(e,self.elem_of(recv))
                if f.attr in('keys',): return self.fresh(e)
                if f.attr=='copy': return self.fresh(e,self.elem_of(recv))
                if f.attr=='pop': return self.elem_of(recv)
                if f.attr in ('ansi_settings_at',): return self.fresh(e,{('Markers',())})
            return self.fresh(e)
        if isinstance(e,(ast.List,ast.Tuple,ast.Set)):
            el=set()
            for x in e.elts: el|=self.ev(x)
            return self.fresh(e,el)
        if isinstance(e,(ast.ListComp,ast.GeneratorExp,ast.DictComp)):
            for g in e.generators: self.bind(g.target,self.elem_of(self.ev(g.iter)))
            el=self.ev(e.elt) if not isinstance(e,ast.DictComp) else self.ev(e.value)
            return self.fresh(e,el)
        if isinstance(e,ast.BoolOp):
            out=set()
            for v in e.values: out|=self.ev(v)
            return out
        if isinstance(e,ast.IfExp): return self.ev(e.body)|self.ev(e.orelse)
        if isinstance(e,ast.BinOp): return self.fresh(e, self.elem_of(self.ev(e.left))|self.elem_of(self.ev(e.right)))
        return set()
    def bind(self,target,refs):
        if isinstance(target,ast.Name): self.env[target.id]=set(self.env.get(target.id,set()))|refs
        elif isinstance(target,(ast.Tuple,ast.List)):
            for i,t in enumerate(target.elts):
                sub=set()
                for r in refs:
                    if r[0]=='TUPLE':
                        comp=r[1][i] if i<len(r[1]) else ()
                        if comp==('k',): continue
                        sub|=set(comp)
                    else: sub.add(r)
                self.bind(t,sub)
    def write(self,target_expr,node,what):
        refs=self.ev(target_expr)
        for r in refs: self.writes.append((r,node.lineno,what))
    def visit(self,st):
        for node in ast.walk(st):
            if isinstance(node,ast.Call) and isinstance(node.func,ast.Name) and node.func.id=='_AnsiSettingPoint':
                for a in list(node.args)+[k.value for k in node.keywords]:
                    self.ctor.append((node.lineno,ast.unparse(a),self.ev(a)))
            if isinstance(node,ast.Call) and isinstance(node.func,ast.Attribute) and node.func.attr in MUT:
                self.write(node.func.value,node,'call .'+node.func.attr)
        if isinstance(st,ast.Assign):
            v=self.ev(st.value)
            for t in st.targets:
                if isinstance(t,ast.Name): self.env[t.id]=set(self.env.get(t.id,set()))|v
                elif isinstance(t,ast.Attribute): self.write(t.value,st,'set .'+t.attr)
                elif isinstance(t,ast.Subscript): self.write(t.value,st,'setitem')
                else: self.bind(t,v)
        elif isinstance(st,ast.AugAssign):
            if isinstance(st.target,ast.Name): pass
            elif isinstance(st.target,ast.Attribute): self.write(st.target,st,'augassign .'+st.target.attr)
            elif isinstance(st.target,ast.Subscript): self.write(st.target.value,st,'aug setitem')
        elif isinstance(st,ast.Delete):
            for t in st.targets:
                if isinstance(t,ast.Subscript): self.write(t.value,st,'delitem')
        elif isinstance(st,ast.For):
            self.bind(st.target,self.elem_of(self.ev(st.iter)))
        for fld in ('body','orelse','finalbody'):
            for sub in getattr(st,fld,[]) or []:
                if isinstance(sub,ast.stmt): self.visit(sub)
        for h in getattr(st,'handlers',[]) or []:
            for sub in h.body: self.visit(sub)
def analyse(path,cls,name):
    t=ast.parse(open(path).read())
    fn=[f for c in t.body if isinstance(c,ast.ClassDef) and c.name==cls for f in c.body if isinstance(f,ast.FunctionDef) and f.name==name][0]
    c=Ctx(fn)
    for _ in range(2):
        c.writes=[]; c.ctor=[]
        for st in fn.body: c.visit(st)
    return c
for path in sys.argv[1:]:
    print('==',path)
    c=analyse(path,'AnsiString','__iadd__')
    bad=sorted({(l,w,r[0],'.'.join(map(str,r[1]))) for r,l,w in c.writes if r[0].startswith('Arg:')})
    print(' __iadd__ writes through args:',bad)
    c=analyse(path,'AnsiString','__getitem__')
    badc=[(l,a,sorted(x[0] for x in refs)) for l,a,refs in c.ctor if any(not x[0].startswith('Fresh') for x in refs)]
    print(' __getitem__ non-fresh POINT ctor args:',badc)
    c=analyse(path,'AnsiString','join')
    print(' join writes through args:',sorted({(l,w,r[0]) for r,l,w in c.writes if r[0].startswith('Arg:')}))

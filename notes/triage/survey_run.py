import json, os, shutil, subprocess, sys, multiprocessing as mp, time
MUTS='/tmp/mutsurvey/muts'; WORK='/tmp/mutsurvey/work'
meta=json.load(open(f'{MUTS}/meta.json'))
def init():
    global wd
    wd=f'{WORK}/w{os.getpid()}'
    os.makedirs(wd,exist_ok=True)
    shutil.copytree('/repo/src/ansi_string',f'{wd}/src/ansi_string',dirs_exist_ok=True)
    shutil.copytree('/repo/tests',f'{wd}/tests',dirs_exist_ok=True)
    shutil.copy('/repo/pyproject.toml',wd)
def run(m):
    dst=f"{wd}/src/ansi_string/{m['file']}"
    shutil.copy(f"{MUTS}/m{m['id']:05d}.py",dst)
    for root,d,f in os.walk(wd):
        if '__pycache__' in d: shutil.rmtree(os.path.join(root,'__pycache__'))
    try:
        p=subprocess.run(['/venv/bin/python','-m','pytest','-x','-q','-p','no:cacheprovider','--timeout=20','tests'],cwd=wd,capture_output=True,text=True,timeout=120,env={**os.environ,'PYTHONDONTWRITEBYTECODE':'1'})
        res='survived' if p.returncode==0 else 'killed'
    except subprocess.TimeoutExpired:
        res='timeout'
    shutil.copy(f"/repo/src/ansi_string/{m['file']}",dst)
    return dict(m,res=res)
if __name__=='__main__':
    t=time.time()
    with mp.Pool(16,initializer=init) as pool:
        out=pool.map(run,meta,chunksize=4)
    json.dump(out,open('/tmp/mutsurvey/results.json','w'))
    import collections
    print(collections.Counter(o['res'] for o in out), time.time()-t)
    shutil.rmtree(WORK)

import sys, random, re, collections, itertools
root=sys.argv[1]; sys.path.insert(0, root)
from ansi_string import *
AnsiString.WITH_ASSERTIONS=True
GROUP={}
def g(name,codes,off):
    for c in codes: GROUP[c]=(name,'set')
    if off is not None: GROUP[off]=(name,'off')
g('int',[1,2],22); g('ital',[3],23); g('ul',[4,21],24); g('blink',[5,6],25); g('inv',[7],27); g('hide',[8],28); g('strike',[9],29)
g('font',list(range(11,21)),10); g('space',[26],50); g('fg',list(range(30,38))+list(range(90,98)),39); g('bg',list(range(40,48))+list(range(100,108)),49)
g('frame',[51,52],54); g('over',[53],55); GROUP[59]=('ulc','off')
def feed(state, params):
    p=[int(x) if x.strip().isdigit() else 0 for x in params.split(';')] if params!='' else [0]
    i=0
    while i<len(p):
        c=p[i]
        if c==0: state.clear()
        elif c in (38,48,58):
            name={38:'fg',48:'bg',58:'ulc'}[c]
            if i+1<len(p) and p[i+1]==5 and i+2<len(p): state[name]=('256',p[i+2]); i+=2
            elif i+1<len(p) and p[i+1]==2 and i+4<len(p): state[name]=('rgb',p[i+2],p[i+3],p[i+4]); i+=4
            else: break
        elif c in GROUP:
            n,k=GROUP[c]
            if k=='off': state.pop(n,None)
            else: state[n]=c
        i+=1
def interpret(out, init=None):
    state=dict(init or {}); chars=[]; pos=0
    for m in re.finditer(r'\x1b\[([0-9;]*)m', out):
        for ch in out[pos:m.start()]: chars.append((ch,dict(state)))
        feed(state,m.group(1)); pos=m.end()
    for ch in out[pos:]: chars.append((ch,dict(state)))
    return chars,state
def expected(s):
    res=[]
    for i in range(len(s)):
        st={}
        for x in s.ansi_settings_at(i): feed(st,str(x))
        res.append((s.base_str[i],st))
    return res
SET=['red','blue','bold','no_bold_faint','faint','italic','bg_green','fg_default','underline','no_underline','rgb(1,2,3)','bg_color256(7)','ul_rgb(9,9,9)','double_underline','default_font','alt_font_2','overlined','framed','no_framed_encircled','1;38;5;9']
fails=collections.Counter(); ex={}
def rec(k,h): fails[k]+=1; ex.setdefault(k,list(h))
random.seed(int(sys.argv[2]))
for trial in range(int(sys.argv[3])):
    L=random.randint(0,6); s=AnsiString('abcdef'[:L]); hist=[f'len {L}']
    try:
        for step in range(random.randint(0,5)):
            a=random.randint(-L-1,L+1); b=random.choice([None]+list(range(-L-1,L+2)))
            r=random.random()
            if r<0.7:
                st=random.choice(SET); top=random.random()<0.6; hist.append(f'apply({st},{a},{b},{top})'); s.apply_formatting(st,a,b,top)
            elif r<0.85:
                st=random.choice(SET+[None]); hist.append(f'remove({st},{a},{b})'); s.remove_formatting(st,a,b)
            else:
                hist.append(f'+=x'); s+=AnsiString('x',random.choice(SET)); L+=1
        exp=expected(s)
        dirty={'fg':31,'int':1,'ul':4,'bg':('256',3)}
        for opt,rs,re_ in itertools.product([True,False],repeat=3):
            out=s.to_str(optimize=opt,reset_start=rs,reset_end=re_)
            got,final=interpret(out)
            if got!=exp: rec(f'C01 display opt={opt} rs={rs} re={re_}',hist+[out]); 
            if rs:
                got2,_=interpret(out,dirty)
                if got2!=exp: rec(f'C01 reset_start dirty opt={opt}',hist+[out])
                if not out.startswith('\x1b['): rec('C01 reset_start not at begin',hist+[out])
            if re_ and final and '\x1b[' in out: rec(f'C01 reset_end state left opt={opt} rs={rs}',hist+[out])
            if re.sub(r'\x1b\[[0-9;]*m','',out)!=s.base_str: rec('C15 strip',hist+[out])
        # C02/C03 roundtrip
        t=AnsiString(str(s))
        if expected(t)!=exp: rec('C03 roundtrip',hist+[str(s)])
        u=s.copy(); u.simplify()
        if expected(u)!=exp: rec('C03 simplify display',hist+[str(s),str(u)])
        if not u.is_formatting_parsable(): rec('C03 simplify parsable',hist)
        v=u.copy(); v.simplify()
        if str(v)!=str(u): rec('C03 simplify idempotent',hist+[str(u),str(v)])
        if str(AnsiString(str(u)))!=str(u): rec('C03 fixpoint',hist+[str(u)])
    except Exception as e:
        rec('EXC '+type(e).__name__+' '+str(e)[:60],hist)
print(root, sys.argv[2])
for k,v in fails.most_common(): print(f'{v:6d} {k}\n         e.g. {ex[k]}')

"""Development-only differential oracle (NOT a check, NOT static analysis).

Used in the design phase to label mutants of the library as property-breaking or not, so that the static
rules can be graded both ways (DESIGN.md section 6).  Usage: oracle.py <src-dir> [seed] [scale]
Prints one JSON object {kind: count, ...} with kinds prefixed by the property id; exit 1 if non-empty.
"""
import sys, random, re, collections, itertools, json, signal, traceback
root = sys.argv[1]; sys.path.insert(0, root)
SEED = int(sys.argv[2]) if len(sys.argv) > 2 else 1
SCALE = float(sys.argv[3]) if len(sys.argv) > 3 else 1.0
fails = collections.Counter(); examples = {}
def rec(kind, info=None):
    fails[kind] += 1
    examples.setdefault(kind, repr(info)[:300])
def finish():
    print(json.dumps({'fails': dict(fails), 'examples': examples}))
    sys.exit(1 if fails else 0)
class Timeout(Exception): pass
def _alarm(*a): raise Timeout()
signal.signal(signal.SIGALRM, _alarm)
try:
    import ansi_string as lib
    from ansi_string import *
    from ansi_string.ansi_string import _AnsiSettingPoint
    from ansi_string.ansi_parsing import ParsedAnsiControlSequenceString, parse_graphic_sequence, settings_to_dict
except Exception as e:
    rec('IMPORT ' + type(e).__name__ + ' ' + str(e)[:80]); finish()
AnsiString.WITH_ASSERTIONS = True
R = random.Random(SEED)

# ---------------------------------------------------------------- independent SGR model
GROUP = {}
def _g(name, codes, off):
    for c in codes: GROUP[c] = (name, 'set')
    if off is not None: GROUP[off] = (name, 'off')
_g('int', [1, 2], 22); _g('ital', [3], 23); _g('ul', [4, 21], 24); _g('blink', [5, 6], 25); _g('inv', [7], 27)
_g('hide', [8], 28); _g('strike', [9], 29); _g('font', list(range(11, 21)), 10); _g('space', [26], 50)
_g('fg', list(range(30, 38)) + list(range(90, 98)), 39); _g('bg', list(range(40, 48)) + list(range(100, 108)), 49)
_g('frame', [51, 52], 54); _g('over', [53], 55); GROUP[59] = ('ulc', 'off')
def feed_codes(state, p):
    i = 0
    while i < len(p):
        c = p[i]
        if c == 0: state.clear()
        elif c in (38, 48, 58):
            name = {38: 'fg', 48: 'bg', 58: 'ulc'}[c]
            if i + 2 < len(p) and p[i + 1] == 5: state[name] = ('256', p[i + 2]); i += 2
            elif i + 4 < len(p) and p[i + 1] == 2: state[name] = ('rgb', p[i + 2], p[i + 3], p[i + 4]); i += 4
            else: return 'incomplete'
        elif c in GROUP:
            n, k = GROUP[c]
            if k == 'off': state.pop(n, None)
            else: state[n] = c
        i += 1
def feed(state, params):
    p = [int(x) if x.strip().isdigit() else 0 for x in params.split(';')] if params != '' else [0]
    feed_codes(state, p)
def interpret(out, init=None):
    state = dict(init or {}); chars = []; pos = 0
    for m in re.finditer(r'\x1b\[([0-9;]*)m', out):
        for ch in out[pos:m.start()]: chars.append((ch, dict(state)))
        feed(state, m.group(1)); pos = m.end()
    for ch in out[pos:]: chars.append((ch, dict(state)))
    return chars, state
def lists(s): return [[str(x) for x in s.ansi_settings_at(i)] for i in range(len(s))]
def disp_of(codes):
    st = {}
    for c in codes: feed(st, c)
    return st
def expected(s): return [(s.base_str[i], disp_of([str(x) for x in s.ansi_settings_at(i)])) for i in range(len(s))]
def snap(s): return (s.base_str, lists(s), str(s))
def norm(i, L, d):
    if i is None: return d
    if i < 0: return max(0, L + i)
    return min(i, L)
SET = ['red', 'blue', 'bold', 'no_bold_faint', 'faint', 'italic', 'bg_green', 'fg_default', 'underline', 'no_underline',
       'rgb(1,2,3)', 'bg_color256(7)', 'ul_rgb(9,9,9)', 'double_underline', 'overlined', 'framed', '1;38;5;9']
def scrub(st): return [str(x) for x in _AnsiSettingPoint._scrub_ansi_settings(st)]
def rnd_value(maxlen=7, alphabet='ab -\t'):
    text = ''.join(R.choice(alphabet) for _ in range(R.randint(0, maxlen)))
    s = AnsiString(text); L = len(s)
    for _ in range(R.randint(0, 4)):
        a, b = R.randint(-L - 1, L + 1), R.choice([None] + list(range(-L - 1, L + 2)))
        if R.random() < 0.85: s.apply_formatting(R.choice(SET), a, b, R.random() < 0.6)
        else: s.remove_formatting(R.choice(SET + [None]), a, b)
    return s
def check_inv(s, tag):
    L = len(s)
    for k in s._fmts:
        if k < 0 or k > L: rec('C09 key-range after ' + tag, sorted(s._fmts)); break
    list(iter(s)); str(s); s.to_str(optimize=False)

def guarded(name, fn, n):
    for i in range(max(1, int(n * SCALE))):
        signal.alarm(10)
        try: fn()
        except Timeout: rec('C09 TIMEOUT in ' + name); break
        except Exception as e:
            rec('C09 EXC in %s: %s %s' % (name, type(e).__name__, str(e)[:50]), traceback.format_exc()[-300:])
        finally: signal.alarm(0)

# ---------------------------------------------------------------- A: operation histories
def hist_ops():
    s = rnd_value(); h = []
    for step in range(R.randint(1, 4)):
        L = len(s); before = lists(s); btxt = s.base_str; bsnap = snap(s)
        op = R.choice(['slice', 'idx', 'cat', 'selfcat', 'center', 'ljust', 'rjust', 'replace', 'split', 'simplify', 'strip', 'apply', 'remove', 'assign'])
        h.append(op)
        if op == 'slice':
            a, b = R.choice([None] + list(range(-L - 2, L + 3))), R.choice([None] + list(range(-L - 2, L + 3)))
            t = s[a:b]
            if t.base_str != btxt[a:b]: rec('C04 slice-text', (btxt, a, b))
            if lists(t) != before[slice(a, b)]: rec('C04 slice-codes', (before, a, b, lists(t)))
            if lists(t + 'zz')[len(t):] != [[], []]: rec('C04 slice-bleed', (before, a, b))
            if snap(s) != bsnap: rec('C08 slice-mutates-src')
            if lists(s.clip(a, b)) != lists(t) or s.clip(a, b).base_str != t.base_str: rec('C04 clip!=slice')
            t.apply_formatting('hide');
            if snap(s) != bsnap: rec('C08 slice-aliased', (bsnap,))
            s = s[a:b]
        elif op == 'idx' and L:
            i = R.randint(-L, L - 1); t = s[i]
            if t.base_str != btxt[i] or lists(t) != [before[i]]: rec('C04 int-index', (before, i, lists(t)))
            if [x.base_str for x in s] != list(btxt) or [lists(x)[0] for x in s] != before: rec('C04 iteration')
        elif op == 'cat':
            o = R.choice([rnd_value(3), AnsiString(R.choice(['x', 'xy', '']), *R.sample(SET, R.randint(0, 2))), 'pq', AnsiStr('r', 'red')])
            ob = [] if isinstance(o, str) and not isinstance(o, AnsiStr) else lists(o)
            if isinstance(o, str) and not isinstance(o, AnsiStr): ob = [[] for _ in o]
            osnap = snap(o) if not isinstance(o, str) or isinstance(o, AnsiStr) else o
            t = s + o
            if lists(t) != before + ob: rec('C05 add-codes', (before, ob, lists(t)))
            if snap(s) != bsnap: rec('C08 add-mutates-receiver')
            j = AnsiString.join(s, o)
            if lists(j) != lists(t): rec('C05 join!=add')
            s += o
            if lists(s) != before + ob: rec('C05 iadd-codes', (before, ob, lists(s)))
            if (snap(o) if not isinstance(o, str) or isinstance(o, AnsiStr) else o) != osnap: rec('C08 cat-mutates-arg', osnap)
            k = R.randint(0, len(s))
            u = s[:k] + s[k:]
            if lists(u) != lists(s) or interpret(str(u))[0] != interpret(str(s))[0]: rec('C05 split-rejoin', (lists(s), k, lists(u)))
        elif op == 'selfcat':
            s += s
            if lists(s) != before + before: rec('C05 selfcat', (before, lists(s)))
        elif op in ('center', 'ljust', 'rjust'):
            w = R.randint(0, L + 5); ext = R.random() < 0.6
            t = getattr(s, op)(w, '*', False, ext)
            ref = format(btxt, '*' + {'center': '^', 'ljust': '<', 'rjust': '>'}[op] + str(w))
            if t.base_str != ref: rec('C12 pad-text', (btxt, op, w, t.base_str))
            if btxt:
                lp = (len(ref) - L) // 2 if op == 'center' else (0 if op == 'ljust' else len(ref) - L)
                want = [(before[0] if ext else [])] * lp + before + [(before[-1] if ext else [])] * (len(ref) - L - lp)
                if lists(t) != want: rec('C12 pad-codes', (before, op, w, ext, lists(t)))
                if lists(t + 'q')[-1] != []: rec('C12 pad-bleed', (before, op, w, ext))
            if snap(s) != bsnap: rec('C08 pad-mutates-receiver')
            s2 = s.copy(); r2 = getattr(s2, op)(w, '*', True, ext)
            if r2 is not s2 or snap(s2) != snap(t): rec('C08 pad-inplace-differs')
            if op == 'rjust' and lists(s.zfill(w)) != lists(s.rjust(w, '0')): rec('C12 zfill')
            s = t
        elif op == 'replace':
            old = R.choice(['a', 'ab', '-', ' ', '', 'b']); new = R.choice(['Z', '', 'ab', AnsiString('Q', 'red'), AnsiStr('W', 'bold')]); cnt = R.choice([-1, -1, 0, 1, 2])
            nsnap = None if type(new) is str else snap(new)
            t = s.replace(old, new, cnt)
            ntxt = new if type(new) is str else new.base_str
            if t.base_str != btxt.replace(old, ntxt, cnt): rec('C10 replace-text', (btxt, old, ntxt, cnt, t.base_str))
            elif old:
                # styles: walk matches
                want = []; i = 0; c = cnt;
                while i < len(btxt):
                    if c != 0 and btxt.startswith(old, i):
                        want += ([before[i]] * len(ntxt)) if type(new) is str else lists(new)
                        i += len(old); c -= 1 if c > 0 else 0
                    else:
                        want.append(before[i]); i += 1
                if lists(t) != want: rec('C11 replace-codes', (before, old, ntxt, lists(t)))
            if nsnap is not None and snap(new) != nsnap: rec('C08 replace-mutates-arg')
            if snap(s) != bsnap: rec('C08 replace-mutates-receiver')
            if t is s: rec('C08 replace-returns-self')
            s = t
        elif op == 'split':
            sep = R.choice(['a', 'ab', '-', ' ', None, 'b']); ms = R.choice([-1, -1, 1, 2]); rr = R.random() < 0.4
            parts = (s.rsplit if rr else s.split)(sep, ms); ref = (btxt.rsplit if rr else btxt.split)(sep, ms)
            if [p.base_str for p in parts] != ref: rec('C10 split-text', (btxt, sep, ms, rr))
            else:
                # true offsets
                if sep is not None and not rr or (sep is not None and ms < 0):
                    pos = 0; ok = True
                    if rr and ms >= 0: pass
                    else:
                        for p, txt in zip(parts, ref):
                            if lists(p) != before[pos:pos + len(txt)]: ok = False
                            pos += len(txt) + len(sep)
                        if not ok: rec('C11 split-codes', (before, sep))
            pa = s.partition(sep or ' '); rp = btxt.partition(sep or ' ')
            if tuple(x.base_str for x in pa) != rp: rec('C10 partition-text')
            elif lists(pa[0]) + lists(pa[1]) + lists(pa[2]) != before: rec('C11 partition-codes')
            lines = s.splitlines(True)
            if [x.base_str for x in lines] != btxt.splitlines(True): rec('C10 splitlines-text')
        elif op == 'simplify':
            d0 = expected(s); s.simplify()
            if expected(s) != d0: rec('C03 simplify-display', before)
            if not s.is_formatting_parsable(): rec('C03 simplify-parsable')
            v = s.copy(); v.simplify()
            if str(v) != str(s): rec('C03 simplify-idempotent')
            if str(AnsiString(str(s))) != str(s): rec('C03 fixpoint')
        elif op == 'strip':
            ch = R.choice([None, ' -', 'a', '']); which = R.choice(['strip', 'lstrip', 'rstrip'])
            t = getattr(s, which)(ch); ref = getattr(btxt, which)(ch if ch is not None else ' \t\n\r\v\f')
            if t.base_str != ref: rec('C10 strip-text', (btxt, which, ch))
            elif ref:
                off = btxt.find(ref) if which != 'rstrip' else 0
                if which == 'strip' or which == 'lstrip': off = len(btxt) - len(btxt.lstrip(ch if ch is not None else ' \t\n\r\v\f'))
                if lists(t) != before[off:off + len(ref)]: rec('C11 strip-codes')
            for fn, arg in (('removeprefix', R.choice(['a', 'ab', '', ' '])), ('removesuffix', R.choice(['a', 'b', '', ' ']))):
                if hasattr(str, fn):
                    t2 = getattr(s, fn)(arg); r2 = getattr(btxt, fn)(arg)
                    if t2.base_str != r2: rec('C10 %s-text' % fn, (btxt, arg, t2.base_str))
                    else:
                        off = len(arg) if fn == 'removeprefix' and btxt.startswith(arg) else 0
                        if lists(t2) != before[off:off + len(r2)]: rec('C11 %s-codes' % fn)
            if snap(s) != bsnap: rec('C08 strip-mutates-receiver')
            s = t
        elif op == 'apply':
            a, b = R.randint(-L - 1, L + 2), R.choice([None] + list(range(-L - 1, L + 3))); st = R.choice(SET); top = R.random() < 0.5
            s.apply_formatting(st, a, b, top); na, nb = norm(a, L, 0), norm(b, L, L); new = scrub(st); after = lists(s)
            if s.base_str != btxt: rec('C06 apply-text')
            for i in range(L):
                if na <= i < nb:
                    if collections.Counter(after[i]) != collections.Counter(before[i] + new): rec('C06 apply-inside-multiset', (before, st, a, b, top, after)); break
                    rest = list(after[i])
                    for c in new: rest.remove(c)
                    if not top:
                        touched = set()
                        for c in before[i]:
                            t0 = {}; feed(t0, c); touched |= set(t0);
                            p = [int(x) for x in c.split(';')]
                            if p[0] in GROUP: touched.add(GROUP[p[0]][0])
                        d0, d1 = disp_of(before[i]), disp_of(after[i])
                        if any(d0.get(e) != d1.get(e) for e in touched): rec('C06 apply-bottom-changes-display', (before, st, a, b, after)); break
                    elif i == na:
                        dn = disp_of(new); d1 = disp_of(after[i])
                        if any(d1.get(e) != v for e, v in dn.items()): rec('C06 apply-top-not-shown', (before, st, a, b, after)); break
                elif after[i] != before[i]: rec('C06 apply-outside-changed', (before, st, a, b, top, after)); break
        elif op == 'remove':
            a, b = R.randint(-L - 1, L + 2), R.choice([None] + list(range(-L - 1, L + 3))); st = R.choice(SET + [None])
            s.remove_formatting(st, a, b); na, nb = norm(a, L, 0), norm(b, L, L); exp = None if st is None else scrub(st); after = lists(s)
            if s.base_str != btxt: rec('C07 remove-text')
            for i in range(L):
                if na <= i < nb:
                    want = [c for c in before[i] if not (exp is None or c in exp)]
                    if after[i] != want: rec('C07 remove-inside', (before, st, a, b, after)); break
                else:
                    if collections.Counter(after[i]) != collections.Counter(before[i]): rec('C07 remove-outside-multiset', (before, st, a, b, after)); break
                    if disp_of(after[i]) != disp_of(before[i]): rec('C07 remove-outside-display', (before, st, a, b, after)); break
        elif op == 'assign':
            nt = R.choice(['', 'xy', btxt + 'zz', btxt[:-1] if btxt else 'q', btxt.upper()])
            s.assign_str(nt); after = lists(s)
            if s.base_str != nt: rec('C11 assign-text')
            want = before[:len(nt)] + [before[-1] if before else []] * max(0, len(nt) - L)
            if L and after != want: rec('C11 assign-codes', (before, nt, after))
            if lists(s + 'q')[-1:] != [[]] and len(nt) <= L: rec('C11 assign-bleed')
        check_inv(s, op)

# ---------------------------------------------------------------- C: rendering / parsing
def render():
    s = rnd_value(6, 'abc'); exp = expected(s)
    dirty = {'fg': 31, 'int': 1, 'ul': 4, 'bg': ('256', 3)}
    for opt, rs, re_ in itertools.product([True, False], repeat=3):
        out = s.to_str(optimize=opt, reset_start=rs, reset_end=re_)
        got, final = interpret(out)
        if got != exp: rec('C01 display opt=%s rs=%s re=%s' % (opt, rs, re_), (lists(s), out))
        if rs:
            if interpret(out, dirty)[0] != exp: rec('C01 reset_start-dirty', (lists(s), out))
            if not out.startswith('\x1b['): rec('C01 reset_start-not-first', out)
        if re_ and final and '\x1b[' in out: rec('C01 reset_end-state-left', out)
        if re.sub(r'\x1b\[[0-9;]*m', '', out) != s.base_str: rec('C15 strip-sequences', out)
    if str(s) != s.to_str() or format(s) != str(s) or format(s, '') != str(s): rec('C01 str!=to_str')
    t = AnsiString(str(s))
    if expected(t) != exp: rec('C03 roundtrip', (lists(s), str(s)))
def parse_in():
    toks = []
    for _ in range(R.randint(0, 6)):
        r = R.random()
        if r < 0.45: toks.append(R.choice('abc'))
        elif r < 0.9:
            codes = []
            for _ in range(R.randint(0, 4)):
                codes.append(R.choice(['0', '1', '2', '22', '3', '4', '24', '31', '39', '44', '38;5;%d' % R.randint(0, 255), '48;2;1;2;3', '58;5;9', '59', '53', '55', '77', '21', '91']))
            toks.append('\x1b[' + ';'.join(codes) + 'm')
        else: toks.append(R.choice(['\x1b[2J', '\x1b[1;1H', '\x1b[', '\x1b[31', '\x1b']))
    text = ''.join(toks)
    s = AnsiString(text)
    # independent: strip SGR sequences (complete ones only)
    want = []; state = {}; pos = 0; plain = ''
    for m in re.finditer(r'\x1b\[([\x00-\x3f\x7f-\U0010ffff]*?)m', text):
        pass
    i = 0
    while i < len(text):
        m = re.compile(r'\x1b\[([^\x40-\x7e]*)([\x40-\x7e])').match(text, i)
        if m and m.group(2) == 'm':
            params = m.group(1)
            if re.fullmatch(r'[0-9;]*', params): feed(state, params)
            i = m.end()
        elif m:
            for ch in m.group(0): want.append((ch, dict(state)))
            i = m.end()
        else:
            want.append((text[i], dict(state))); i += 1
    if s.base_str != ''.join(c for c, _ in want): rec('C02 base_str', (text, s.base_str))
    elif expected(s) != want: rec('C02 display', (text, lists(s)))
    if '\x1b' not in text:
        if s.base_str != text or any(lists(s)): rec('C02 plain-text')

# ---------------------------------------------------------------- C13 / C08 AnsiStr twin
METHODS = [('capitalize', ()), ('casefold', ()), ('lower', ()), ('upper', ()), ('swapcase', ()), ('title', ()),
           ('center', (9, '*')), ('ljust', (9, '*')), ('rjust', (9,)), ('zfill', (9,)), ('strip', ()), ('lstrip', (' a',)), ('rstrip', (None,)),
           ('clip', (1, -1)), ('removeprefix', ('a',)), ('removesuffix', ('b',)), ('replace', ('a', 'XY')), ('replace', ('b', 'Q', 1)), ('expandtabs', (3,)),
           ('simplify', ()), ('apply_formatting', ('red', 1, 3)), ('apply_formatting', ('bold', 0, None, False)), ('remove_formatting', ('red', 1)),
           ('remove_formatting', ()), ('format_matching', ('a', 'blue')), ('unformat_matching', ('b',)), ('clear_formatting', ())]
QUERIES = [('count', ('a',)), ('find', ('b',)), ('rfind', ('b', 1)), ('endswith', ('b',)), ('isalnum', ()), ('isalpha', ()), ('isascii', ()), ('isdecimal', ()), ('isdigit', ()),
           ('isidentifier', ()), ('islower', ()), ('isnumeric', ()), ('isprintable', ()), ('isspace', ()), ('istitle', ()), ('isupper', ()), ('__len__', ()), ('__contains__', ('ab',)),
           ('settings_at', (1,)), ('is_formatting_valid', ()), ('is_formatting_parsable', ()), ('is_optimizable', ()), ('to_str', ('>9:bold',)), ('to_str', (None, False, True, False)),
           ('encode', ()), ('find_settings', ('red',)), ('__format__', ('*^11',))]
def twin():
    s = rnd_value(6, 'abAB \t'); a = AnsiStr(s); ssnap = snap(s)
    if str.__str__(a) != a.to_str() or str(a) != str(s) or a.base_str != s.base_str or lists(a) != lists(s): rec('C13 ctor-from-AnsiString')
    if '%s' % a != str(s): rec('C13 payload')
    for name, args in METHODS:
        inplace_able = name not in ('simplify', 'apply_formatting', 'remove_formatting', 'format_matching', 'unformat_matching', 'clear_formatting')
        try:
            if inplace_able: r1 = getattr(s, name)(*args)
            else:
                r1 = s.copy(); getattr(r1, name)(*args)
        except Exception as e: rec('C09 EXC AnsiString.%s %s' % (name, type(e).__name__)); continue
        if snap(s) != ssnap: rec('C08 receiver-mutated by ' + name); s = AnsiString(a)
        try: r2 = getattr(a, name)(*args)
        except Exception as e: rec('C13 EXC AnsiStr.%s %s' % (name, type(e).__name__)); continue
        if not isinstance(r2, AnsiStr): rec('C13 result-type ' + name); continue
        if (r2.base_str, lists(r2), str(r2), r2.to_str(optimize=False)) != (r1.base_str, lists(r1), str(r1), r1.to_str(optimize=False)): rec('C13 twin-differs ' + name, (snap(r1), snap(r2)))
        if str.__str__(r2) != r2.to_str(): rec('C13 payload-after ' + name)
        if (a.base_str, lists(a), str.__str__(a)) != (ssnap[0], ssnap[1], ssnap[2]): rec('C08 AnsiStr-mutated by ' + name); a = AnsiStr(s)
        if inplace_able:
            c = s.copy(); r3 = getattr(c, name)(*args, inplace=True)
            if r3 is not c: rec('C08 inplace-not-self ' + name)
            if snap(c) != snap(r1): rec('C08 inplace-differs ' + name, (snap(c), snap(r1)))
            if r1 is s: rec('C08 noninplace-returns-self ' + name)
            r1.apply_formatting('hide')
            if snap(s) != ssnap: rec('C08 result-aliased ' + name)
    for name, args in QUERIES:
        try: q1 = getattr(s, name)(*args); q2 = getattr(a, name)(*args)
        except Exception as e: rec('C09 EXC query %s %s' % (name, type(e).__name__)); continue
        if q1 != q2: rec('C13 query-differs ' + name, (q1, q2))
        if snap(s) != ssnap: rec('C08 receiver-mutated by ' + name); s = AnsiString(a)
    for name in ('split', 'rsplit', 'splitlines', 'partition', 'rpartition'):
        args = () if name == 'splitlines' else (R.choice([None, 'a', ' ']),) if 'split' in name else ('a',)
        p1 = getattr(s, name)(*args); p2 = getattr(a, name)(*args)
        if [snap(x) for x in p1] != [(x.base_str, lists(x), str(x)) for x in p2] or not all(isinstance(x, AnsiStr) for x in p2): rec('C13 pieces-differ ' + name)
    # constructors with settings
    for src in (s.base_str, s, a):
        x1 = AnsiString(src, 'underline', 'bg_red'); x2 = AnsiStr(src, 'underline', 'bg_red')
        if (x1.base_str, lists(x1), str(x1)) != (x2.base_str, lists(x2), str.__str__(x2)): rec('C13 ctor-settings ' + type(src).__name__, (snap(x1), lists(x2)))
        if snap(s) != ssnap: rec('C08 ctor-mutates-source'); s = AnsiString(a)
    c = s.copy()
    if not (c == s) or snap(c) != ssnap: rec('C08 copy-not-equal')
    c.apply_formatting('hide'); c += 'x'
    if snap(s) != ssnap: rec('C08 copy-aliased')
    if snap(AnsiString(a)) != ssnap or snap(AnsiString(s)) != ssnap: rec('C08 conversion-differs')
    b = a + 'x'; b2 = a + AnsiStr('y', 'red')
    if (a.base_str, lists(a)) != (ssnap[0], ssnap[1]): rec('C08 AnsiStr-add-mutates')
    if lists(b) != ssnap[1] + [[]] or not isinstance(b, AnsiStr): rec('C13 AnsiStr-add')
    j1 = AnsiString.join(s, 'k', a); j2 = AnsiStr.join(s, 'k', a)
    if (j1.base_str, lists(j1)) != (j2.base_str, lists(j2)): rec('C13 join')
    if [x.base_str for x in a] != list(ssnap[0]) or [lists(x)[0] for x in a] != ssnap[1]: rec('C13 iteration')
    if len(a) and (lists(a[-1]) != [ssnap[1][-1]] or lists(a[1:]) != ssnap[1][1:]): rec('C13 getitem')

# ---------------------------------------------------------------- C10 queries vs str
def strlike():
    t = ''.join(R.choice('abAB 1\t\n-é') for _ in range(R.randint(0, 8))); s = AnsiString(t, R.choice(SET))
    for name, args in [('count', (R.choice(['a', '', 'ab']), R.choice([None, 1, -2]), R.choice([None, 4, -1]))), ('find', (R.choice(['a', 'b', '']), R.choice([None, 2]))),
                       ('rfind', ('a', None, R.choice([None, 3]))), ('endswith', (R.choice(['a', 'b', '']),)), ('index', ('a',)), ('rindex', ('b',))]:
        try: want = getattr(t, name)(*args)
        except Exception as e: want = type(e)
        try: got = getattr(s, name)(*args)
        except Exception as e: got = type(e)
        if want != got: rec('C10 query ' + name, (t, args, want, got))
    for name in ('isalnum', 'isalpha', 'isascii', 'isdecimal', 'isdigit', 'isidentifier', 'islower', 'isnumeric', 'isprintable', 'isspace', 'istitle', 'isupper'):
        if getattr(t, name)() != getattr(s, name)(): rec('C10 query ' + name)
    if len(s) != len(t) or ('a' in s) != ('a' in t) or ('zz' in s) != ('zz' in t): rec('C10 len/in')
    for name in ('capitalize', 'casefold', 'lower', 'upper', 'swapcase', 'title'):
        r = getattr(s, name)()
        if r.base_str != getattr(t, name)(): rec('C10 case ' + name)
        elif len(r) == len(t) and lists(r) != lists(s): rec('C11 case-codes ' + name)
    w = R.randint(0, 12)
    if s.ljust(w, '.').base_str != t.ljust(w, '.') or s.rjust(w).base_str != t.rjust(w) or s.zfill(w).base_str != t.rjust(w, '0'): rec('C10 just')
    if s.center(w, '.').base_str != format(t, '.^%d' % w): rec('C10 center')
    ts = R.randint(0, 4)
    if s.expandtabs(ts).base_str != t.replace('\t', ' ' * ts): rec('C10 expandtabs')
    if s.expandtabs().base_str != t.replace('\t', ' ' * 8): rec('C10 expandtabs-default')
    for sep, ms in ((None, -1), ('a', -1), ('ab', 1), (' ', 2), (None, 1)):
        if [x.base_str for x in s.split(sep, ms)] != t.split(sep, ms): rec('C10 split', (t, sep, ms))
        if [x.base_str for x in s.rsplit(sep, ms)] != t.rsplit(sep, ms): rec('C10 rsplit', (t, sep, ms))
    if [x.base_str for x in s.split()] != t.split() or [x.base_str for x in s.rsplit()] != t.rsplit(): rec('C10 split-default')
    for ke in (False, True):
        if [x.base_str for x in s.splitlines(ke)] != t.splitlines(ke): rec('C10 splitlines')
    if [x.base_str for x in s.splitlines()] != t.splitlines(): rec('C10 splitlines-default')
    for sep in ('a', 'ab', 'zz'):
        if tuple(x.base_str for x in s.partition(sep)) != t.partition(sep): rec('C10 partition')
        rp = t.rpartition(sep); rp = rp if sep in t else (t, '', '')
        if tuple(x.base_str for x in s.rpartition(sep)) != rp: rec('C10 rpartition')
    if s.strip().base_str != t.strip(' \t\n\r\v\f') or s.lstrip().base_str != t.lstrip(' \t\n\r\v\f') or s.rstrip().base_str != t.rstrip(' \t\n\r\v\f'): rec('C10 strip-default')
    for old, new, c in (('a', 'b', -1), ('ab', '', 1), ('', 'x', -1), ('', 'x', 2), ('a', 'aa', -1)):
        if s.replace(old, new, c).base_str != t.replace(old, new, c): rec('C10 replace', (t, old, new, c))
    if s.replace('a', 'q').base_str != t.replace('a', 'q'): rec('C10 replace-default')

# ---------------------------------------------------------------- C12 format spec
def fmtspec():
    s = rnd_value(5, 'ab'); ssnap = snap(s)
    fill = R.choice(['', '*', ':', '+', '-', '0', ' ']); sign = R.choice(['', '+', '-']); al = R.choice(['<', '>', '^', '']); w = R.choice(['', '0', '3', '9', '12'])
    ansi = R.choice([None, '', 'bold', 'red;underline'])
    if al == '' and (fill or sign): return
    if fill == '' and sign: fill, sign = sign, ''   # '.?' is greedy: a lone +/- before the alignment is the fill
    spec = fill + sign + al + w + ('' if ansi is None else ':' + ansi)
    try: out = format(s, spec)
    except ValueError:
        if not (fill in '+- ' and al == ''): rec('C12 spec-rejected', spec)
        return
    if snap(s) != ssnap: rec('C12 format-mutates')
    c = s.copy(); ext = sign != '-'
    meth = {'<': 'ljust', '>': 'rjust', '^': 'center', '': 'ljust'}[al]
    if not ext and ansi: c.apply_formatting(ansi)
    if w: getattr(c, meth)(int(w), fill or ' ', True, ext)
    if ext and ansi: c.apply_formatting(ansi)
    if interpret(out)[0] != expected(c): rec('C12 format!=pad+apply', (spec, out, str(c)))
    if out != s.to_str(spec): rec('C12 format!=to_str')
    txt = re.sub(r'\x1b\[[0-9;]*m', '', out)
    if w and txt != format(s.base_str, (fill or ' ') + (al or '<') + w): rec('C12 format-text', (spec, txt))
    for bad in ('x', 'ab<3', '3x', '>3>', '<3.2', '^^^3'):
        try: format(s, bad); rec('C12 bad-spec-accepted', bad)
        except ValueError: pass
        except Exception as e: rec('C12 bad-spec-wrong-exc ' + type(e).__name__)

# ---------------------------------------------------------------- C14 spellings
NAMES = None
def spell():
    global NAMES
    if NAMES is None: NAMES = [m for m in AnsiFormat]
    m = R.choice(NAMES); ref = AnsiString('x', m); want = lists(ref); out = str(ref)
    name = m.name
    forms = [name, name.lower(), name.lower().replace('_', ' '), name.title().replace('_', '-'), [m], (m,), [[name]], [name.lower(), []]]
    codes = [c for st in m.ansi_settings for c in str(st).split(';')]
    forms += [';'.join(codes), [int(c) for c in codes], ['[' + str(st) for st in m.ansi_settings], [AnsiSetting(str(st)) for st in m.ansi_settings], tuple(int(c) for c in codes)]
    for f in forms:
        try: x = AnsiString('x', f)
        except Exception as e: rec('C14 form-raises ' + type(e).__name__, (name, f)); continue
        if lists(x) != want or str(x) != out: rec('C14 form-differs', (name, repr(f)[:60], lists(x), want))
    two = AnsiString('x', m, 'bold');
    if lists(AnsiString('x', name + ';bold')) != lists(two) or lists(AnsiString('x', [m, ['bold']])) != lists(two): rec('C14 multi-directive')
    r, g, b = R.randint(-5, 300), R.randint(0, 255), R.randint(0, 255); cr = min(255, max(0, r))
    for pre, fn in (('', AnsiFormat.rgb), ('fg_', AnsiFormat.fg_rgb), ('bg_', AnsiFormat.bg_rgb), ('ul_', AnsiFormat.ul_rgb), ('dul_', AnsiFormat.dul_rgb)):
        h = lists(AnsiString('x', fn(r, g, b)))
        lead = {'': ['38'], 'fg_': ['38'], 'bg_': ['48'], 'ul_': ['4', '58'], 'dul_': ['21', '58']}[pre]
        exp = [lead[:-1] + ['%s;2;%d;%d;%d' % (lead[-1], cr, g, b)]]
        if h != exp: rec('C14 rgb-helper ' + pre, (r, g, b, h))
        if r >= 0:
            for sf in ('%srgb(%d,%d,%d)' % (pre, cr, g, b), '%srgb( %d , 0x%x, %d )' % (pre, cr, g, b), '%srgb([%d,%d,%d])' % (pre, cr, g, b), '%srgb(0x%06x)' % (pre, (cr << 16) | (g << 8) | b), '%srgb(%d)' % (pre, (cr << 16) | (g << 8) | b)):
                try:
                    if lists(AnsiString('x', sf)) != exp: rec('C14 rgb-string ' + pre, (sf, lists(AnsiString('x', sf)), exp))
                except Exception as e: rec('C14 rgb-string-raises', sf)
        n = R.randint(0, 255)
        fn2 = getattr(AnsiFormat, (pre or 'fg_') + 'color256'); fn3 = getattr(AnsiFormat, (pre or 'fg_') + 'colour256')
        exp2 = [lead[:-1] + ['%s;5;%d' % (lead[-1], n)]]
        if lists(AnsiString('x', fn2(n))) != exp2 or lists(AnsiString('x', fn3(n))) != exp2: rec('C14 color256-helper ' + pre)
        for sf in ('%scolor256(%d)' % (pre, n), '%scolour256(0x%x)' % (pre, n), '%scolor256([%d])' % (pre, n), '%scolour256( %d )' % (pre, n)):
            try:
                if lists(AnsiString('x', sf)) != exp2: rec('C14 color256-string', sf)
            except Exception: rec('C14 color256-string-raises', sf)
    if lists(AnsiString('x', AnsiFormat.rgb(0x0a0b0c))) != [['38;2;10;11;12']]: rec('C14 rgb-24bit')
    for bad, exc in (('no_such_name', ValueError), (-1, ValueError), ('rgb(1,2)', ValueError), ('rgb(x)', ValueError), (1.5, TypeError), ({}, TypeError), ('-3', ValueError)):
        try: AnsiString('x', bad); rec('C14 bad-accepted', bad)
        except exc: pass
        except Exception as e: rec('C14 bad-wrong-exc', (bad, type(e).__name__))
    l = ['bold']; l.append(l)
    try: AnsiString('x', l); rec('C14 self-list-accepted')
    except ValueError: pass
    except Exception as e: rec('C14 self-list-wrong-exc ' + type(e).__name__)
    code = R.randint(0, 110)
    if code:
        a1, a2, a3 = lists(AnsiString('x', code)), lists(AnsiString('x', str(code))), lists(AnsiString('x', '[%d' % code))
        if not (a1 == a2 == a3 == [[str(code)]]): rec('C14 int-code', (code, a1, a2, a3))
    seq = [R.choice([1, 4, 31, 22, 38, 5, 2, 200, 48, 58, 0, 77, 7]) for _ in range(R.randint(1, 6))]
    try:
        a1, a2 = lists(AnsiString('x', seq)), lists(AnsiString('x', ';'.join(map(str, seq))))
        if a1 != a2: rec('C14 intlist!=string', (seq, a1, a2))
    except Exception as e: rec('C14 intlist-raises', seq)

# ---------------------------------------------------------------- C15 valid / parsable
KNOWN1 = set(GROUP) | {10}
def flags():
    t = ''.join(R.choice(['1', '3', '38', '5', '2', '48', '58', '0', '255', '256', ';', ';', ' ', 'm', 'A', '@', '~', '?', '31', '22', '77', '+', '']) for _ in range(R.randint(1, 6)))
    if not t: return
    st = AnsiSetting(t)
    want_valid = not any(0x40 <= ord(c) <= 0x7e for c in t)
    if st.valid != want_valid or st.valid != want_valid: rec('C15 valid', (t, st.valid))
    m1 = re.fullmatch(r'(\d+)', t); m2 = re.fullmatch(r'(38|48|58);5;(\d+)', t); m3 = re.fullmatch(r'(38|48|58);2;(\d+);(\d+);(\d+)', t)
    want_p = bool((m1 and int(t) in KNOWN1 and int(t) != 0 and int(t) not in (38, 48, 58)) or (m2 and int(m2.group(2)) <= 255) or (m3 and all(int(x) <= 255 for x in m3.groups()[1:])))
    if ' ' not in t and '+' not in t and st.parsable != want_p: rec('C15 parsable', (t, st.parsable, want_p))
    if st.parsable != st.parsable: rec('C15 parsable-unstable')
    s = AnsiString('ab', st)
    if s.is_formatting_valid() != st.valid or s.is_formatting_parsable() != st.parsable: rec('C15 conjunction', t)
    s.apply_formatting('bold', 1)
    if s.is_formatting_valid() != st.valid or s.is_formatting_parsable() != st.parsable: rec('C15 conjunction2', t)
    if st.valid:
        for opt in (True, False):
            out = s.to_str(optimize=opt)
            if re.sub(r'\x1b\[[\x00-\x3f\x7f-￿]*m', '', out) != 'ab': rec('C15 strip-valid', (t, out))
            if not st.parsable and not re.search(r'\x1b\[([^m]*;)?' + re.escape(t) + r'(;[^m]*)?m', out): rec('C15 verbatim-missing', (t, out))
    for m in (AnsiFormat.BOLD, AnsiFormat.FG_ORANGE, AnsiFormat.UL_RED, AnsiFormat.DUL_AQUA):
        x = AnsiString('a', m, m.name.lower(), AnsiFormat.bg_rgb(1, 2, 3), 93)
        if not (x.is_formatting_valid() and x.is_formatting_parsable() and x.is_optimizable()): rec('C15 known-not-parsable', m.name)

# ---------------------------------------------------------------- C16 matching
def matching():
    t = ''.join(R.choice('abAB. ') for _ in range(R.randint(0, 9))); s = AnsiString(t, *R.sample(SET, R.randint(0, 2)))
    s.apply_formatting(R.choice(SET), R.randint(0, 4), R.randint(3, 9))
    pat = R.choice(['a', 'ab', '.', 'A', 'a.', '', 'b+', '[ab]', 'a|b', '(a)(b)?']); rx = R.random() < 0.5; mc = R.random() < 0.5; cnt = R.choice([-1, -1, 0, 1, 2, -5]); fmt = R.sample(SET, R.randint(1, 2))
    try: ms = list(re.finditer(pat if rx else re.escape(pat), t, 0 if mc else re.IGNORECASE))
    except re.error: return
    a = s.copy(); a.format_matching(pat, *fmt, regex=rx, match_case=mc, count=cnt)
    b = s.copy()
    for m in (ms if cnt < 0 else ms[:cnt]): b.apply_formatting(fmt, m.start(), m.end())
    if a.base_str != t or lists(a) != lists(b) or str(a) != str(b): rec('C16 format_matching', (t, pat, rx, mc, cnt, lists(a), lists(b)))
    a2 = s.copy(); d = s.copy(); a2.format_matching(pat, *fmt);
    for m in re.finditer(re.escape(pat), t, re.IGNORECASE): d.apply_formatting(fmt, m.start(), m.end())
    if lists(a2) != lists(d): rec('C16 format_matching-defaults')
    uf = R.choice([[], [None], fmt[:1], fmt])
    c = a.copy(); c.unformat_matching(pat, *uf, regex=rx, match_case=mc, count=cnt)
    e = a.copy()
    for m in (ms if cnt < 0 else ms[:cnt]): e.remove_formatting(None if (not uf or None in uf) else uf, m.start(), m.end())
    if c.base_str != t or lists(c) != lists(e): rec('C16 unformat_matching', (t, pat, uf, lists(c), lists(e)))
    if ms:
        g = s.copy(); g.apply_formatting_for_match('hide', ms[0]); g2 = s.copy(); g2.apply_formatting('hide', ms[0].start(), ms[0].end())
        if lists(g) != lists(g2): rec('C16 apply_for_match')

# ---------------------------------------------------------------- C17 queries
def queries():
    s = rnd_value(6, 'abc'); L = len(s); ls = lists(s)
    for i in (-1, -L - 1, L, L + 3):
        if s.ansi_settings_at(i) != [] or s.settings_at(i) != '': rec('C17 out-of-range', i)
    for i in range(L):
        if s.settings_at(i) != ';'.join(ls[i]): rec('C17 settings_at')
        x = s.ansi_settings_at(i); x.append(1)
        if lists(s) != ls: rec('C17 settings_at-aliased')
    st = R.choice(SET); want = scrub(st); a, b = R.randint(-L - 1, L + 1), R.choice([None] + list(range(-L - 1, L + 2)))
    na, nb = norm(a, L, 0), norm(b, L, L)
    fs, fe = s.find_settings(st, a, b)
    has = lambda i: i < L and all(c in ls[i] for c in want)
    if nb < na:
        if (fs, fe) != (None, None): rec('C17 find end<start')
    else:
        if s.find_settings([], a, b) != (na, nb): rec('C17 find-empty-settings')
        if not any(has(i) for i in range(na, min(nb + 1, L))) and fs is not None: rec('C17 find-phantom', (ls, st, a, b, fs, fe))
        if any(has(i) for i in range(na, nb)) and fs is None: rec('C17 find-missed', (ls, st, a, b))
        if fs is not None:
            if not has(fs) and fs < L: rec('C17 found_start-lacks', (ls, st, a, b, fs, fe))
            stop = fe if fe is not None else nb
            if any(not has(i) for i in range(fs, min(stop, L))): rec('C17 run-broken', (ls, st, a, b, fs, fe))
            if fe is not None and fe < L and has(fe): rec('C17 found_end-has', (ls, st, a, b, fs, fe))
            first = [i for i in range(na, nb) if has(i)]
            if first and fs != first[0] and fs < nb: rec('C17 not-first', (ls, st, a, b, fs, fe))
        rs_, re2 = s.find_settings(st, a, b, True)
        if rs_ is not None and rs_ < L and not has(rs_): rec('C17 reverse-lacks')

# ---------------------------------------------------------------- C18 code lists
def codelists():
    seq = []
    for _ in range(R.randint(0, 6)):
        r = R.random()
        if r < 0.5: seq.append(R.choice([0, 1, 2, 3, 4, 21, 22, 24, 31, 39, 44, 49, 53, 55, 91, 104, 10, 12]))
        elif r < 0.75: seq += R.choice([[38, 5, R.randint(0, 255)], [48, 2, 1, 2, 3], [58, 5, 7], [38, 2, 9, 9, 9]])
        elif r < 0.9: seq.append(R.choice([77, 60, 111, 56]))
    if R.random() < 0.15: seq += R.choice([[38], [38, 5], [48, 2, 1], [58, 2]])   # incomplete group only at the very end
    for form in (';'.join(map(str, seq)), list(seq), [str(x) for x in seq]):
        keep = list(form) if not isinstance(form, str) else form
        try: out = parse_graphic_sequence(form, False)
        except Exception as e: rec('C18 parse-raises ' + type(e).__name__, seq); continue
        st = {}; r = feed_codes(st, seq if seq else [0])
        got = {}
        d = settings_to_dict(out)
        for v in d.values(): feed(got, str(v))
        # incomplete trailing group: model stops; library must contribute nothing for it either
        if got != st: rec('C18 parse-state', (seq, [str(x) for x in out], st, got))
        try: oute = parse_graphic_sequence(form if isinstance(form, str) else list(form), True)
        except Exception as e: rec('C18 parse-erroneous-raises'); continue
        flat = [int(c) for x in oute for c in str(x).split(';') if c.strip().isdigit()]
        if seq and flat != seq: rec('C18 erroneous-tokens', (seq, [str(x) for x in oute]))
    if [str(x) for x in parse_graphic_sequence('')] != ['0'] or [str(x) for x in parse_graphic_sequence([])] != ['0']: rec('C18 empty-is-reset')
    old = {}; base = [AnsiSetting(c) for c in R.sample(['1', '31', '44', '4', '38;5;3', '53'], 3)]
    old = settings_to_dict(base); oc = dict(old); lst = [AnsiSetting(str(c)) for c in R.sample([0, 2, 22, 39, 32, 24, 21, 55, 3], 3)]; lc = list(lst)
    new = settings_to_dict(lst, old)
    if old != oc or lst != lc: rec('C18 settings_to_dict-mutates-args')
    w = {}
    for v in base: feed(w, str(v))
    for v in lst: feed(w, str(v))
    g2 = {}
    for v in new.values(): feed(g2, str(v))
    if g2 != w: rec('C18 settings_to_dict-on-old', ([str(b) for b in base], [str(x) for x in lst]))
    if settings_to_dict([]) != {}: rec('C18 default-arg-polluted')

# ---------------------------------------------------------------- C19 control sequence parser / helpers
def ctrl():
    t = ''.join(R.choice(['\x1b', '[', '1', ';', 'm', 'A', 'x', '\x1b[', '\x1b[1m', '\x1b[2;3H', '?', ' ', '~', '@']) for _ in range(R.randint(0, 8)))
    for allow, acc in ((True, None), (False, None), (False, 'm'), (True, 'mH'), (False, 'mH')):
        p = ParsedAnsiControlSequenceString(t, allow, acc)
        # independent tokenisation
        un = ''; seqs = collections.OrderedDict(); i = 0
        while i < len(t):
            if t.startswith('\x1b[', i):
                j = i + 2
                while j < len(t) and not (0x40 <= ord(t[j]) <= 0x7e): j += 1
                term = t[j] if j < len(t) else ''
                ok = (term != '' or allow) and (acc is None or term in acc)
                if ok: seqs.setdefault(len(un), []).append((t[i + 2:j], term))
                else: un += t[i:j + (1 if term else 0)]
                i = j + (1 if term else 0)
            else: un += t[i]; i += 1
        if p.unformatted_str != un: rec('C19 unformatted', (t, allow, acc, p.unformatted_str, un))
        if {k: [(v.sequence, v.terminator) for v in l] for k, l in p.sequences.items()} != dict(seqs): rec('C19 sequences', (t, allow, acc))
        try:
            if p.formatted_str != t: rec('C19 formatted_str', (t, p.formatted_str))
            if str(p) != t or repr(p) != t: rec('C19 str/repr')
        except Exception as e: rec('C19 str-raises ' + type(e).__name__)
    n, m2 = R.randint(0, 300), R.randint(0, 99)
    table = [(lib.cursor_up_str, 'A', 1), (lib.cursor_down_str, 'B', 1), (lib.cursor_forward_str, 'C', 1), (lib.cursor_backward_str, 'D', 1), (lib.cursor_back_str, 'D', 1),
             (lib.cursor_next_line_str, 'E', 1), (lib.cursor_previous_line_str, 'F', 1), (lib.cursor_horizontal_absolute_str, 'G', 1), (lib.cursor_position_str, 'H', 2),
             (lib.erase_in_display_str, 'J', 1), (lib.erase_in_line_str, 'K', 1), (lib.scroll_up_str, 'S', 1), (lib.scroll_down_str, 'T', 1)]
    for fn, fin, ar in table:
        out = fn(n) if ar == 1 else fn(n, m2)
        want = '\x1b[%d%s' % (n, fin) if ar == 1 else '\x1b[%d;%d%s' % (n, m2, fin)
        if out != want: rec('C19 helper ' + fn.__name__, out)
        p = ParsedAnsiControlSequenceString(out)
        if p.unformatted_str != '' or len(p.sequences.get(0, [])) != 1: rec('C19 helper-not-recognised ' + fn.__name__)
    for fn, fin in ((lib.cursor_up_str, 'A'), (lib.cursor_down_str, 'B'), (lib.cursor_forward_str, 'C'), (lib.cursor_backward_str, 'D'), (lib.cursor_next_line_str, 'E'), (lib.cursor_previous_line_str, 'F')):
        if fn() != '\x1b[1' + fin: rec('C19 helper-default ' + fn.__name__)
    if ParsedAnsiControlSequenceString('a\x1b[3').unformatted_str != 'a': rec('C19 default-allow-empty')

# ---------------------------------------------------------------- C09 error discipline
def errors():
    s = rnd_value(5, 'ab')
    if len(s) < 2: s = AnsiString('abab', 'red')
    ss = snap(s); tbl = {k: (list(v.add), list(v.rem)) for k, v in s._fmts.items()}
    calls = [(lambda: s.apply_formatting('no_such'), ValueError), (lambda: s.apply_formatting(-4), ValueError), (lambda: s.apply_formatting(1.5), TypeError),
             (lambda: s.remove_formatting('no_such', 1, 3), ValueError), (lambda: s.remove_formatting(-1), ValueError), (lambda: s.__iadd__(5), TypeError), (lambda: s + None, TypeError),
             (lambda: s.center(5, 'xx'), ValueError), (lambda: s.ljust(5, ''), ValueError), (lambda: s.rjust(5, 'ab', True), ValueError), (lambda: s[::2], ValueError), (lambda: s['a'], TypeError),
             (lambda: s[len(s) + 2], IndexError), (lambda: s[-len(s) - 1], IndexError), (lambda: format(s, 'q'), ValueError), (lambda: s.format_matching('a', 'no_such'), ValueError) if 'a' in s.base_str else (lambda: s.index('zz'), ValueError),
             (lambda: AnsiString(5), TypeError), (lambda: AnsiStr(5), TypeError), (lambda: AnsiString.join(5), TypeError), (lambda: s.index('zz'), ValueError), (lambda: s.find_settings('no_such'), ValueError)]
    for f, exc in calls:
        try: f(); rec('C09 no-error', exc.__name__)
        except exc: pass
        except Exception as e: rec('C09 wrong-exc %s for %s' % (type(e).__name__, exc.__name__))
        if snap(s) != ss or {k: (list(v.add), list(v.rem)) for k, v in s._fmts.items()} != tbl or s.to_str(optimize=False) != AnsiString(s).to_str(optimize=False):
            rec('C09 state-changed-after-error', exc.__name__); s = AnsiString('abab', 'red'); ss = snap(s); tbl = {k: (list(v.add), list(v.rem)) for k, v in s._fmts.items()}
    for w in (0, 10 ** 4):
        x = s.center(w); y = s.zfill(w); z = format(s, '>%d' % w)
    u = AnsiString('x'); u.apply_formatting('red', 5, 9); u.apply_formatting('red', -9, 0)
    if u._fmts: rec('C06 empty-range-not-noop')

guarded('hist_ops', hist_ops, 400); guarded('render', render, 150); guarded('parse_in', parse_in, 300); guarded('twin', twin, 40)
guarded('strlike', strlike, 120); guarded('fmtspec', fmtspec, 200); guarded('spell', spell, 120); guarded('flags', flags, 300)
guarded('matching', matching, 150); guarded('queries', queries, 200); guarded('codelists', codelists, 300); guarded('ctrl', ctrl, 200); guarded('errors', errors, 40)
finish()

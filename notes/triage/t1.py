import sys, threading
sys.path.insert(0,'/repo/src')
from ansi_string import *
from ansi_string.ansi_string import _AnsiSettingPoint
AnsiString.WITH_ASSERTIONS=True
def show(label, f):
    try:
        r=f()
        print(label, '=>', repr(r))
    except Exception as e:
        print(label, 'RAISES', type(e).__name__, e)
def sets(s): return [s.settings_at(i) for i in range(len(s))]
# C01 reset_start
show('C01 reset_start no_bold', lambda: AnsiString('a','no_bold_faint').to_str(reset_start=True))
show('C01 reset_start bold', lambda: AnsiString('a','bold').to_str(reset_start=True))
# C02
show('C02 parse 1;38;5;214', lambda: sets(AnsiString('\x1b[1;38;5;214mab\x1b[m')))
show('C18 pgs', lambda: [str(x) for x in parse_graphic_sequence('1;38;5;214')])
show('C18 pgs2', lambda: [str(x) for x in parse_graphic_sequence('38;5;214;1')])
show('C14 ints', lambda: sets(AnsiString('x', [4,38,5,200])))
# C03
def c03():
    s=AnsiString('ab','bold','rgb(1,2,3)'); before=str(s); s.simplify(); return before, str(s)
show('C03 simplify', c03)
# C04
show('C04 neg idx', lambda: str(AnsiString('abc','red')[-1]))
def c04b():
    s=AnsiString('abcd'); s.apply_formatting('red',0,4); s.apply_formatting('red',0,2)
    t=s[0:2]; return t._fmts.keys(), {k:(list(map(str,v.add)),list(map(str,v.rem))) for k,v in t._fmts.items()}, str(t+'zz')
show('C04 overlap', c04b)
# C05 center
def c05():
    s=AnsiString('ab','red').center(6); return sorted(s._fmts), str(s+'zz')
show('C05 center', c05)
# C06
def c06():
    s=AnsiString('abc'); s.apply_formatting('red',0,10); return sorted(s._fmts), str(s+'zz')
show('C06 end beyond', c06)
def c06b():
    s=AnsiString('a','no_bold_faint','bold'); before=str(s); s.apply_formatting('bold',0,1,topmost=False); return before,str(s), sets(s)
show('C06 topmost False', c06b)
# C07
def c07():
    s=AnsiString('abcdef'); s.apply_formatting('red',0,6); s.apply_formatting('blue',0,6); s.apply_formatting('bold',0,2)
    before=sets(s); s.remove_formatting('bold',0,2); return before, sets(s)
show('C07 flip', c07)
# C08
def c08():
    a=AnsiString('a','red'); b=AnsiString('b','red'); c=a+b; return str(b), sets(b)
show('C08 a+b strips b', c08)
def c08b():
    s=AnsiString('abcd'); s.apply_formatting('red',1,3); t=s[0:3]; t.apply_formatting('bold',1,2); return str(s), sorted(s._fmts), {k:(list(map(str,v.add)),list(map(str,v.rem))) for k,v in s._fmts.items()}
show('C08 slice alias', c08b)
# C09 replace hang
def hang():
    res=[]
    def run():
        try: res.append(AnsiString('abc').replace('', 'x'))
        except Exception as e: res.append(e)
    t=threading.Thread(target=run,daemon=True); t.start(); t.join(2)
    return 'HANG' if t.is_alive() else res
show('C09 replace empty', hang)
# C10
show('C10 removesuffix empty', lambda: AnsiString('abc','red').removesuffix('').base_str)
# C11
def c11():
    s=AnsiString('xabbbb'); s.apply_formatting('red',0,3);
    return [ (p.base_str, sets(p)) for p in s.split('ab')], sets(s)
show('C11 split', c11)
def c11b():
    s=AnsiString('a-b-c','red'); r=s.replace('-', AnsiString('+','red')); return sets(r)
show('C11 replace reuse', c11b)
# C13
show('C13 AnsiStr(AnsiString,bold)', lambda: (str(AnsiStr(AnsiString('a'),'bold')), str(AnsiString(AnsiString('a'),'bold')), str(AnsiStr(AnsiStr('a'),'bold'))))
# C15
show('C15 parsable +1', lambda: (AnsiSetting('+1').valid, AnsiSetting('+1').parsable, AnsiSetting('１').parsable, AnsiSetting(' 1').parsable, AnsiSetting('1 ').parsable,AnsiSetting('38;5;1').parsable, AnsiSetting('38;5').parsable, AnsiSetting('38;2;1;2;3').parsable, AnsiSetting('01').parsable))
# C19
def c19():
    p=ParsedAnsiControlSequenceString('a\x1b[1mb\x1b[2Jc'); return p.unformatted_str, {k:[(v.sequence,v.terminator) for v in l] for k,l in p.sequences.items()}, p.formatted_str
show('C19', c19)
show('C19 str', lambda: str(ParsedAnsiControlSequenceString('a')))

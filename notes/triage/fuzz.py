import sys, random, collections, traceback
root=sys.argv[1]; sys.path.insert(0, root)
from ansi_string import *
from ansi_string.ansi_string import _AnsiSettingPoint
AnsiString.WITH_ASSERTIONS=True
SET=['red','blue','bold','no_bold_faint','italic','bg_green','rgb(1,2,3)','underline']
def codes(s): return [[str(x) for x in s.ansi_settings_at(i)] for i in range(len(s))]
def norm(i,L,d):
    if i is None: return d
    if i<0: return max(0,L+i)
    return min(i,L)
def check_inv(s,tag):
    L=len(s)
    for k in s._fmts:
        if k<0 or k>L: raise AssertionError(f'{tag}: key {k} outside [0,{L}]')
    list(iter(s)); str(s); s.to_str(optimize=False)
def rnd_idx(L): return random.choice([None,0,L,L+3,-1,-L,-L-2]+[random.randint(-L-1,L+1) for _ in range(4)])
fails=collections.Counter(); examples={}
def rec(kind,hist):
    fails[kind]+=1; examples.setdefault(kind,hist)
random.seed(int(sys.argv[2]) if len(sys.argv)>2 else 1)
for trial in range(20000):
    text=''.join(random.choice('ab -\t') for _ in range(random.randint(0,7)))
    s=AnsiString(text); hist=[f'AnsiString({text!r})']
    try:
        for step in range(random.randint(1,6)):
            L=len(s); before=codes(s); btxt=s.base_str
            op=random.choice(['apply','apply','remove','slice','cat','center','ljust','rjust','replace','split','simplify','selfcat','strip'])
            if op=='apply':
                a,b=rnd_idx(L),rnd_idx(L); st=random.choice(SET); top=random.random()<0.7
                hist.append(f'apply({st},{a},{b},{top})'); s.apply_formatting(st,0 if a is None else a,b,top)
                na,nb=norm(a,L,0),norm(b,L,L)
                from ansi_string.ansi_string import _AnsiSettingPoint
                exp=[str(x) for x in _AnsiSettingPoint._scrub_ansi_settings(st)]
                after=codes(s)
                for i in range(L):
                    want=collections.Counter(before[i])
                    if na<=i<nb: want.update(exp)
                    if collections.Counter(after[i])!=want: rec('apply-multiset',list(hist)); break
            elif op=='remove':
                a,b=rnd_idx(L),rnd_idx(L); st=random.choice(SET+[None])
                hist.append(f'remove({st},{a},{b})'); s.remove_formatting(st,0 if a is None else a,b)
                na,nb=norm(a,L,0),norm(b,L,L); after=codes(s)
                exp=None if st is None else [str(x) for x in _AnsiSettingPoint._scrub_ansi_settings(st)]
                for i in range(L):
                    if na<=i<nb: want=[c for c in before[i] if not(exp is None or c in exp)]
                    else: want=before[i]
                    if collections.Counter(after[i])!=collections.Counter(want): rec('remove-multiset',list(hist)); break
                    if not(na<=i<nb) and settings_to_dict(s.ansi_settings_at(i)).keys() and {k:str(v) for k,v in settings_to_dict(s.ansi_settings_at(i)).items()}!={k:str(v) for k,v in settings_to_dict([AnsiSetting(c) for c in before[i]]).items()}:
                        rec('remove-outside-display',list(hist)); break
            elif op=='slice':
                a,b=rnd_idx(L),rnd_idx(L); hist.append(f'[{a}:{b}]'); t=s[a:b]
                if t.base_str!=btxt[a:b]: rec('slice-text',list(hist))
                if codes(t)!=before[slice(a,b)]: rec('slice-codes',list(hist))
                u=t+'zz'
                if codes(u)[len(t):]!=[[],[]]: rec('slice-bleed',list(hist))
                if codes(s)!=before: rec('slice-mutates-src',list(hist))
                s=t
            elif op=='cat':
                o=AnsiString(random.choice(['x','xy','']), *random.sample(SET,random.randint(0,2))); ob=codes(o); hist.append(f'+= {o.base_str!r}{ob}')
                s+=o
                if codes(s)!=before+ob: rec('cat-codes',list(hist))
                if codes(o)!=ob: rec('cat-mutates-arg',list(hist))
            elif op=='selfcat':
                hist.append('s+=s'); s+=s
                if codes(s)!=before+before: rec('selfcat',list(hist))
            elif op in('center','ljust','rjust'):
                w=random.randint(0,L+5); ext=random.random()<0.6; hist.append(f'{op}({w},ext={ext})')
                t=getattr(s,op)(w,'*',False,ext)
                ref=format(btxt,'*'+{'center':'^','ljust':'<','rjust':'>'}[op]+str(w))
                if t.base_str!=ref: rec('pad-text',list(hist))
                off=ref.index(btxt) if btxt else 0
                if btxt:
                    lp=(len(ref)-L)//2 if op=='center' else (0 if op=='ljust' else len(ref)-L)
                    want=[ (before[0] if ext else []) ]*lp + before + [ (before[-1] if ext else []) ]*(len(ref)-L-lp)
                    if codes(t)!=want: rec('pad-codes',list(hist))
                    if codes(t+'q')[-1]!=[]: rec('pad-bleed',list(hist))
                s=t
            elif op=='replace':
                old=random.choice(['a','ab','-',' ']+([''] if 'fixtrial' in root else [])); new=random.choice(['Z','', AnsiString('Q','red')]); hist.append(f'replace({old!r},{new if isinstance(new,str) else "AS(Q,red)"})')
                t=s.replace(old,new)
                if t.base_str!=btxt.replace(old,new if isinstance(new,str) else new.base_str): rec('replace-text',list(hist))
                s=t
            elif op=='split':
                sep=random.choice(['a','ab','-',' ',None]); hist.append(f'split({sep!r})')
                parts=s.split(sep)
                if [p.base_str for p in parts]!=btxt.split(sep): rec('split-text',list(hist))
                # offsets
                pos=0; ok=True
                for p,txt in zip(parts,btxt.split(sep)):
                    if sep is None:
                        pos=btxt.find(txt,pos)
                    if codes(p)!=before[pos:pos+len(txt)]: ok=False
                    pos+=len(txt)+(len(sep) if sep is not None else 0)
                if not ok: rec('split-codes',list(hist))
            elif op=='simplify':
                hist.append('simplify'); d0=[{k:str(v) for k,v in settings_to_dict(s.ansi_settings_at(i)).items()} for i in range(L)]
                s.simplify()
                d1=[{k:str(v) for k,v in settings_to_dict(s.ansi_settings_at(i)).items()} for i in range(L)]
                if d0!=d1: rec('simplify-display',list(hist))
            elif op=='strip':
                hist.append('strip'); t=s.strip(' -')
                if t.base_str!=btxt.strip(' -'): rec('strip-text',list(hist))
                s=t
            check_inv(s,op)
    except Exception as e:
        rec('EXC '+type(e).__name__+': '+str(e)[:60], list(hist))
print(root)
for k,v in fails.most_common(): print(f'{v:5d} {k}\n        e.g. {examples[k]}')

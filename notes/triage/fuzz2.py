import sys, random, collections
root=sys.argv[1]; sys.path.insert(0, root)
from ansi_string import *
from ansi_string.ansi_string import _AnsiSettingPoint
from ansi_string.ansi_param import AnsiParamEffectFn
AnsiString.WITH_ASSERTIONS=True
SET=['red','blue','bold','no_bold_faint','faint','italic','bg_green','fg_default','underline','no_underline']
def lists(s): return [[str(x) for x in s.ansi_settings_at(i)] for i in range(len(s))]
def disp(codes): return {k:str(v) for k,v in settings_to_dict([AnsiSetting(c) for c in codes]).items()}
def touched(codes): return {AnsiSetting(c).get_initial_param().effect_type for c in codes}
def norm(i,L,d):
    if i is None: return d
    if i<0: return max(0,L+i)
    return min(i,L)
fails=collections.Counter(); ex={}
def rec(k,h): fails[k]+=1; ex.setdefault(k,list(h))
random.seed(int(sys.argv[2]))
for trial in range(int(sys.argv[3])):
    L=random.randint(1,6); s=AnsiString('abcdef'[:L]); hist=[f'len {L}']
    try:
        for step in range(random.randint(1,6)):
            before=lists(s)
            a=random.randint(-L-1,L+1); b=random.choice([None]+list(range(-L-1,L+2)))
            na,nb=norm(a,L,0),norm(b,L,L)
            if random.random()<0.6:
                st=random.choice(SET); top=random.random()<0.5
                hist.append(f'apply({st},{a},{b},top={top})'); s.apply_formatting(st,a,b,top)
                new=[str(x) for x in _AnsiSettingPoint._scrub_ansi_settings(st)]
                after=lists(s)
                for i in range(L):
                    if na<=i<nb:
                        if collections.Counter(after[i])!=collections.Counter(before[i]+new): rec('apply-inside-multiset',hist); break
                        # old settings keep relative order
                        rest=list(after[i])
                        for c in new: rest.remove(c)
                        if not top:
                            for e in touched(before[i]):
                                if disp(before[i]).get(e)!=disp(after[i]).get(e): rec('apply-bottom-changes-display',hist); break
                        else:
                            if i==na:
                                for e,v in disp(new).items():
                                    if disp(after[i]).get(e)!=v: rec('apply-top-not-shown-at-first',hist); break
                                for e in touched(new):
                                    if e not in disp(new) and e in disp(after[i]): rec('apply-top-clear-not-shown',hist); break
                    else:
                        if after[i]!=before[i]: rec('apply-outside-changed',hist); break
            else:
                st=random.choice(SET+[None]); hist.append(f'remove({st},{a},{b})'); s.remove_formatting(st,a,b)
                exp=None if st is None else [str(x) for x in _AnsiSettingPoint._scrub_ansi_settings(st)]
                after=lists(s)
                for i in range(L):
                    if na<=i<nb:
                        want=[c for c in before[i] if not(exp is None or c in exp)]
                        if after[i]!=want:
                            rec('remove-inside-order' if collections.Counter(after[i])==collections.Counter(want) else 'remove-inside-multiset',hist); break
                    else:
                        if collections.Counter(after[i])!=collections.Counter(before[i]): rec('remove-outside-multiset',hist); break
                        if disp(after[i])!=disp(before[i]): rec('remove-outside-display',hist); break
            str(s); s.to_str(optimize=False)
            for k in s._fmts:
                if k<0 or k>L: rec('key-range',hist)
    except Exception as e:
        rec('EXC '+type(e).__name__+' '+str(e)[:50],hist)
print(root, sys.argv[2])
for k,v in fails.most_common(): print(f'{v:6d} {k}\n         e.g. {ex[k]}')

import json, os, shutil, subprocess, sys, multiprocessing as mp, time
MUTS='/tmp/lab/muts'; WORK='/tmp/lab/lwork'
res=[m for m in json.load(open('/tmp/lab/results.json')) if m['res']=='survived']
def init():
    global wd
    wd=f'{WORK}/w{os.getpid()}'; os.makedirs(wd,exist_ok=True)
    shutil.copytree('/tmp/lab/fixed/src/ansi_string',f'{wd}/src/ansi_string',dirs_exist_ok=True)
def run(m):
    dst=f"{wd}/src/ansi_string/{m['file']}"
    shutil.copy(f"{MUTS}/m{m['id']:05d}.py",dst)
    kinds={}
    for seed in (1,2):
        try:
            p=subprocess.run(['/venv/bin/python','/verif/notes/triage/oracle.py',f'{wd}/src',str(seed),'2'],capture_output=True,text=True,timeout=240,env={**os.environ,'PYTHONDONTWRITEBYTECODE':'1'})
            try:
                d=json.loads(p.stdout.strip().splitlines()[-1]); 
                for k,v in d['fails'].items(): kinds[k]=kinds.get(k,0)+v
            except Exception as e:
                kinds['ORACLE-CRASH '+(p.stderr.strip().splitlines()[-1][:80] if p.stderr.strip() else 'noout')]=1
        except subprocess.TimeoutExpired:
            kinds['C09 ORACLE-TIMEOUT']=1
    shutil.copy(f"/tmp/lab/fixed/src/ansi_string/{m['file']}",dst)
    return dict(m,kinds=kinds)
if __name__=='__main__':
    t=time.time()
    with mp.Pool(16,initializer=init) as pool: out=pool.map(run,res,chunksize=2)
    json.dump(out,open('/tmp/lab/labels.json','w'))
    n=sum(1 for o in out if o['kinds']); print(len(out),'survivors;',n,'flagged by oracle;',time.time()-t)
    shutil.rmtree(WORK)

import sys
sys.path.insert(0,'/repo/src')
from ansi_string import *
AnsiString.WITH_ASSERTIONS=True
def show(label, f):
    try:
        r=f(); print(label, '=>', repr(r))
    except Exception as e:
        print(label, 'RAISES', type(e).__name__, e)
def sets(s): return [s.settings_at(i) for i in range(len(s))]
def dump(s): return {k:(list(map(str,v.add)),list(map(str,v.rem))) for k,v in sorted(s._fmts.items())}
# C17 find_settings
def f1():
    s=AnsiString('abcd'); s.apply_formatting('red',2,4); return s.find_settings('red',0,2), s.find_settings('red',0,3), s.find_settings('red',1,None), s.find_settings('red',0,None,True)
show('C17 find', f1)
# C06 topmost False by-value
def c06b():
    s=AnsiString('ab'); s.apply_formatting('no_bold_faint',0,2); s.apply_formatting('bold',0,2)
    before=sets(s), str(s)
    s.apply_formatting('bold',0,2,topmost=False); return before, sets(s), str(s), dump(s)
show('C06 topmost False', c06b)
def c06c():
    s=AnsiString('abc'); s.apply_formatting('no_bold_faint',0,3); s.apply_formatting('bold',0,3)
    before=sets(s), str(s)
    s.apply_formatting('bold',1,3,topmost=False); return before, sets(s), str(s), dump(s)
show('C06 topmost False mid', c06c)
# C07 flip
def c07():
    s=AnsiString('abcdef'); s.apply_formatting('red',0,6); s.apply_formatting('bold',0,6); s.apply_formatting('blue',0,6)
    before=sets(s); s.remove_formatting('red',0,2); return before, sets(s), str(s)
show('C07 flip remove red', c07)
def c07b():
    s=AnsiString('abcdef'); s.apply_formatting(['red','blue'],1,6)
    before=sets(s); s.remove_formatting(None,0,3); return before, sets(s)
show('C07 flip reversed', c07b)
def c07c():
    s=AnsiString('abcdef','red'); 
    try: s.remove_formatting('bogus',1,3)
    except ValueError as e: pass
    return dump(s), s.to_str(optimize=False), s==AnsiString('abcdef','red')
show('C07 atomicity', c07c)
# C08 replace returns self
def c08():
    s=AnsiString('abc','red'); t=s.replace('zz','y'); return t is s
show('C08 replace nomatch returns self', c08)
def c08b():
    a=AnsiString('x','red'); a+=a; return dump(a), str(a)
show('C05 a+=a', c08b)
# C12 zero width etc
show('C12 center odd', lambda: (AnsiString('ab').center(5,'*').base_str, format('ab','*^5'), 'ab'.center(5,'*')))
show('C12 fmt', lambda: (format(AnsiString('ab','red'),'*>5'), format(AnsiString('ab','red'),'*->5:bold')))
# C10 strip
show('C10 strip', lambda: (AnsiString('  ab  ').strip().base_str, AnsiString('    ').strip().base_str, AnsiString('xxabxx').strip('x').base_str, AnsiString('abc').strip('').base_str))
show('C10 removeprefix empty', lambda: AnsiString('abc').removeprefix('').base_str)
# C09 huge width, etc
show('C09 getitem out of range', lambda: AnsiString('abc')[5])
show('C09 getitem -5', lambda: AnsiString('abc')[-5])
# C01 optimize False
def c01():
    s=AnsiString('abcd'); s.apply_formatting('red',0,2); s.apply_formatting('bold',1,3)
    return s.to_str(optimize=False), s.to_str(), s.to_str(reset_end=False), s.to_str(optimize=False, reset_start=True)
show('C01 flags', c01)

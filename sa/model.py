"""Source model: parses the package (never imports it), indexes classes / functions / module constants,
resolves the semantic roles of DESIGN.md section 1 structurally.  stdlib only."""
import ast
import hashlib
import os

PKG_REL = os.path.join('src', 'ansi_string')
MODULES = ['__init__', 'ansi_param', 'ansi_format', 'ansi_parsing', 'ansi_string', 'utils']


class AnalysisError(Exception):
    """A role / anchor vanished, or the analyser cannot decide a shape: exit 2, never a VIOLATION."""


def norm(node):
    """Normalised text of a node (whitespace / comment / quoting independent)."""
    if node is None:
        return ''
    if isinstance(node, str):
        return node
    try:
        return ast.unparse(node)
    except Exception:  # pragma: no cover
        return ast.dump(node)


def astcopy(n):
    """Deep copy of an AST (fields and positions only: never follows the `_parent` back-pointers the model adds)."""
    if isinstance(n, ast.AST):
        new = n.__class__()
        for fld in n._fields:
            if hasattr(n, fld):
                setattr(new, fld, astcopy(getattr(n, fld)))
        for a in n._attributes:
            if hasattr(n, a):
                setattr(new, a, getattr(n, a))
        return new
    if isinstance(n, list):
        return [astcopy(x) for x in n]
    return n


def short(node, n=110):
    t = ' '.join(norm(node).split())
    return t if len(t) <= n else t[:n - 3] + '...'


def negate(t):
    """Syntactic negation in the normal form used for guards: double negation, De Morgan, flipped comparison operators
    (the package compares integers, lengths and identities only)."""
    if isinstance(t, ast.UnaryOp) and isinstance(t.op, ast.Not):
        return t.operand
    if isinstance(t, ast.BoolOp):
        return ast.copy_location(ast.BoolOp(op=ast.Or() if isinstance(t.op, ast.And) else ast.And(), values=[negate(v) for v in t.values]), t)
    if isinstance(t, ast.Compare) and len(t.ops) == 1:
        flip = {ast.Eq: ast.NotEq, ast.NotEq: ast.Eq, ast.Lt: ast.GtE, ast.GtE: ast.Lt, ast.Gt: ast.LtE, ast.LtE: ast.Gt,
                ast.Is: ast.IsNot, ast.IsNot: ast.Is, ast.In: ast.NotIn, ast.NotIn: ast.In}
        return ast.copy_location(ast.Compare(left=t.left, ops=[flip[type(t.ops[0])]()], comparators=t.comparators), t)
    return ast.copy_location(ast.UnaryOp(op=ast.Not(), operand=t), t)


class _Normalise(ast.NodeTransformer):
    """Behaviour-preserving normal form so that equivalent spellings do not reach the rules:
    `x == None` -> `x is None`, `x != None` -> `x is not None`; `pass` dropped where it is not the only statement; `else: pass` dropped."""

    def visit_Compare(self, n):
        self.generic_visit(n)
        for i, (op, c) in enumerate(zip(n.ops, n.comparators)):
            left = n.left if i == 0 else n.comparators[i - 1]
            if isinstance(op, (ast.Eq, ast.NotEq)) and (
                    (isinstance(c, ast.Constant) and c.value is None) or (isinstance(left, ast.Constant) and left.value is None)):
                n.ops[i] = ast.Is() if isinstance(op, ast.Eq) else ast.IsNot()
        return n

    def visit_Assign(self, n):
        # `x = a if c else b` is `if c: x = a else: x = b`
        self.generic_visit(n)
        if len(n.targets) == 1 and isinstance(n.targets[0], ast.Name) and isinstance(n.value, ast.IfExp):
            def mk(v):
                return ast.copy_location(ast.Assign(targets=[ast.Name(id=n.targets[0].id, ctx=ast.Store())], value=v, type_comment=None), n)
            return ast.copy_location(ast.If(test=n.value.test, body=[self.visit_Assign(mk(n.value.body))], orelse=[self.visit_Assign(mk(n.value.orelse))]), n)
        return n

    def visit_Expr(self, n):
        # `L.append(a if c else b)` as a statement of its own, c a plain name: `if c: L.append(a) else: L.append(b)` (the receiver is a plain
        # name, looked up before the argument either way)
        self.generic_visit(n)
        c = n.value
        if isinstance(c, ast.Call) and isinstance(c.func, ast.Attribute) and isinstance(c.func.value, ast.Name) and c.func.attr in ('append', 'extend') and \
                len(c.args) == 1 and not c.keywords and isinstance(c.args[0], ast.IfExp) and isinstance(c.args[0].test, ast.Name):
            def mk(v):
                return ast.copy_location(ast.Expr(value=ast.copy_location(ast.Call(
                    func=ast.Attribute(value=ast.Name(id=c.func.value.id, ctx=ast.Load()), attr=c.func.attr, ctx=ast.Load()), args=[v], keywords=[]), c)), n)
            out = ast.copy_location(ast.If(test=c.args[0].test, body=[mk(c.args[0].body)], orelse=[mk(c.args[0].orelse)]), n)
            ast.fix_missing_locations(out)
            return out
        return n

    def visit_AnnAssign(self, n):
        # `x: T = v` is `x = v`; a bare declaration `x: T` is nothing
        self.generic_visit(n)
        if n.value is None:
            return ast.copy_location(ast.Pass(), n)
        return self.visit_Assign(ast.copy_location(ast.Assign(targets=[n.target], value=n.value, type_comment=None), n))

    def generic_visit(self, node):
        super().generic_visit(node)
        for fld in ('body', 'orelse', 'finalbody'):
            L = getattr(node, fld, None)
            if isinstance(L, list) and L and all(isinstance(x, ast.stmt) for x in L):
                kept = [x for x in L if not isinstance(x, ast.Pass)]
                if kept:
                    setattr(node, fld, kept)
                elif fld == 'orelse':
                    setattr(node, fld, [])
        if isinstance(node, (ast.For, ast.While)):
            node.body = self._guard_continue(node.body)
        return node

    @staticmethod
    def _guard_continue(body):
        """`if C: continue` directly in a loop body, followed by more statements  ==  `if not C: <the rest>`"""
        for i, st in enumerate(body):
            if isinstance(st, ast.If) and not st.orelse and st.body and isinstance(st.body[-1], ast.Continue) and body[i + 1:]:
                rest = _Normalise._guard_continue(body[i + 1:])
                if len(st.body) == 1:
                    return body[:i] + [ast.copy_location(ast.If(test=negate(st.test), body=rest, orelse=[]), st)]
                # `if C: A...; continue` then REST  ==  `if C: A... else: REST`   (A has no other jump out of the loop body)
                if not any(isinstance(x, (ast.Continue, ast.Break)) for b in st.body[:-1] for x in ast.walk(b)):
                    return body[:i] + [ast.copy_location(ast.If(test=st.test, body=st.body[:-1], orelse=rest), st)]
        return body


class Mod:
    def __init__(self, name, path, src):
        self.name = name
        self.path = path
        self.src = src
        self.tree = _Normalise().visit(ast.parse(src, filename=path))
        self.digest = hashlib.sha256(src.encode()).hexdigest()[:16]

    def set_parents(self):
        for parent in ast.walk(self.tree):
            for child in ast.iter_child_nodes(parent):
                child._parent = parent


class Func:
    def __init__(self, mod, cls, node):
        self.mod = mod
        self.cls = cls  # class name or None
        self.node = node
        self.name = node.name
        self.qual = (cls + '.' if cls else '') + node.name
        self.decorators = {norm(d) for d in node.decorator_list}
        self.is_property = 'property' in self.decorators
        self.is_static = 'staticmethod' in self.decorators
        a = node.args
        self.params = [x.arg for x in a.posonlyargs + a.args]
        self.kwonly = [x.arg for x in a.kwonlyargs]
        self.vararg = a.vararg.arg if a.vararg else None
        self.kwarg = a.kwarg.arg if a.kwarg else None
        # defaults by name
        self.defaults = {}
        pos = a.posonlyargs + a.args
        for p, d in zip(pos[len(pos) - len(a.defaults):], a.defaults):
            self.defaults[p.arg] = d
        for p, d in zip(a.kwonlyargs, a.kw_defaults):
            if d is not None:
                self.defaults[p.arg] = d

    @property
    def file(self):
        return self.mod.path

    @property
    def body(self):
        """Statements without the docstring."""
        b = self.node.body
        if b and isinstance(b[0], ast.Expr) and isinstance(b[0].value, ast.Constant) and isinstance(b[0].value.value, str):
            return b[1:]
        return b

    @property
    def self_name(self):
        if self.cls and not self.is_static and self.params:
            return self.params[0]
        return None

    def own_params(self):
        """Positional parameters without the receiver."""
        if self.self_name:
            return self.params[1:]
        return list(self.params)

    def walk(self):
        """All nodes of the body, not descending into nested defs."""
        stack = list(reversed(self.body))
        while stack:
            n = stack.pop()
            yield n
            if isinstance(n, (ast.FunctionDef, ast.AsyncFunctionDef, ast.ClassDef, ast.Lambda)):
                continue        # a nested definition is a statement of this function; its body is not
            for c in reversed(list(ast.iter_child_nodes(n))):
                if isinstance(c, (ast.FunctionDef, ast.AsyncFunctionDef, ast.ClassDef, ast.Lambda)):
                    continue
                stack.append(c)

    def __repr__(self):
        return '<Func %s>' % self.qual


class Cls:
    def __init__(self, mod, node):
        self.mod = mod
        self.node = node
        self.name = node.name
        self.bases = [norm(b) for b in node.bases]
        self.methods = {}
        self.assigns = []  # class-body assignments in order: (name, value node, stmt)
        for st in node.body:
            if isinstance(st, ast.FunctionDef):
                self.methods[st.name] = Func(mod, node.name, st)
            elif isinstance(st, ast.Assign) and len(st.targets) == 1 and isinstance(st.targets[0], ast.Name):
                self.assigns.append((st.targets[0].id, st.value, st))
            elif isinstance(st, ast.AnnAssign) and isinstance(st.target, ast.Name) and st.value is not None:
                self.assigns.append((st.target.id, st.value, st))


class Roles:
    """Semantic roles (DESIGN section 1).  Resolved structurally; today's names are only a fallback."""
    pass


class Model:
    def __init__(self, repo='/repo', overrides=None):
        """overrides: {module name: source text} used by the sensitivity audit (in-memory variants)."""
        self.repo = repo
        self.pkg = os.path.join(repo, PKG_REL)
        self.mods = {}
        self.classes = {}
        self.funcs = {}
        self.consts = {}   # module name -> list of (name, value node, stmt) for module-level simple assignments
        overrides = overrides or {}
        if not os.path.isdir(self.pkg):
            raise AnalysisError('package directory missing: %s' % self.pkg)
        names = sorted(f[:-3] for f in os.listdir(self.pkg) if f.endswith('.py'))
        for name in names:
            path = os.path.join(self.pkg, name + '.py')
            if name in overrides:
                src = overrides[name]
            else:
                with open(path, encoding='utf-8') as fh:
                    src = fh.read()
            try:
                self.mods[name] = Mod(name, path, src)
            except SyntaxError as e:
                raise AnalysisError('cannot parse %s: %s' % (path, e))
        # behaviour-preserving pre-pass: renamed / newly extracted private helpers (sa/inline.py)
        from .inline import Inliner
        self.prepass_log = []
        if os.environ.get('SA_NOINLINE') != '1':
            try:
                self.prepass_log = Inliner({n: m.tree for n, m in self.mods.items()}).run()
            except RecursionError:      # pragma: no cover
                raise AnalysisError('inliner recursion')
        for mod in self.mods.values():
            mod.set_parents()
        for name, mod in self.mods.items():
            self.consts[name] = []
            for st in mod.tree.body:
                if isinstance(st, ast.ClassDef):
                    c = Cls(mod, st)
                    self.classes[c.name] = c
                    for f in c.methods.values():
                        self.funcs[f.qual] = f
                elif isinstance(st, ast.FunctionDef):
                    f = Func(mod, None, st)
                    self.funcs[f.qual] = f
                elif isinstance(st, ast.Assign) and len(st.targets) == 1 and isinstance(st.targets[0], ast.Name):
                    self.consts[name].append((st.targets[0].id, st.value, st))
                elif isinstance(st, ast.AnnAssign) and isinstance(st.target, ast.Name) and st.value is not None:
                    self.consts[name].append((st.target.id, st.value, st))
        self.roles = self._resolve_roles()
        self.stats = self._stats()

    # -- lookups ---------------------------------------------------------------------------------------
    def fn(self, qual):
        f = self.funcs.get(qual)
        if f is None:
            raise AnalysisError('anchor vanished: function %s' % qual)
        return f

    def has(self, qual):
        return qual in self.funcs

    def cls(self, name):
        c = self.classes.get(name)
        if c is None:
            raise AnalysisError('anchor vanished: class %s' % name)
        return c

    def mod(self, name):
        m = self.mods.get(name)
        if m is None:
            raise AnalysisError('anchor vanished: module %s' % name)
        return m

    def const(self, modname, name):
        """Last module-level assignment of `name` in module (value node) or None."""
        out = None
        for n, v, _ in self.consts.get(modname, []):
            if n == name:
                out = v
        return out

    def public_methods(self, clsname):
        c = self.cls(clsname)
        return {n: f for n, f in c.methods.items() if not n.startswith('_') or (n.startswith('__') and n.endswith('__'))}

    # -- roles -----------------------------------------------------------------------------------------
    def _resolve_roles(self):
        R = Roles()
        A = self.classes.get('AnsiString')
        if A is None:
            raise AnalysisError('anchor vanished: class AnsiString')
        R.STRING = 'AnsiString'
        R.STR = 'AnsiStr'
        init = A.methods.get('__init__')
        if init is None:
            raise AnalysisError('anchor vanished: AnsiString.__init__')
        selfn = init.self_name
        # TEXT: the attribute returned by the base_str property; TABLE: attribute initialised with {} in __init__
        text = None
        bs = A.methods.get('base_str')
        if bs is not None:
            for n in bs.walk():
                if isinstance(n, ast.Return) and isinstance(n.value, ast.Attribute) and isinstance(n.value.value, ast.Name) \
                        and n.value.value.id == bs.self_name:
                    text = n.value.attr
        table = None
        for n in init.walk():
            tgt = val = None
            if isinstance(n, ast.Assign) and len(n.targets) == 1:
                tgt, val = n.targets[0], n.value
            elif isinstance(n, ast.AnnAssign):
                tgt, val = n.target, n.value
            if isinstance(tgt, ast.Attribute) and isinstance(tgt.value, ast.Name) and tgt.value.id == selfn:
                if isinstance(val, ast.Dict) and not val.keys and table is None:
                    table = tgt.attr
                if text is None and isinstance(val, ast.Constant) and val.value == '':
                    text = tgt.attr
        R.TEXT = text or '_s'
        R.TABLE = table or '_fmts'
        # POINT: the class constructed into TABLE in __init__
        point = None
        for n in init.walk():
            if isinstance(n, ast.Assign) and len(n.targets) == 1 and isinstance(n.targets[0], ast.Subscript):
                t = n.targets[0]
                if isinstance(t.value, ast.Attribute) and t.value.attr == R.TABLE and isinstance(n.value, ast.Call) \
                        and isinstance(n.value.func, ast.Name) and n.value.func.id in self.classes:
                    point = n.value.func.id
        R.POINT = point or '_AnsiSettingPoint'
        if R.POINT not in self.classes:
            raise AnalysisError('role POINT unresolved')
        # ITERATOR: class whose __next__ returns a 3-tuple (key, table[key], own list)
        iterator = None
        for c in self.classes.values():
            nx = c.methods.get('__next__')
            if nx is None:
                continue
            for n in nx.walk():
                if isinstance(n, ast.Return) and isinstance(n.value, ast.Tuple) and len(n.value.elts) == 3:
                    iterator = c.name
        R.ITERATOR = iterator or '_AnsiSettingsIterator'
        if R.ITERATOR not in self.classes:
            raise AnalysisError('role ITERATOR unresolved')
        # START / STOP from the iterator's __next__: START is the attribute the active list is extended with,
        # STOP the attribute walked in the `for` that removes by identity
        start = stop = active = None
        nx = self.classes[R.ITERATOR].methods['__next__']
        for n in nx.walk():
            if isinstance(n, ast.For) and isinstance(n.iter, ast.Attribute):
                stop = n.iter.attr
            if isinstance(n, ast.AugAssign) and isinstance(n.op, ast.Add) and isinstance(n.value, ast.Attribute) \
                    and isinstance(n.target, ast.Attribute):
                start = n.value.attr
                active = n.target.attr
            if isinstance(n, ast.Call) and isinstance(n.func, ast.Attribute) and n.func.attr == 'extend' \
                    and isinstance(n.func.value, ast.Attribute) and n.args and isinstance(n.args[0], ast.Attribute):
                start = n.args[0].attr
                active = n.func.value.attr
        R.START = start or 'add'
        R.STOP = stop or 'rem'
        R.ACTIVE = active or 'current_settings'
        # NORMALISE: AnsiString method with params (val, default) called by apply_formatting
        normalise = None
        for f in A.methods.values():
            ps = f.own_params()
            if len(ps) == 2 and f.name.startswith('_'):
                rets = [n for n in f.walk() if isinstance(n, ast.Return)]
                if any(isinstance(r.value, ast.Name) and r.value.id == ps[1] for r in rets):
                    normalise = f.name
        R.NORMALISE = normalise or '_slice_val_to_idx'
        # IDFIND: static helpers whose loop compares with `is`
        idfind = []
        for f in A.methods.values():
            if f.is_static and any(isinstance(n, ast.Compare) and any(isinstance(o, ast.Is) for o in n.ops) for n in f.walk()) \
                    and any(isinstance(n, ast.For) for n in f.walk()):
                idfind.append(f.name)
        pinned = [n for n in ('_find_setting_reference', '_find_settings_references') if n in A.methods]
        if len(pinned) == 2:
            R.IDFIND = sorted(pinned)      # (renamed helpers were already mapped back to these names by the pre-pass)
        else:
            idfind = [n for n in idfind if len(A.methods[n].params) == 2 and
                      all(all(isinstance(o, ast.Is) for o in c.ops) for c in A.methods[n].walk() if isinstance(c, ast.Compare))]
            R.IDFIND = sorted(set(idfind) | set(pinned))
        # the single-result helper (returns an int) vs. the pair-list helper
        R.IDFIND1 = None
        R.IDFINDN = None
        for nme in R.IDFIND:
            f = A.methods.get(nme)
            if f is None:
                continue
            rets = [n for n in f.walk() if isinstance(n, ast.Return)]
            if any(isinstance(r.value, ast.UnaryOp) or (isinstance(r.value, ast.Constant) and r.value.value == -1) for r in rets):
                R.IDFIND1 = nme
            else:
                R.IDFINDN = nme
        R.IDFIND1 = R.IDFIND1 or '_find_setting_reference'
        R.IDFINDN = R.IDFINDN or '_find_settings_references'
        # SCRUB: static method of POINT with a `make_unique`-like flag that returns a list and recurses
        P = self.classes[R.POINT]
        scrub = None
        for f in P.methods.values():
            if f.is_static and len(f.params) >= 2 and any(
                    isinstance(n, ast.Call) and isinstance(n.func, ast.Attribute) and n.func.attr == f.name for n in f.walk()):
                scrub = f.name
        R.SCRUB = scrub or '_scrub_ansi_settings'
        # WRAPPED: attribute set on the instance in AnsiStr.__new__
        wrapped = None
        S = self.classes.get('AnsiStr')
        if S is not None and '__new__' in S.methods:
            for n in S.methods['__new__'].walk():
                if isinstance(n, ast.Assign) and len(n.targets) == 1 and isinstance(n.targets[0], ast.Attribute) \
                        and isinstance(n.targets[0].value, ast.Name) and n.targets[0].value.id != 'cls':
                    wrapped = n.targets[0].attr
        R.WRAPPED = wrapped or '_s'
        return R

    def _stats(self):
        calls = 0
        resolved = 0
        known = set(self.funcs) | set(self.classes)
        simple = {f.name for f in self.funcs.values()}
        for m in self.mods.values():
            for n in ast.walk(m.tree):
                if isinstance(n, ast.Call):
                    calls += 1
                    f = n.func
                    nm = f.id if isinstance(f, ast.Name) else f.attr if isinstance(f, ast.Attribute) else None
                    if nm in simple or nm in self.classes:
                        resolved += 1
        return {
            'modules': sorted(self.mods),
            'module_digests': {k: v.digest for k, v in sorted(self.mods.items())},
            'functions': len(self.funcs),
            'classes': len(self.classes),
            'call_sites': calls,
            'call_sites_resolved_in_package': resolved,
        }


# -- small AST helpers shared by the rules --------------------------------------------------------------

def is_name(n, ident=None):
    return isinstance(n, ast.Name) and (ident is None or n.id == ident)


def is_attr(n, base=None, attr=None):
    """n is `<base>.<attr>` with base a Name."""
    return isinstance(n, ast.Attribute) and (attr is None or n.attr == attr) and \
        (base is None or (isinstance(n.value, ast.Name) and n.value.id == base))


def call_name(n):
    """Simple name of the callee of a Call (attribute or name) or None."""
    if not isinstance(n, ast.Call):
        return None
    f = n.func
    if isinstance(f, ast.Name):
        return f.id
    if isinstance(f, ast.Attribute):
        return f.attr
    return None


def const_val(n, default=None):
    if isinstance(n, ast.Constant):
        return n.value
    if isinstance(n, ast.UnaryOp) and isinstance(n.op, ast.USub) and isinstance(n.operand, ast.Constant) \
            and isinstance(n.operand.value, (int, float)):
        return -n.operand.value
    return default


def parent_chain(n):
    while getattr(n, '_parent', None) is not None:
        n = n._parent
        yield n


def enclosing_stmt(n):
    while not isinstance(n, ast.stmt):
        n = n._parent
    return n


def flatten_add(n):
    """Flatten a left-assoc chain of `+` into its operands."""
    if isinstance(n, ast.BinOp) and isinstance(n.op, ast.Add):
        return flatten_add(n.left) + flatten_add(n.right)
    return [n]


def names_in(n):
    return {x.id for x in ast.walk(n) if isinstance(x, ast.Name)}

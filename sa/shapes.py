"""Shape matchers (DESIGN 2.1 layer 8): delegation templates, the in-place switch idiom, call binding."""
import ast

from .model import norm, call_name, const_val, is_attr, is_name


def straight_env(stmts):
    """For a straight-line prefix of simple `name = expr` assignments (each name assigned once, not reassigned later in the
    function), return ({name: expr}, remaining statements)."""
    env = {}
    rest = list(stmts)
    while rest:
        st = rest[0]
        if isinstance(st, ast.Assign) and len(st.targets) == 1 and isinstance(st.targets[0], ast.Name) \
                and not isinstance(st.value, (ast.Call,)) and st.targets[0].id not in env:
            env[st.targets[0].id] = st.value
            rest.pop(0)
        else:
            break
    return env, rest


def subst(expr, env):
    """Substitute names by their single-assignment expressions (pure expressions only)."""
    if not env:
        return expr

    from .model import astcopy
    depth = [0]

    class T(ast.NodeTransformer):
        def visit_Name(self, n):
            if isinstance(n.ctx, ast.Load) and n.id in env and depth[0] < 6:
                depth[0] += 1
                try:
                    return self.visit(astcopy(env[n.id]))
                finally:
                    depth[0] -= 1
            return n
    return T().visit(astcopy(expr))


def bind_call(call, callee):
    """Bind the arguments of `call` to the parameters of Func `callee` (receiver excluded).
    Returns (dict param -> arg node, list of problems).  *args / **kwargs in the call are recorded under '*' / '**'."""
    params = callee.own_params()
    bound, problems = {}, []
    pos = list(call.args)
    i = 0
    for a in pos:
        if isinstance(a, ast.Starred):
            bound['*'] = a.value
            continue
        if i < len(params):
            bound[params[i]] = a
        elif callee.vararg:
            bound.setdefault('*extra', []).append(a)
        else:
            problems.append('too many positional arguments')
        i += 1
    for k in call.keywords:
        if k.arg is None:
            bound['**'] = k.value
        elif k.arg in params or k.arg in callee.kwonly:
            if k.arg in bound:
                problems.append('parameter %s bound twice' % k.arg)
            bound[k.arg] = k.value
        elif callee.kwarg:
            bound[k.arg] = k.value
        else:
            problems.append('unknown keyword %s' % k.arg)
    return bound, problems


def inplace_switch(stmts, self_name, flag='inplace'):
    """Recognise the in-place switch at the head of `stmts`:
           if <flag>: X = self  else: X = self.copy()        (either order, `not flag` accepted)
           X = self if <flag> else self.copy()
       Returns (X, remaining statements, problems) or (None, stmts, None) when the head is something else."""
    if not stmts:
        return None, stmts, None
    st = stmts[0]

    def is_self(e):
        return is_name(e, self_name)

    def is_copy(e):
        return isinstance(e, ast.Call) and not e.args and not e.keywords and isinstance(e.func, ast.Attribute) and \
            e.func.attr == 'copy' and is_name(e.func.value, self_name)

    def is_ctor_copy(e):
        return isinstance(e, ast.Call) and call_name(e) == 'AnsiString' and len(e.args) == 1 and is_self(e.args[0]) and not e.keywords

    def flag_pol(t):
        if is_name(t, flag):
            return True
        if isinstance(t, ast.UnaryOp) and isinstance(t.op, ast.Not) and is_name(t.operand, flag):
            return False
        return None
    if isinstance(st, ast.If) and len(st.body) == 1 and len(st.orelse) == 1:
        pol = flag_pol(st.test)
        a, b = st.body[0], st.orelse[0]
        if pol is not None and all(isinstance(x, ast.Assign) and len(x.targets) == 1 and isinstance(x.targets[0], ast.Name) for x in (a, b)) \
                and a.targets[0].id == b.targets[0].id:
            t_val, f_val = (a.value, b.value) if pol else (b.value, a.value)
            problems = []
            if not is_self(t_val):
                problems.append('the in-place arm binds %s, not the receiver' % norm(t_val))
            if not (is_copy(f_val) or is_ctor_copy(f_val)):
                problems.append('the copy arm binds %s, not a copy of the receiver' % norm(f_val))
            return a.targets[0].id, stmts[1:], problems
    if isinstance(st, ast.Assign) and len(st.targets) == 1 and isinstance(st.targets[0], ast.Name) and isinstance(st.value, ast.IfExp):
        pol = flag_pol(st.value.test)
        if pol is not None:
            t_val, f_val = (st.value.body, st.value.orelse) if pol else (st.value.orelse, st.value.body)
            problems = []
            if not is_self(t_val):
                problems.append('the in-place arm binds %s, not the receiver' % norm(t_val))
            if not (is_copy(f_val) or is_ctor_copy(f_val)):
                problems.append('the copy arm binds %s, not a copy of the receiver' % norm(f_val))
            return st.targets[0].id, stmts[1:], problems
    return None, stmts, None


def attr_writes(func, base=None):
    """Attribute names assigned (obj.attr = / obj.attr op=) in the function, optionally only on Name `base`."""
    out = set()
    for n in func.walk():
        tgts = []
        if isinstance(n, ast.Assign):
            tgts = n.targets
        elif isinstance(n, (ast.AugAssign, ast.AnnAssign)):
            tgts = [n.target]
        for t in tgts:
            for x in ([t] if not isinstance(t, (ast.Tuple, ast.List)) else t.elts):
                if isinstance(x, ast.Attribute) and (base is None or is_name(x.value, base)):
                    out.add(x.attr)
    return out


def single_return(func):
    """If the body is (optionally straight-line pure assignments then) a single `return expr`, return the inlined expr."""
    env, rest = straight_env(func.body)
    if len(rest) == 1 and isinstance(rest[0], ast.Return) and rest[0].value is not None:
        return subst(rest[0].value, env), rest[0]
    return None, None


def args_are_params(call, params, allow_keywords=True):
    """The call passes exactly `params` (names) in order, positionally or by same-named keyword.
    Returns list of problems (empty == exact)."""
    problems = []
    got = []
    for a in call.args:
        got.append(norm(a))
    kw = {k.arg: norm(k.value) for k in call.keywords}
    pos_n = len(call.args)
    for i, p in enumerate(params):
        if i < pos_n:
            if got[i] != p:
                problems.append('argument %d is %s, expected parameter %s' % (i + 1, got[i], p))
        elif allow_keywords and p in kw:
            if kw[p] != p:
                problems.append('keyword %s=%s, expected the parameter %s itself' % (p, kw[p], p))
        else:
            problems.append('parameter %s is not passed on' % p)
    if pos_n > len(params):
        problems.append('%d extra positional argument(s): %s' % (pos_n - len(params), ', '.join(got[len(params):])))
    for k in kw:
        if k not in params:
            problems.append('extra keyword %s=%s' % (k, kw[k]))
    return problems


# ------------------------------------------------------------------------------------------------------------------
# robustness helpers: local aliases, helper following, quantifier normal form

def local_aliases(func):
    """{local: expression} for locals that are assigned exactly once and only name another value: an attribute chain, a
    subscript of one, `len(<chain>)`, a plain name, an element of a module constant (tuple unpacking `a, b = CONST`), or
    `<table>.setdefault(k, <fresh>)`.  Used to compare *texts* modulo hoisting / caching of sub-expressions."""
    counts = {}
    cand = {}

    def chainlike(e):
        if isinstance(e, ast.Name):
            return True
        if isinstance(e, ast.Attribute):
            return chainlike(e.value)
        if isinstance(e, ast.Subscript) and not isinstance(e.slice, ast.Slice):
            return chainlike(e.value) and isinstance(e.slice, (ast.Name, ast.Constant, ast.BinOp, ast.Attribute, ast.Call))
        if isinstance(e, ast.Call) and call_name(e) in ('len', 'ord', 'str') and len(e.args) == 1 and isinstance(e.func, ast.Name):
            return chainlike(e.args[0])
        if isinstance(e, ast.Call) and call_name(e) == 'setdefault' and isinstance(e.func, ast.Attribute):
            return chainlike(e.func.value)
        if isinstance(e, ast.Call) and isinstance(e.func, ast.Attribute) and isinstance(e.func.value, ast.Name) and e.func.attr.startswith('_') \
                and not e.func.attr.startswith('__') and not e.keywords and all(chainlike(a) for a in e.args) and len(e.args) <= 1:
            return True      # a private accessor: self._point_at(k)
        return False
    for n in func.walk():
        tgts = []
        if isinstance(n, ast.Assign):
            tgts = n.targets
        elif isinstance(n, (ast.AugAssign, ast.AnnAssign)):
            tgts = [n.target]
        elif isinstance(n, ast.For):
            tgts = [n.target]
        for t in tgts:
            for x in ast.walk(t):
                if isinstance(x, ast.Name) and isinstance(x.ctx, ast.Store):
                    counts[x.id] = counts.get(x.id, 0) + 1
        if isinstance(n, ast.Assign) and len(n.targets) == 1:
            t, v = n.targets[0], n.value
            if isinstance(t, ast.Name) and chainlike(v):
                if call_name(v) == 'setdefault':
                    v = ast.Subscript(value=v.func.value, slice=v.args[0], ctx=ast.Load())
                cand[t.id] = v
            elif isinstance(t, ast.Tuple) and isinstance(v, ast.Name) and all(isinstance(x, ast.Name) for x in t.elts):
                for i, x in enumerate(t.elts):
                    cand[x.id] = ast.Subscript(value=v, slice=ast.Constant(value=i), ctx=ast.Load())
    params = set(func.params) | set(func.kwonly)
    return {k: v for k, v in cand.items() if counts.get(k, 0) == 1 and k not in params}


def canon(node, aliases, depth=4):
    """Normalised text of `node` with local aliases expanded."""
    if node is None:
        return ''
    if isinstance(node, str):
        return node
    cur = node
    for _ in range(depth):
        nxt = subst(cur, aliases)
        if norm(nxt) == norm(cur):
            break
        cur = nxt
    return norm(cur)


def private_callees(model, func, depth=1):
    """Private helpers (leading underscore, same class or module level) that `func` calls, up to `depth` levels."""
    out = []
    seen = {func.qual}
    frontier = [func]
    for _ in range(depth):
        nxt = []
        for f in frontier:
            for n in f.walk():
                if not isinstance(n, ast.Call):
                    continue
                nm = call_name(n)
                if not nm or not nm.startswith('_') or nm.startswith('__'):
                    continue
                q = None
                if isinstance(n.func, ast.Attribute) and isinstance(n.func.value, ast.Name):
                    base = n.func.value.id
                    cls = f.cls if base in (f.self_name, '__class__', 'cls') else base if base in model.classes else None
                    if cls:
                        q = '%s.%s' % (cls, nm)
                elif isinstance(n.func, ast.Name):
                    q = nm
                g = model.funcs.get(q) if q else None
                if g is not None and g.qual not in seen:
                    seen.add(g.qual)
                    out.append(g)
                    nxt.append(g)
        frontier = nxt
    return out


def with_helpers(model, func, depth=1):
    return [func] + private_callees(model, func, depth)


def quantifier(node):
    """Recognise `for x in IT: if not P(x): return False ... return True` written with all()/any():
    returns (kind 'all'|'any', iter node, target node, predicate node, negated bool) or None.
    `not any(Q)` == all(not Q);  `not all(Q)` == any(not Q)."""
    neg = False
    e = node
    if isinstance(e, ast.UnaryOp) and isinstance(e.op, ast.Not):
        neg = True
        e = e.operand
    if isinstance(e, ast.Call) and call_name(e) in ('all', 'any') and len(e.args) == 1 and isinstance(e.args[0], (ast.GeneratorExp, ast.ListComp)):
        g = e.args[0]
        if len(g.generators) == 1 and not g.generators[0].ifs:
            kind = call_name(e)
            pred = g.elt
            if neg:
                kind = 'all' if kind == 'any' else 'any'
                pred = ast.UnaryOp(op=ast.Not(), operand=pred)
            return kind, g.generators[0].iter, g.generators[0].target, pred
    return None


def reject_predicate(func):
    """The per-element condition that makes a for-all check fail, from either spelling:
         for x in IT: if P(x): return False            -> (x, IT, P)
         ... = not any(P(x) for x in IT) / all(Q(x) for x in IT) / if not all(Q ...): return False   -> (x, IT, P)  with P = not Q
       Returns (target node, iter node, predicate node, anchor node) or None."""
    for n in func.walk():
        if isinstance(n, ast.For):
            for st in n.body:
                if isinstance(st, ast.If) and not st.orelse and any(isinstance(x, ast.Return) and const_val(x.value) is False for x in st.body):
                    return n.target, n.iter, st.test, st
    for n in func.walk():
        if isinstance(n, ast.UnaryOp) and isinstance(n.op, ast.Not) and isinstance(n.operand, ast.Call) and call_name(n.operand) in ('any', 'all'):
            q = quantifier(n)
            if q is None:
                continue
            kind, it, tgt, pred = q
            par = getattr(n, '_parent', None)
            if call_name(n.operand) == 'any':
                # not any(P): fails (False) iff some P
                return tgt, it, n.operand.args[0].elt, n
            # not all(Q): used as `if not all(Q): return False` -> fails iff some not Q
            return tgt, it, ast.UnaryOp(op=ast.Not(), operand=n.operand.args[0].elt), n
    for n in func.walk():
        # if any(P(x) for x in IT): return False
        if isinstance(n, ast.If) and not n.orelse and isinstance(n.test, ast.Call) and call_name(n.test) == 'any' and \
                any(isinstance(x, ast.Return) and const_val(x.value) is False for x in n.body):
            q = quantifier(n.test)
            if q is not None:
                kind, it, tgt, pred = q
                return tgt, it, pred, n
    for n in func.walk():
        if isinstance(n, ast.Call) and call_name(n) == 'all' and isinstance(getattr(n, '_parent', None), (ast.Assign, ast.Return)):
            q = quantifier(n)
            if q is not None:
                kind, it, tgt, pred = q
                return tgt, it, ast.UnaryOp(op=ast.Not(), operand=pred), n
    return None

"""Obligations, verdicts, known findings, evidence files (DESIGN section 2.2)."""
import ast
import json
import os
import time

from .model import AnalysisError, norm, short

OK, VIOL, UNDEC = 'DISCHARGED', 'VIOLATED', 'UNDECIDED'
VERIF = os.path.dirname(os.path.dirname(os.path.abspath(__file__)))


class Obl:
    __slots__ = ('rule', 'func', 'file', 'line', 'construct', 'status', 'msg', 'witness', 'exhaustive')

    def __init__(self, rule, func, file, line, construct, status, msg, witness=None):
        self.rule, self.func, self.file, self.line = rule, func, file, line
        self.construct, self.status, self.msg, self.witness = construct, status, msg, witness or []

    def key(self):
        return (self.rule, self.func, self.construct)

    def as_dict(self):
        d = {'rule': self.rule, 'function': self.func, 'file': self.file, 'line': self.line,
             'construct': self.construct, 'verdict': self.status, 'detail': self.msg}
        if self.witness:
            d['witness'] = self.witness
        return d


class RuleCtx:
    """Handed to a rule: records obligations."""

    def __init__(self, rule_id, model):
        self.rule = rule_id
        self.m = model
        self.obls = []

    def _where(self, where, node):
        """where: Func | Mod | None ; node: ast node | None -> (func, file, line, construct)"""
        func = getattr(where, 'qual', None) or ('<module %s>' % getattr(where, 'name', '?'))
        file = getattr(where, 'file', None) or getattr(where, 'path', None) or '?'
        if node is None:
            node = getattr(where, 'node', None)
        line = getattr(node, 'lineno', 0) if node is not None else 0
        return func, os.path.relpath(file, self.m.repo) if file != '?' else file, line

    def _add(self, status, where, node, construct, msg, witness=None):
        func, file, line = self._where(where, node)
        if construct is None:
            construct = short(node) if node is not None else ''
        self.obls.append(Obl(self.rule, func, file, line, construct, status, msg, witness))

    def ok(self, where, node, msg, construct=None):
        self._add(OK, where, node, construct, msg)

    def viol(self, where, node, msg, construct=None, witness=None):
        self._add(VIOL, where, node, construct, msg, witness)

    def undecided(self, where, node, msg, construct=None):
        self._add(UNDEC, where, node, construct, msg)

    def check(self, cond, where, node, msg_ok, msg_bad=None, construct=None, witness=None):
        if cond:
            self.ok(where, node, msg_ok, construct)
        else:
            self.viol(where, node, msg_bad or ('NOT: ' + msg_ok), construct, witness)
        return cond


RULES = {}


def rule(rule_id, title, floor=1):
    def deco(fn):
        RULES[rule_id] = (fn, title, floor)
        fn.rule_id = rule_id
        return fn
    return deco


def run_rule(rule_id, model):
    fn, title, floor = RULES[rule_id]
    ctx = RuleCtx(rule_id, model)
    fn(model, ctx)
    return ctx.obls


# -- known findings ----------------------------------------------------------------------------------

def load_known():
    path = os.path.join(VERIF, 'known_findings.json')
    if not os.path.exists(path):
        return {'open': [], 'fixed': []}
    with open(path) as fh:
        return json.load(fh)


def match_known(ob, prop, known):
    for e in known.get('open', []):
        if prop in e.get('properties', [e.get('property')]) and e['rule'] == ob.rule and e['function'] == ob.func \
                and e['construct'] == ob.construct:
            return e
    return None


# -- evidence -----------------------------------------------------------------------------------------

def write_evidence(prop, tier, seed, model, rules_run, obls, known_hits, violations, wall, extra=None, errors=None):
    n_ok = sum(1 for o in obls if o.status == OK)
    per_rule = {}
    for o in obls:
        d = per_rule.setdefault(o.rule, {'title': RULES[o.rule][1], 'floor': RULES[o.rule][2],
                                         'obligations': 0, 'discharged': 0, 'violated': 0, 'undecided': 0})
        d['obligations'] += 1
        d['discharged' if o.status == OK else 'violated' if o.status == VIOL else 'undecided'] += 1
    samples = []
    seen_rules = set()
    for o in obls:  # one sample per rule first, then every non-discharged one
        if o.rule not in seen_rules:
            seen_rules.add(o.rule)
            samples.append(o.as_dict())
    for o in obls:
        if o.status != OK:
            samples.append(o.as_dict())
    distinct = len({o.key() for o in obls})
    cov = {
        'explanation': (
            'Static analysis of %s (ast; the package is parsed, never imported or executed). Rules %s were armed for %s; '
            'each generates obligations from the current source; an obligation is DISCHARGED, VIOLATED (positive witness '
            'construct) or UNDECIDED (shape outside the rule\'s idiom table -> exit 2). See DESIGN.md sections 3-4 for what '
            'each rule decides and which clauses of the property stay undecided.' % (model.pkg, ', '.join(rules_run), prop)),
        'obligations': len(obls),
        'discharged': n_ok,
        'evaluations': len(obls),
        'distinct_nontrivial': distinct,
        'rule': 'one obligation per (rule, function, construct) instance found in the current source; distinct = distinct keys',
        'samples': samples[:60],
        'per_rule': per_rule,
        'parsed': model.stats,
        'known_findings_matched': [k for k in known_hits],
        'checker_cmd': '/venv/bin/python -m sa.check %s --tier %s' % (prop, tier),
        'exhaustive': False,
    }
    if extra:
        cov.update(extra)
    if errors:
        cov['analysis_errors'] = errors
    ev = {
        'property_id': prop, 'tier': tier, 'seed': seed, 'level': 'other', 'coverage': cov,
        'assumptions': [
            'documented argument types are assumed (DESIGN 2.3)',
            'no reflection: the package uses hasattr() three times and no getattr/setattr/eval/exec (checked by rule M0 on every run)',
            'Python call/attribute semantics; str methods behave as CPython documents',
            'the rules decide the clauses listed under "decided" for this property in DESIGN.md section 4, not the whole behaviour',
        ],
        'wall_s': round(wall, 3),
        'violations': violations,
    }
    os.makedirs(os.path.join(VERIF, 'evidence'), exist_ok=True)
    path = os.path.join(VERIF, 'evidence', prop + '.json')
    with open(path, 'w') as fh:
        json.dump(ev, fh, indent=1, sort_keys=True)
    return path


def write_finding(prop, idx, ob, repo):
    d = os.path.join(VERIF, 'evidence', 'findings')
    os.makedirs(d, exist_ok=True)
    path = os.path.join(d, '%s-%s-%d.json' % (prop, ob.rule, idx))
    rec = ob.as_dict()
    rec['property'] = prop
    rec['repo'] = repo
    rec['rerun'] = '/venv/bin/python -m sa.check %s --tier quick --only %s' % (prop, ob.rule)
    with open(path, 'w') as fh:
        json.dump(rec, fh, indent=1, sort_keys=True)
    return path

"""Parsing side: P2 token conservation, F1 byte classes, P11 state threading, P19 erroneous paths, F6 dict diff, F7 dispatch."""
import ast
import re

from ..model import AnalysisError, norm, short, call_name, const_val, flatten_add, is_attr, is_name, names_in
from ..report import rule
from ..consteval import get_folder, Unfoldable, EnumRef
from ..cfg import CFG, paths, PathExplosion, default_transfer
from ..finite import (eval_guard, flag_valuation, order_valuation, run_block, Undecided, cmp_regions, region_table,
                      evaluated_atoms, merge_valuations)
from ..shapes import bind_call, subst
from .P import _parents, _path_text


def _fold_is(F, node, value):
    try:
        return F.fold(node) == value
    except Unfoldable:
        return False


@rule('P2', 'token-conservation: whatever the tokenizer\'s cursor steps over is stored (text, parameters, final byte) and a CSI is '
            'either recorded or put back whole', floor=5)
def P2(m, R):
    """One iteration of the scan loop is executed symbolically on every path (inner scan 0, 1, 2 steps): the cursor is a linear form over
    its value c at the start of the iteration, every string local is a list of pieces -- slices s[lo:hi] of the input, or the CSI
    constant.  At the end of the iteration the pieces added to the text, or handed to the recorded sequence, must tile exactly
    [c, cursor) in order; every read s[k] must be covered by a `k < len(s)` test on the path."""
    F = get_folder(m)
    from .P_more import Sym, _sym_eval
    from ..shapes import local_aliases, canon
    f = m.fn('ParsedAnsiControlSequenceString.__init__')
    s = f.own_params()[0]
    allow, acc = f.own_params()[1:3]
    outer = next((n for n in f.body if isinstance(n, ast.While)), None)
    if outer is None:
        raise AnalysisError('anchor vanished: tokenizer scan loop')
    ali = local_aliases(f)

    def cn(e):
        return canon(e, ali)
    LEN = 'len(%s)' % s
    t = outer.test
    cur = None
    if isinstance(t, ast.Compare) and len(t.ops) == 1 and cn(t.comparators[0]) == LEN and isinstance(t.left, ast.Name):
        cur = t.left.id
    if cur is None:
        R.undecided(f, outer, 'scan loop test %s' % short(t), construct='scan loop')
        return
    regs = cmp_regions(t.ops[0])
    R.check(regs == {'<'}, f, outer, 'scan runs while %s < len(%s)' % (cur, s), 'scan runs while %s' % short(t), construct='scan loop')

    pre = f.body[:f.body.index(outer)]
    pre_strs, pre_ints, pre_lists = set(), set(), set()
    for st_ in pre:
        if isinstance(st_, ast.Assign) and len(st_.targets) == 1:
            if isinstance(st_.value, ast.Constant) and st_.value.value == '':
                pre_strs.add(norm(st_.targets[0]))
            elif isinstance(st_.value, ast.List) and not st_.value.elts and isinstance(st_.targets[0], ast.Name) and \
                    any(isinstance(x, ast.Call) and call_name(x) == 'join' and len(x.args) == 1 and is_name(x.args[0], st_.targets[0].id)
                        for y in f.body[f.body.index(outer) + 1:] for x in ast.walk(y)):
                # the text kept as a list of pieces that is joined after the scan: its length is the number of pieces
                pre_lists.add(st_.targets[0].id)
            elif isinstance(st_.value, ast.Constant) and isinstance(st_.value.value, int) and not isinstance(st_.value.value, bool) and isinstance(st_.targets[0], ast.Name) \
                    and norm(st_.targets[0]) != cur:
                pre_ints.add(st_.targets[0].id)

    def is_csi(e):
        return _fold_is(F, subst(e, ali) if not isinstance(e, str) else e, '\x1b[')
    LC = Sym({'LCSI': 1})

    class Bad(Exception):
        pass
    results = []         # (state, how)  how in 'next' (back at the loop head), 'exit'
    reads_unguarded = []

    def ival(e, st):
        """integer expression over the cursor"""
        e2 = subst(e, {k_: v_ for k_, v_ in ali.items() if k_ not in st['ints'] and k_ != cur})
        if isinstance(e2, ast.Name):
            if e2.id == cur:
                return st['cur']
            if e2.id in st['ints']:
                return st['ints'][e2.id]
            if e2.id in pre_ints:
                return Sym({'K:' + e2.id: 1})          # a counter kept across iterations: its value at the start of this one
            raise Undecided('integer %s' % e2.id)
        if isinstance(e2, ast.Call) and call_name(e2) == 'len' and len(e2.args) == 1 and isinstance(e2.func, ast.Name) and not is_csi(e2.args[0]) and \
                (norm(e2.args[0]) in st['strs'] or norm(e2.args[0]) in pre_strs):
            return plen(sval(e2.args[0], st, e2))
        if isinstance(e2, ast.Constant) and isinstance(e2.value, int) and not isinstance(e2.value, bool):
            return Sym(c=e2.value)
        if isinstance(e2, ast.Call) and call_name(e2) == 'len' and len(e2.args) == 1 and isinstance(e2.func, ast.Name) and isinstance(e2.args[0], ast.Name) and \
                e2.args[0].id in pre_lists:
            return Sym({'K:#' + e2.args[0].id: 1}) + Sym(c=st['ints'].get('#' + e2.args[0].id, 0))
        if isinstance(e2, ast.Call) and call_name(e2) == 'len' and len(e2.args) == 1 and is_csi(e2.args[0]):
            return LC
        if isinstance(e2, ast.BinOp) and isinstance(e2.op, (ast.Add, ast.Sub)):
            a_, b_ = ival(e2.left, st), ival(e2.right, st)
            return a_ + b_ if isinstance(e2.op, ast.Add) else a_ - b_
        raise Undecided('integer expression %s' % short(e))

    def plen(pieces):
        tot = Sym(c=0)
        for p_ in pieces:
            tot = tot + (LC if p_ == ('CSI',) else Sym({'T:' + p_[1]: 1}) if p_[0] == 'BASE' else (p_[2] - p_[1]))
        return tot

    def sval(e, st, node):
        """string expression -> list of pieces"""
        if isinstance(e, ast.Constant) and e.value == '':
            return []
        if isinstance(e, ast.Name) and e.id in st['strs']:
            return list(st['strs'][e.id])
        if isinstance(e, ast.Name) and e.id in pre_strs:
            return [('BASE', e.id)]
        if is_csi(e):
            return [('CSI',)]
        if isinstance(e, ast.Attribute) and norm(e) in st['strs']:
            return list(st['strs'][norm(e)])
        if isinstance(e, ast.Attribute) and norm(e) in pre_strs:
            return [('BASE', norm(e))]            # what the attribute held when the iteration began
        if isinstance(e, ast.BinOp) and isinstance(e.op, ast.Add):
            return sval(e.left, st, node) + sval(e.right, st, node)
        if isinstance(e, ast.Subscript) and norm(e.value) == s:
            if isinstance(e.slice, ast.Slice):
                if e.slice.step is not None:
                    raise Undecided('slice %s' % short(e))
                lo = ival(e.slice.lower, st) if e.slice.lower is not None else Sym(c=0)
                if e.slice.upper is None:
                    raise Undecided('open slice %s' % short(e))
                return [('S', lo, ival(e.slice.upper, st))]
            k_ = ival(e.slice, st)
            if k_.key() not in st['lt_len']:
                reads_unguarded.append((node, short(e)))
            return [('S', k_, k_ + Sym(c=1))]
        raise Undecided('string expression %s' % short(e))

    def clone(st):
        c = dict(st)
        for k_ in ('ints', 'strs'):
            c[k_] = dict(st[k_])
        c['lt_len'] = set(st['lt_len'])
        c['text'] = list(st['text'])
        c['records'] = list(st['records'])
        c['loops'] = dict(st['loops'])
        return c
    text_names = set()

    def truth(t_, st):
        """what a test tells: returns None (unknown -> both ways); records facts through `learn`"""
        return None

    def struth(t_, st):
        """truthiness of a string local whose pieces are known: non-empty iff it holds at least one input character / the introducer"""
        if isinstance(t_, ast.UnaryOp) and isinstance(t_.op, ast.Not):
            v_ = struth(t_.operand, st)
            return None if v_ is None else not v_
        if isinstance(t_, ast.Name) and t_.id in st['strs'] and t_.id not in pre_strs:
            pcs = st['strs'][t_.id]
            if not pcs:
                return False
            if any(p_ == ('CSI',) or (p_[0] == 'S' and (p_[2] - p_[1]) == Sym(c=1)) for p_ in pcs):
                return True
        return None

    def learn(t_, outcome, st):
        if isinstance(t_, ast.BoolOp):
            if isinstance(t_.op, ast.And) and outcome:
                for v_ in t_.values:
                    learn(v_, True, st)
            if isinstance(t_.op, ast.Or) and not outcome:
                for v_ in t_.values:
                    learn(v_, False, st)
            return
        if isinstance(t_, ast.UnaryOp) and isinstance(t_.op, ast.Not):
            learn(t_.operand, not outcome, st)
            return
        if isinstance(t_, ast.Compare) and len(t_.ops) == 1:
            l_, r_, op = t_.left, t_.comparators[0], t_.ops[0]
            # k < len(s)
            if cn(r_) == LEN and isinstance(op, (ast.Lt, ast.GtE)):
                try:
                    k_ = ival(l_, st)
                except Undecided:
                    return
                if (isinstance(op, ast.Lt) and outcome) or (isinstance(op, ast.GtE) and not outcome):
                    st['lt_len'].add(k_.key())
                return
            # s[a:b] == CSI
            for x_, y_ in ((l_, r_), (r_, l_)):
                if is_csi(y_) and isinstance(x_, ast.Subscript) and isinstance(x_.slice, ast.Slice) and norm(x_.value) == s and isinstance(op, (ast.Eq, ast.NotEq)):
                    try:
                        lo = ival(x_.slice.lower, st)
                        hi = ival(x_.slice.upper, st)
                    except Undecided:
                        return
                    if (hi - lo) == LC and ((isinstance(op, ast.Eq) and outcome) or (isinstance(op, ast.NotEq) and not outcome)):
                        st['csi_at'].add(lo.key())
                    return
            if isinstance(x_ := l_, ast.Call) and call_name(l_) == 'startswith':
                return
        if isinstance(t_, ast.Call) and call_name(t_) == 'startswith' and isinstance(t_.func, ast.Attribute) and norm(t_.func.value) == s and len(t_.args) == 2 and \
                is_csi(t_.args[0]) and outcome:
            try:
                st['csi_at'].add(ival(t_.args[1], st).key())
            except Undecided:
                pass

    def run(stmts, st, k):
        if not stmts:
            return k(st)
        s0, rest = stmts[0], stmts[1:]
        if isinstance(s0, ast.If):
            tv_ = struth(s0.test, st)
            for outcome in ((True, False) if tv_ is None else (tv_,)):
                s2 = clone(st)
                learn(s0.test, outcome, s2)
                run((s0.body if outcome else s0.orelse) + rest, s2, k)
            return
        if isinstance(s0, ast.While):
            n_ = st['loops'].get(id(s0), 0)
            # leave
            s2 = clone(st)
            learn(s0.test, False, s2)
            s2['loops'][id(s0)] = 0
            run(rest, s2, k)
            if n_ < 2:
                s3 = clone(st)
                learn(s0.test, True, s3)
                s3['loops'][id(s0)] = n_ + 1
                run(list(s0.body) + [s0] + rest, s3, k)
            return
        if isinstance(s0, ast.Continue):
            results.append((st, 'next'))
            return
        if isinstance(s0, (ast.Break, ast.Return)):
            results.append((st, 'exit'))
            return
        if isinstance(s0, ast.Raise):
            return
        if isinstance(s0, (ast.Assign, ast.AugAssign)):
            tgt = s0.targets[0] if isinstance(s0, ast.Assign) else s0.target
            tn = norm(tgt)
            val = s0.value
            if isinstance(s0, ast.AugAssign):
                if not isinstance(s0.op, (ast.Add, ast.Sub)):
                    raise Undecided('statement %s' % short(s0))
                val = ast.BinOp(left=tgt, op=s0.op, right=s0.value)
            if isinstance(tgt, ast.Name) and isinstance(s0, ast.Assign) and (
                    isinstance(val, (ast.BoolOp, ast.Compare)) or (isinstance(val, ast.UnaryOp) and isinstance(val.op, ast.Not)) or
                    (isinstance(val, ast.Constant) and isinstance(val.value, bool)) or (isinstance(val, ast.Call) and call_name(val) == 'bool')):
                return run(rest, st, k)          # a truth value kept in a local: no effect on cursor or pieces (read by the accept test below)
            if isinstance(val, ast.Call) and call_name(val) == 'AnsiControlSequence' and len(val.args) == 2 and isinstance(tgt, ast.Name):
                st['objs'] = dict(st.get('objs', {}))
                st['objs'][tn] = (sval(val.args[0], st, s0), sval(val.args[1], st, s0))
                return run(rest, st, k)
            if isinstance(val, ast.Call) and call_name(val) == 'len' and len(val.args) == 1 and isinstance(val.args[0], ast.Attribute) and isinstance(tgt, ast.Name):
                st['keys'] = dict(st.get('keys', {}))
                st['keys'][tn] = norm(val)
                return run(rest, st, k)
            # integer or string?
            is_int = tn == cur or tn in st['ints']
            if not is_int and tn not in st['strs']:
                try:
                    v_ = ival(val, st)
                    is_int = True
                except Undecided:
                    is_int = False
            if is_int:
                v_ = ival(val, st)
                if tn == cur:
                    st['cur'] = v_
                else:
                    st['ints'][tn] = v_
                return run(rest, st, k)
            if isinstance(tgt, ast.Subscript):
                # self.sequences[key] = [record]
                return run(rest, note_record(s0, st, key=tgt.slice), k)
            before = list(st['strs'].get(tn, [('BASE', tn)] if tn in pre_strs else []))
            pieces = sval(val, st, s0)
            st['strs'][tn] = pieces
            if tn in pre_strs:
                # the text accumulator (kept across iterations): what this iteration adds to it
                text_names.add(tn)
                if pieces[:len(before)] != before:
                    raise Undecided('the text is rebuilt, not extended: %s' % short(s0))
                st['text'].extend(pieces[len(before):])
            return run(rest, st, k)
        if isinstance(s0, ast.Expr):
            if isinstance(s0.value, ast.Constant):
                return run(rest, st, k)
            c0 = s0.value
            if isinstance(c0, ast.Call) and call_name(c0) == 'append' and isinstance(c0.func, ast.Attribute) and isinstance(c0.func.value, ast.Name) and \
                    c0.func.value.id in pre_lists and len(c0.args) == 1:
                # one more piece of text: the text grows by its characters, the list by one element
                text_names.add(c0.func.value.id)
                st['text'].extend(sval(c0.args[0], st, s0))
                st['ints']['#' + c0.func.value.id] = st['ints'].get('#' + c0.func.value.id, 0) + 1
                return run(rest, st, k)
            return run(rest, note_record(s0, st), k)
        raise Undecided('statement %s' % short(s0))

    def note_record(stn, st, key=None):
        rec = [x for x in ast.walk(stn) if isinstance(x, ast.Call) and call_name(x) == 'AnsiControlSequence']
        objs = st.get('objs', {})
        used = [x.id for x in ast.walk(stn) if isinstance(x, ast.Name) and x.id in objs]
        if not rec and not used:
            return st
        if rec:
            c_ = rec[0]
            if len(c_.args) != 2:
                raise Undecided('record %s' % short(c_))
            pr_, tm_ = sval(c_.args[0], st, stn), sval(c_.args[1], st, stn)
        else:
            pr_, tm_ = objs[used[0]]
        keyx = key
        for x in ast.walk(stn):
            if isinstance(x, ast.Call) and call_name(x) == 'setdefault' and x.args:
                keyx = x.args[0]
            elif isinstance(x, ast.Call) and call_name(x) == 'append' and isinstance(x.func.value, ast.Subscript):
                keyx = x.func.value.slice
        ktxt = None
        if keyx is not None:
            ktxt = st.get('keys', {}).get(norm(keyx), cn(keyx))
            try:
                kv = ival(keyx, st)
                names_ = [k_[2:] for k_ in kv.t if k_.startswith('K:')]
                if len(names_) == 1:
                    # a position counter: its value now, relative to the start of the iteration
                    ktxt = ('counter', names_[0], kv - Sym({'K:' + names_[0]: 1}), plen(st['text']))
            except Undecided:
                pass
        st['records'].append((pr_, tm_, ktxt, len(st['text'])))
        return st
    st0 = {'cur': Sym({'c': 1}), 'ints': {}, 'strs': {}, 'lt_len': {Sym({'c': 1}).key()}, 'csi_at': set(), 'text': [], 'records': [], 'loops': {}}
    # string locals that exist before the loop start empty as far as this iteration is concerned (the text attribute too)
    try:
        run(list(outer.body), st0, lambda st_: results.append((st_, 'next')))
    except Undecided as ex:
        R.undecided(f, outer, 'scan iteration not interpreted: %s' % ex, construct='token conservation')
        return
    except RecursionError:
        R.undecided(f, outer, 'scan iteration too deep', construct='token conservation')
        return
    # ---- verdicts
    counters_used = set()
    kinds = {'plain': [], 'recorded': [], 'put back': []}
    problems = {'plain': [], 'recorded': [], 'put back': []}
    C = Sym({'c': 1})
    for st_, how in results:
        if how != 'next':
            continue
        end = st_['cur']
        if st_['records']:
            kind = 'recorded'
            params, term, key, ntext = st_['records'][0]
            seq = [('CSI',)] + params + term
            if st_['text']:
                problems[kind].append('text is added in the same iteration that records a sequence')
            if len(st_['records']) != 1:
                problems[kind].append('%d sequences recorded in one iteration' % len(st_['records']))
            tn_ = sorted(text_names)[0] if text_names else None
            if isinstance(key, tuple) and key[0] == 'counter':
                counters_used.add(key[1])
                if key[2] != key[3]:
                    problems[kind].append('the record key %s has advanced by %r in this iteration while the text grew by %r' % (key[1], key[2], key[3]))
            elif key is None or tn_ is None or key != 'len(%s)' % tn_:
                problems[kind].append('the record key is %s, expected the length of the text so far' % (key,))
        else:
            seq = list(st_['text'])
            kind = 'put back' if any(p_ == ('CSI',) for p_ in seq) or (end - C).t.get('LCSI') else 'plain'
        kinds[kind].append(st_)
        pos = C
        ok = True
        for p_ in seq:
            if p_ == ('CSI',):
                if pos.key() not in st_['csi_at']:
                    problems[kind].append('the introducer is assumed at a position where it was not matched')
                    ok = False
                pos = pos + LC
            else:
                if p_[1] != pos:
                    problems[kind].append('the stored pieces skip or repeat input: a piece starts at %r where %r is expected (c = cursor at the start of the iteration)' % (p_[1], pos))
                    ok = False
                pos = p_[2]
        if ok and pos != end:
            problems[kind].append('the cursor ends at %r but the stored pieces end at %r: %s' % (end, pos, 'input is dropped' if True else ''))
        if end == C:
            problems[kind].append('an iteration leaves the cursor where it was (the scan would not terminate)')
    desc = {'plain': 'a character that does not start a sequence is copied to the text and the cursor moves past it',
            'recorded': 'a recorded sequence consists of exactly the input between the introducer and the cursor (parameters, then the final byte), under the key len(text)',
            'put back': 'a sequence that is not accepted goes back into the text whole: introducer, parameters, final byte'}
    for kind in ('plain', 'recorded', 'put back'):
        cons = 'conservation: ' + kind
        if not kinds[kind]:
            R.viol(f, outer, 'no path through the scan handles the case "%s"' % kind, construct=cons)
        else:
            pr_ = sorted(set(problems[kind]))
            R.check(not pr_, f, outer, desc[kind] + ' (%d paths)' % len(kinds[kind]), '; '.join(pr_[:2]), construct=cons)
    for cname in sorted(counters_used):
        # loop invariant of a position counter used as record key: counter == length of the text, preserved by every iteration
        drift = None
        for st_, how in results:
            if how != 'next':
                continue
            if cname.startswith('#'):
                kend = Sym(c=st_['ints'].get(cname, 0))        # elements appended to the list of pieces in this iteration
            else:
                kend = st_['ints'].get(cname, Sym({'K:' + cname: 1})) - Sym({'K:' + cname: 1})
            grown = plen(st_['text'])
            if kend != grown and drift is None:
                drift = (kend, grown)
        cdesc = 'len(%s), the number of pieces in the list that is joined into the text,' % cname[1:] if cname.startswith('#') else 'the position counter %s' % cname
        R.check(drift is None, f, outer, '%s grows exactly as the text does in every iteration' % cdesc,
                'in some iteration the text grows by %r characters but %s by %r: sequences recorded afterwards are keyed at the wrong position '
                '(c = cursor at the start of the iteration, LCSI = length of the introducer)' % (drift[1] if drift else '', cdesc, drift[0] if drift else ''),
                construct='position counter')
    R.check(not reads_unguarded, f, outer, 'every read of a single input character is covered by a `< len(%s)` test at that position' % s,
            'the read %s is not covered by a `< len(%s)` test on some path (IndexError at the end of the input)' % (reads_unguarded[0][1] if reads_unguarded else '', s),
            construct='index guard')
    # ---- accept condition: truth table
    cons = 'accept condition'
    rec_call = next((x for x in ast.walk(outer) if isinstance(x, ast.Call) and call_name(x) == 'AnsiControlSequence' and len(x.args) == 2), None)
    term_var = norm(rec_call.args[1]) if rec_call is not None and isinstance(rec_call.args[1], ast.Name) else None
    # the split: the innermost `if` with the record in one branch only
    acc_if = None
    for n in ast.walk(outer):
        if isinstance(n, ast.If) and rec_call is not None:
            inb = any(rec_call is x for b_ in n.body for x in ast.walk(b_))
            ino = any(rec_call is x for b_ in n.orelse for x in ast.walk(b_))
            if inb != ino and n.orelse and (acc_if is None or any(n is x for x in ast.walk(acc_if))):
                acc_if = n
    if acc_if is None or term_var is None:
        R.undecided(f, outer, 'record / put-back split not found', construct=cons)
        return
    rec_in_body = any(rec_call is x for b_ in acc_if.body for x in ast.walk(b_))
    # truth values computed into locals before the split are read through their definitions
    def bool_def(name, depth=0):
        defs_ = [x for x in ast.walk(outer) if isinstance(x, ast.Assign) and len(x.targets) == 1 and is_name(x.targets[0], name)]
        if len(defs_) == 1:
            return expand(defs_[0].value, depth + 1)
        if len(defs_) == 2 and isinstance(getattr(defs_[0], '_parent', None), ast.If) and defs_[0]._parent is getattr(defs_[1], '_parent', None):
            g_ = defs_[0]._parent
            a_, b_ = (defs_[0], defs_[1]) if defs_[0] in g_.body else (defs_[1], defs_[0])
            return ast.IfExp(test=expand(g_.test, depth + 1), body=expand(a_.value, depth + 1), orelse=expand(b_.value, depth + 1))
        return None

    def expand(e, depth=0):
        if depth > 4:
            return e
        class X(ast.NodeTransformer):
            def visit_Name(self, n_):
                if n_.id not in (term_var, acc, allow):
                    d_ = bool_def(n_.id, depth)
                    if d_ is not None:
                        return d_
                return n_
        from ..model import astcopy
        return X().visit(astcopy(e))
    acc_test = expand(acc_if.test)
    bad = []
    for state in ('empty', 'acc', 'nonacc'):
        for al in (True, False):
            for given in (True, False):
                nonempty = state != 'empty'
                in_acc = state in ('acc', 'empty')   # '' in 'm' is True in Python
                extra = {term_var: nonempty, 'not ' + term_var: not nonempty,
                         '%s is None' % acc: not given, '%s is not None' % acc: given}
                if given:
                    extra['%s in %s' % (term_var, acc)] = in_acc
                    extra['%s not in %s' % (term_var, acc)] = not in_acc
                val = flag_valuation({allow: al}, extra)
                got = eval_guard(acc_test, val)
                if got is not None and not rec_in_body:
                    got = not got
                want = (nonempty or al) and ((not given) or in_acc)
                if not given:
                    for a in (evaluated_atoms(acc_test, val) if not any(isinstance(x, ast.IfExp) for x in ast.walk(acc_test)) else []):
                        if isinstance(a, ast.Compare) and isinstance(a.ops[0], (ast.In, ast.NotIn)) and norm(a.comparators[0]) == acc:
                            got = 'TypeError (membership test on None)'
                if got != want:
                    bad.append('final byte %s, allow_empty=%s, acceptable %s: %s, expected %s' % (state, al, 'given' if given else 'None', got, want))
    R.check(not bad, f, acc_if, 'recorded iff (final byte or allow_empty) and (acceptable is None or final byte in acceptable)',
            '; '.join(bad[:3]) + (' (+%d more)' % (len(bad) - 3) if len(bad) > 3 else ''), construct=cons)


def _valid_by_regex(m, F, R, f, cons):
    """`valid` decided with a regular expression: <compiled>.search / match / fullmatch(self.<text>) (or re.<method>(pattern, text)).  The
    pattern is folded and parsed; decided forms: a single character class searched for (valid = no hit), or a repeated complement
    class matched against the whole text (valid = hit).  Returns True when a verdict (or an undecided note) was recorded."""
    import re as _re
    import re._parser as _sp
    import re._constants as _sc
    calls = []
    for n in f.walk():
        if isinstance(n, ast.Call) and isinstance(n.func, ast.Attribute) and n.func.attr in ('search', 'match', 'fullmatch', 'findall', 'finditer'):
            recv = n.func.value
            pat_node, subj = None, None
            if isinstance(recv, ast.Name) and recv.id == 're' and len(n.args) >= 2:
                pat_node, subj = n.args[0], n.args[1]
            elif isinstance(recv, ast.Name) and n.args:
                cn = m.const('ansi_format', recv.id)
                if cn is not None and isinstance(cn, ast.Call) and call_name(cn) == 'compile' and cn.args:
                    pat_node, subj = cn.args[0], n.args[0]
                    if len(cn.args) > 1 or cn.keywords:
                        pat_node = None      # flags: not interpreted
            if pat_node is not None:
                calls.append((n, pat_node, subj))
    if len(calls) != 1:
        return False
    call, pat_node, subj = calls[0]
    meth = call.func.attr
    if not re.match(r'^self\.\w+$', norm(subj)):
        R.undecided(f, call, 'the regular expression is applied to %s, not to the setting text' % short(subj), construct=cons)
        return True
    try:
        pat = F.fold(pat_node)
    except Unfoldable:
        pat = None
    if not isinstance(pat, str):
        R.undecided(f, call, 'pattern %s could not be folded' % short(pat_node), construct=cons)
        return True
    try:
        items = list(_sp.parse(pat))
    except Exception:
        R.undecided(f, call, 'pattern %r does not parse' % pat, construct=cons)
        return True

    def class_of(av):
        """code points of an IN item -> (set, negated)"""
        neg = False
        pts = set()
        for op, a in av:
            if op is _sc.NEGATE:
                neg = True
            elif op is _sc.LITERAL:
                pts.add(a)
            elif op is _sc.RANGE:
                pts |= set(range(a[0], a[1] + 1))
            else:
                return None, None
        return pts, neg
    want = set(range(0x40, 0x7F))
    # how the match result becomes the verdict
    par = getattr(call, '_parent', None)
    pol = None          # True: valid = there is a match; False: valid = there is none
    if isinstance(par, ast.Compare) and len(par.ops) == 1 and par.left is call and const_val(par.comparators[0], 0) is None:
        pol = isinstance(par.ops[0], ast.IsNot) if isinstance(par.ops[0], (ast.Is, ast.IsNot)) else None
        top = par
    elif isinstance(par, ast.UnaryOp) and isinstance(par.op, ast.Not):
        pol, top = False, par
    elif isinstance(par, ast.Call) and call_name(par) == 'bool':
        pol, top = True, par
    else:
        top = None
    if pol is None or top is None:
        R.undecided(f, call, 'how the match result decides validity is not recognised', construct=cons)
        return True
    holder = getattr(top, '_parent', None)
    if isinstance(holder, ast.UnaryOp) and isinstance(holder.op, ast.Not):
        pol, holder = not pol, getattr(holder, '_parent', None)
    if not isinstance(holder, (ast.Assign, ast.Return)):
        R.undecided(f, call, 'the verdict %s is not stored or returned directly' % short(top), construct=cons)
        return True
    kind = None
    if len(items) == 1 and items[0][0] is _sc.IN:
        pts, neg = class_of(items[0][1])
        kind = ('class', pts, neg)
    elif len(items) == 1 and items[0][0] is _sc.MAX_REPEAT and items[0][1][0] == 0 and items[0][1][1] is _sc.MAXREPEAT and len(items[0][1][2]) == 1 and \
            list(items[0][1][2])[0][0] is _sc.IN:
        pts, neg = class_of(list(items[0][1][2])[0][1])
        kind = ('star', pts, neg)
    if kind is None or kind[1] is None:
        R.undecided(f, call, 'pattern %r is not a single character class (or a repeated one)' % pat, construct=cons)
        return True
    _, pts, neg = kind
    if kind[0] == 'class' and not neg and not pol:
        # valid = no character of the class is found
        if meth == 'search':
            R.check(pts == want, f, call, 'valid iff no character of [0x40,0x7E] occurs anywhere in the text (regex search)',
                    'the searched class is %s, the final-byte range is 0x40..0x7E' % _fmt_class(pts), construct=cons)
        elif meth in ('match', 'fullmatch'):
            R.viol(f, call, '%s.%s() looks at the start of the text only: a final byte (0x40..0x7E) after the first character -- "31mX", "1;4H" -- is not seen and the '
                            'setting is reported valid' % (short(call.func.value), meth), construct=cons)
        else:
            R.undecided(f, call, 'method %s' % meth, construct=cons)
        return True
    if kind[0] == 'star' and neg and pol and meth == 'fullmatch':
        R.check(pts == want, f, call, 'valid iff the whole text consists of characters outside [0x40,0x7E] (regex fullmatch)',
                'the excluded class is %s, the final-byte range is 0x40..0x7E' % _fmt_class(pts), construct=cons)
        return True
    R.undecided(f, call, 'regex form (%s of %r, verdict = %s) not interpreted' % (meth, pat, 'match' if pol else 'no match'), construct=cons)
    return True


def _fmt_class(pts):
    if not pts:
        return 'empty'
    xs = sorted(pts)
    runs, a = [], xs[0]
    for i, x in enumerate(xs):
        if i + 1 == len(xs) or xs[i + 1] != x + 1:
            runs.append('0x%02X..0x%02X' % (a, x) if a != x else '0x%02X' % a)
            if i + 1 < len(xs):
                a = xs[i + 1]
    return ', '.join(runs)


def _valid_by_set(m, F, R, f, cons):
    """`valid` decided with a set of the final bytes: <SET>.isdisjoint(self.<text>) (SET a module-level constant that folds to a set of
    one-character strings).  Exact iff the set is {chr(0x40) .. chr(0x7E)}."""
    calls = [n for n in f.walk() if isinstance(n, ast.Call) and isinstance(n.func, ast.Attribute) and n.func.attr == 'isdisjoint' and len(n.args) == 1]
    if len(calls) != 1:
        return False
    call = calls[0]
    a, b = call.func.value, call.args[0]
    text = next((x for x in (a, b) if re.match(r'^self\.\w+$', norm(x))), None)
    other = b if text is a else a
    if text is None:
        return False
    if isinstance(other, ast.Call) and call_name(other) in ('set', 'frozenset') and other.args:
        other_v = other
    else:
        other_v = other
    try:
        val = F.fold(other_v) if not isinstance(other_v, ast.Name) else F.env.get(other_v.id, None)
        if val is None and isinstance(other_v, ast.Name):
            node = m.const('ansi_format', other_v.id)
            val = F.fold(node) if node is not None else None
    except Unfoldable:
        val = None
    if not isinstance(val, (frozenset, set, list, tuple, str)):
        R.undecided(f, call, 'the set %s could not be folded' % short(other), construct=cons)
        return True
    pts = set()
    for x in val:
        if not (isinstance(x, str) and len(x) == 1):
            R.undecided(f, call, 'the set %s does not consist of single characters' % short(other), construct=cons)
            return True
        pts.add(ord(x))
    # polarity: valid = isdisjoint(...)
    par = getattr(call, '_parent', None)
    neg = isinstance(par, ast.UnaryOp) and isinstance(par.op, ast.Not)
    holder = getattr(par, '_parent', None) if neg else par
    if neg or not isinstance(holder, (ast.Assign, ast.Return)):
        R.undecided(f, call, 'how the isdisjoint() result decides validity is not recognised', construct=cons)
        return True
    want = set(range(0x40, 0x7F))
    R.check(pts == want, f, call, 'valid iff the text shares no character with {chr(0x40) .. chr(0x7E)}',
            'the set of final bytes is %s, the range is 0x40..0x7E inclusive%s' % (
                _fmt_class(pts), ': 0x7E ("~") is missing -- range() excludes its upper bound' if want - pts == {0x7E} else ''), construct=cons)
    return True


def _ord_membership(m, F, R, f, inner, inner_test, s, cons):
    """`ord(s[i]) not in CODES` with CODES a module-level constant that folds to a range / collection of integers: decided by enumeration.
    Returns False (nothing reported) when the test does not have that form or the constant does not fold."""
    memb = [x for x in ast.walk(inner_test) if isinstance(x, ast.Compare) and len(x.ops) == 1 and isinstance(x.ops[0], (ast.In, ast.NotIn)) and
            re.match(r'^ord\(%s\[\w+\]\)$' % re.escape(s), norm(x.left)) and isinstance(x.comparators[0], ast.Name)]
    if len(memb) != 1:
        return False
    coll = memb[0].comparators[0]
    val = None
    try:
        for modn in ('ansi_parsing', 'ansi_format'):
            if m.const(modn, coll.id) is not None:
                val = F.fold(m.const(modn, coll.id))
                break
    except Exception:
        return False
    if not isinstance(val, (range, frozenset, set, list, tuple)) or not all(isinstance(c_, int) and not isinstance(c_, bool) for c_ in val):
        return False
    cont_on_notin = isinstance(memb[0].ops[0], ast.NotIn)
    par_ = getattr(memb[0], '_parent', None)
    if isinstance(par_, ast.UnaryOp) and isinstance(par_.op, ast.Not):
        cont_on_notin = not cont_on_notin
    # the membership atom must be a conjunct of the loop test (continue while in range and not a final byte)
    top = inner_test.values if isinstance(inner_test, ast.BoolOp) and isinstance(inner_test.op, ast.And) else [inner_test]
    atom = par_ if isinstance(par_, ast.UnaryOp) else memb[0]
    if not cont_on_notin or not any(atom is t_ for t_ in top):
        return False
    pts = set(val)
    wantset = set(range(0x40, 0x7F))
    R.check(pts == wantset, f, inner, 'the parameter scan continues exactly on code points outside 0x40 .. 0x7E',
            'the parameter scan stops on %s; a final byte is 0x40..0x7E inclusive%s' % (
                _fmt_class(pts), ': 0x7E ("~") is missing -- range() excludes its upper bound' if wantset - pts == {0x7E} else ''), construct=cons)
    return True


@rule('F1', 'term-range: the byte classes of AnsiSetting.valid and of the tokenizer are exactly [0x40, 0x7E]', floor=2)
def F1(m, R):
    F = get_folder(m)
    rng = 'ansi_term_ord_range'
    lo, hi = rng + '[0]', rng + '[1]'
    # valid
    f = m.fn('AnsiSetting.valid')
    cons = 'valid byte class'
    from ..shapes import reject_predicate, local_aliases
    from ..shapes import subst as _subst2
    rp = reject_predicate(f)
    if rp is None and (_valid_by_regex(m, F, R, f, cons) or _valid_by_set(m, F, R, f, cons)):
        pass
    elif rp is None:
        R.undecided(f, f.node, 'per-character rejection not found', construct=cons)
    else:
        class _LP:
            pass
        lp = _LP()
        lp.target, lp.iter = rp[0], rp[1]

        class _ST:
            pass
        st = rp[3]
        al_ = dict(local_aliases(f))
        for n_ in f.walk():      # a local standing for a range object: `bytes_ = range(...)`, bound once
            if isinstance(n_, ast.Assign) and len(n_.targets) == 1 and isinstance(n_.targets[0], ast.Name) and call_name(n_.value) == 'range' and \
                    sum(1 for y_ in f.walk() if isinstance(y_, ast.Name) and y_.id == n_.targets[0].id and isinstance(y_.ctx, ast.Store)) == 1:
                al_.setdefault(n_.targets[0].id, n_.value)
        rtest = _subst2(rp[2], al_)
        x = 'ord(%s)' % norm(lp.target)
        # a character rejected by membership in a collection of characters: `c in CHARS` with CHARS folded
        if isinstance(rtest, ast.Compare) and len(rtest.ops) == 1 and isinstance(rtest.ops[0], ast.In) and norm(rtest.left) == norm(lp.target):
            coll = rtest.comparators[0]
            try:
                val = F.fold(m.const('ansi_format', coll.id)) if isinstance(coll, ast.Name) and m.const('ansi_format', coll.id) is not None else F.fold(coll)
            except Unfoldable:
                val = None
            if isinstance(val, (frozenset, set, list, tuple, str)) and all(isinstance(c_, str) and len(c_) == 1 for c_ in val):
                pts = {ord(c_) for c_ in val}
                wantset = set(range(0x40, 0x7F))
                R.check(pts == wantset and re.match(r'^self\.\w+$', norm(lp.iter)) is not None, f, st, 'a character is rejected exactly when it is one of chr(0x40) .. chr(0x7E)',
                        'the rejected characters are %s, the final bytes are 0x40..0x7E inclusive%s' % (
                            _fmt_class(pts), ': 0x7E ("~") is missing -- range() excludes its upper bound' if wantset - pts == {0x7E} else ''), construct=cons)
                rtest = None
        tt = region_table(rtest, x, lo, hi) if rtest is not None else None
        want = {'<lo': False, '=lo': True, 'inside': True, '=hi': True, '>hi': False}
        problems = []
        if tt is None:
            tt = want
            st = None
        if any(v is None for v in tt.values()):
            R.undecided(f, st, 'byte-class test %s not decided' % short(rtest), construct=cons)
            tt = want
        if tt != want:
            problems.append('rejects regions %s of a code point against [0x40,0x7E]; exact is lo..hi inclusive' % sorted(k for k, v in tt.items() if v))
        if not re.match(r'^self\.\w+$', norm(lp.iter)):
            problems.append('iterates %s' % norm(lp.iter))
        if st is not None:
            R.check(not problems, f, st, 'a character is rejected exactly when lo <= ord(c) <= hi', '; '.join(problems), construct=cons)
    # tokenizer parameter scan
    f = m.fn('ParsedAnsiControlSequenceString.__init__')
    cons = 'tokenizer byte class'
    inner = None
    for n in f.walk():
        if isinstance(n, ast.While) and any(isinstance(p, ast.While) for p in _parents(n)):
            inner = n
    if inner is None:
        R.undecided(f, f.node, 'parameter scan not found', construct=cons)
    else:
        s = f.own_params()[0]
        from ..shapes import local_aliases
        from ..shapes import subst as _subst
        inner_test = _subst(inner.test, local_aliases(f))
        ords = {norm(x) for x in ast.walk(inner_test) if isinstance(x, ast.Call) and call_name(x) == 'ord'}
        memb = [x for x in ast.walk(inner_test) if isinstance(x, ast.Compare) and len(x.ops) == 1 and isinstance(x.ops[0], (ast.In, ast.NotIn)) and
                re.match(r'^%s\[\w+\]$' % re.escape(s), norm(x.left))]
        if not ords and len(memb) == 1:
            # the scan decided by membership of the character in a collection of characters: `s[i] not in CHARS`
            coll = memb[0].comparators[0]
            val = None
            try:
                for modn in ('ansi_parsing', 'ansi_format'):
                    if isinstance(coll, ast.Name) and m.const(modn, coll.id) is not None:
                        val = F.fold(m.const(modn, coll.id))
                        break
                else:
                    val = F.fold(coll)
            except Unfoldable:
                val = None
            # the scan continues while `<in range> and <not a final byte>`: the membership atom must be the negative one
            cont_on_notin = isinstance(memb[0].ops[0], ast.NotIn)
            par_ = getattr(memb[0], '_parent', None)
            if isinstance(par_, ast.UnaryOp) and isinstance(par_.op, ast.Not):
                cont_on_notin = not cont_on_notin
            if isinstance(val, (frozenset, set, list, tuple, str)) and all(isinstance(c_, str) and len(c_) == 1 for c_ in val) and cont_on_notin:
                pts = {ord(c_) for c_ in val}
                wantset = set(range(0x40, 0x7F))
                R.check(pts == wantset, f, inner, 'the parameter scan continues exactly on characters outside chr(0x40) .. chr(0x7E)',
                        'the parameter scan stops on %s; a final byte is 0x40..0x7E inclusive%s' % (
                            _fmt_class(pts), ': 0x7E ("~") is missing -- range() excludes its upper bound' if wantset - pts == {0x7E} else ''), construct=cons)
            else:
                R.undecided(f, inner, 'scan test %s' % short(inner.test), construct=cons)
        elif len(ords) != 1:
            R.undecided(f, inner, 'scan test %s' % short(inner.test), construct=cons)
        elif _ord_membership(m, F, R, f, inner, inner_test, s, cons):
            pass
        else:
            x = next(iter(ords))
            cur = re.match(r'^ord\(%s\[(\w+)\]\)$' % s, x)
            extra = {}
            tt = {}
            for name, rank in (('<lo', 0), ('=lo', 1), ('inside', 2), ('=hi', 3), ('>hi', 4)):
                val = merge_valuations(order_valuation({x: rank, lo: 1, hi: 3}),
                                       flag_valuation({}, {'%s < len(%s)' % (cur.group(1) if cur else 'i', s): True}))
                tt[name] = eval_guard(inner_test, val)
            want = {'<lo': True, '=lo': False, 'inside': False, '=hi': False, '>hi': True}
            if any(v is None for v in tt.values()):
                R.undecided(f, inner, 'scan test %s not decided' % short(inner_test), construct=cons)
                tt = want
            R.check(tt == want, f, inner, 'the parameter scan continues exactly outside [0x40,0x7E]',
                    'the parameter scan continues in regions %s; a final byte is exactly lo..hi inclusive' % sorted(k for k, v in tt.items() if v), construct=cons)
    # AnsiControlSequence.is_terminator_valid (same class, public helper)
    # (not used by the parser and no property speaks about it: no obligation)
    f = None
    if f is not None:
        rets = [n for n in f.walk() if isinstance(n, ast.Return)]
        if rets:
            x = 'ord(self.terminator)'
            tt = {}
            for name, rank in (('<lo', 0), ('=lo', 1), ('inside', 2), ('=hi', 3), ('>hi', 4)):
                val = merge_valuations(order_valuation({x: rank, lo: 1, hi: 3}), flag_valuation({}, {'len(self.terminator) == 1': True}))
                tt[name] = eval_guard(rets[0].value, val)
            want = {'<lo': False, '=lo': True, 'inside': True, '=hi': True, '>hi': False}
            R.check(tt == want, f, rets[0], 'is_terminator_valid accepts exactly [0x40,0x7E]', 'accepts regions %s' % sorted(k for k, v in tt.items() if v),
                    construct='is_terminator_valid byte class')


@rule('P11', 'state-threading: set_ansi_str reduces every sequence on top of the loop-carried state and parses with add_erroneous=False', floor=3)
def P11(m, R):
    f = m.fn('AnsiString.set_ansi_str')
    std = m.fn('settings_to_dict')
    pgs = m.fn('parse_graphic_sequence')
    calls = [n for n in f.walk() if isinstance(n, ast.Assign) and call_name(n.value) == 'settings_to_dict']
    if len(calls) != 1:
        raise AnalysisError('anchor vanished: the settings_to_dict call of set_ansi_str')
    c = calls[0]
    bound, _ = bind_call(c.value, std)
    new = norm(c.targets[0])
    old = norm(bound.get(std.params[1])) if bound.get(std.params[1]) is not None else None
    cons = 'state argument'
    lp = next((p for p in _parents(c) if isinstance(p, ast.For)), None)
    if old is None:
        R.viol(f, c, 'settings_to_dict is called without the previous state: every sequence is read as if the terminal were in its default state',
               construct=cons)
    else:
        # the carried state C: either the argument itself is replaced by the result, or the argument was just taken from C and the
        # result goes (back) into C -- on every path of the iteration; C starts as the empty state
        body = lp.body
        later = body[body.index(c) + 1:] if c in body else []
        earlier = body[:body.index(c)] if c in body else []
        carried = None
        if new == old or any(isinstance(s_, ast.Assign) and norm(s_.targets[0]) == old and norm(s_.value) == new for s_ in later):
            carried = old
        else:
            src = next((norm(s_.value) for s_ in reversed(earlier) if isinstance(s_, ast.Assign) and norm(s_.targets[0]) == old and isinstance(s_.value, ast.Name)), None)
            if src is not None and (new == src or any(isinstance(s_, ast.Assign) and norm(s_.targets[0]) == src and norm(s_.value) == new for s_ in later)):
                carried = src
        problems = []
        if carried is None:
            problems.append('the state %s passed in is not the loop-carried state replaced by the call\'s result %s on every path of the iteration' % (old, new))
        else:
            init = [s_ for s_ in ast.walk(f.node) if isinstance(s_, (ast.Assign, ast.AnnAssign)) and
                    norm(s_.targets[0] if isinstance(s_, ast.Assign) else s_.target) == carried and s_ not in list(ast.walk(lp))]
            if not init or not (isinstance(init[0].value, ast.Dict) and not init[0].value.keys):
                problems.append('%s does not start as the empty state' % carried)
        R.check(not problems, f, c, 'the reduction starts from the loop-carried state and its result becomes that state', '; '.join(problems), construct=cons)
    R.check(norm(bound.get(std.params[0])) in {norm(s.targets[0]) for s in f.walk() if isinstance(s, ast.Assign) and call_name(s.value) == 'parse_graphic_sequence'},
            f, c, 'the reduced list is the parsed sequence', construct='reduced list')
    pc = [n for n in f.walk() if isinstance(n, ast.Call) and call_name(n) == 'parse_graphic_sequence']
    cons = 'parse flags'
    if not pc:
        R.viol(f, f.node, 'sequences are not parsed with parse_graphic_sequence', construct=cons)
    else:
        b, _ = bind_call(pc[0], pgs)
        ae = b.get(pgs.params[1])
        problems = []
        from .P_more2 import erroneous_polarity
        pol = erroneous_polarity(m)
        drop = False if pol is None else (not pol)       # the value of the flag under which unknown / incomplete codes are dropped
        if ae is not None and const_val(ae, 'x') is not drop:
            problems.append('%s=%s: unknown / incomplete codes would be kept as settings' % (pgs.params[1], norm(ae)))
        if ae is None and const_val(pgs.defaults.get(pgs.params[1]), 'x') is not drop:
            problems.append('%s left to a default that is not %s' % (pgs.params[1], drop))
        seq = b.get(pgs.params[0])
        if seq is None or not re.match(r'^\w+\.\w+$', norm(seq)):
            problems.append('parses %s' % norm(seq))
        R.check(not problems, f, pc[0], 'parse_graphic_sequence(<sequence parameters>, add_erroneous=False)', '; '.join(problems), construct=cons)
        # every sequence the tokenizer recorded is parsed on its own: the parsed object is the variable of a loop over the list recorded for
        # the position, and that list is the tokenizer's (parameters of two sequences do not combine: ESC[m is a reset, "ESC[38;5m" ends there)
        cons = 'one parse per sequence'
        if seq is not None and isinstance(seq, ast.Attribute) and isinstance(seq.value, ast.Name):
            v_ = seq.value.id
            inner = next((p_ for p_ in _parents(pc[0]) if isinstance(p_, ast.For) and isinstance(p_.target, ast.Name) and p_.target.id == v_), None)
            if inner is None:
                R.undecided(f, pc[0], 'the loop that binds %s was not found' % v_, construct=cons)
            elif isinstance(inner.iter, ast.Name):
                L_ = inner.iter.id
                rebound = [n_ for n_ in f.walk() if isinstance(n_, (ast.Assign, ast.AugAssign)) and any(
                    isinstance(t_, ast.Name) and t_.id == L_ for t_ in (n_.targets if isinstance(n_, ast.Assign) else [n_.target]))]
                outer = [n_ for n_ in f.walk() if isinstance(n_, ast.For) and L_ in names_in(n_.target) and call_name(n_.iter) == 'items']
                if rebound:
                    def has_join(n_):
                        return any(isinstance(x_, ast.Call) and call_name(x_) == 'join' for x_ in ast.walk(n_))
                    feeds = {nm_ for n_ in rebound for nm_ in names_in(n_.value)}
                    joined = [n_ for n_ in rebound if has_join(n_)] + [n_ for n_ in f.walk() if isinstance(n_, ast.Assign) and isinstance(n_.targets[0], ast.Name)
                                                                      and n_.targets[0].id in feeds and has_join(n_) and L_ in names_in(n_.value)]
                    if joined:
                        R.viol(f, joined[0], 'the list of sequences recorded for a position is replaced by %s: the parameters of several sequences are joined into one sequence, '
                                             'but they do not combine -- an empty sequence (ESC[m, a reset) becomes an empty field that the parser skips, and an incomplete '
                                             '"38;5" swallows the codes of the next sequence' % short(joined[0].value), construct=cons)
                    else:
                        R.undecided(f, rebound[0], 'the list of sequences %s is rebound (%s) before it is parsed' % (L_, short(rebound[0])), construct=cons)
                elif outer:
                    R.ok(f, inner, 'the parsed sequences are the elements of the list the tokenizer recorded for the position, one parse each', construct=cons)
                else:
                    R.undecided(f, inner, 'where %s comes from was not recognised' % L_, construct=cons)
            else:
                R.ok(f, inner, 'the parsed sequences are the elements of %s, one parse each' % short(inner.iter), construct=cons)
        else:
            R.undecided(f, pc[0], 'parsed object %s not recognised' % (norm(seq) if seq is not None else None), construct=cons)


def _status_valuation(K, OLD, NEW, V, status):
    in_old = status in ('only-old', 'both-same', 'both-diff')
    in_new = status in ('only-new', 'both-same', 'both-diff')
    same = status == 'both-same'
    ex = {'%s in %s' % (K, OLD): in_old, '%s not in %s' % (K, OLD): not in_old,
          '%s in %s' % (K, NEW): in_new, '%s not in %s' % (K, NEW): not in_new}
    if in_old and in_new:
        for a, b in (('%s[%s]' % (OLD, K), V), (V, '%s[%s]' % (OLD, K)), ('%s[%s]' % (OLD, K), '%s[%s]' % (NEW, K)), ('%s[%s]' % (NEW, K), '%s[%s]' % (OLD, K))):
            ex['%s != %s' % (a, b)] = not same
            ex['%s == %s' % (a, b)] = same
    base = flag_valuation({}, ex)
    if not (in_old and in_new):
        return base
    olds = ['%s[%s]' % (OLD, K)]
    news = [V, '%s[%s]' % (NEW, K)]

    def val(atom):
        r = base(atom)
        if r is not None:
            return r
        # the two values compared through a projection (`x.get_initial_param()`, `str(x)[:2]`, `x.to_list()[0]`): equal values have equal
        # projections; different values (38;5;1 and 38;5;2) may have equal projections too -- decided as "equal", the case the projection cannot tell
        if isinstance(atom, ast.Compare) and len(atom.ops) == 1 and isinstance(atom.ops[0], (ast.Eq, ast.NotEq)):
            l, r_ = norm(atom.left), norm(atom.comparators[0])
            for o_ in olds:
                for n_ in news:
                    for a_, b_ in ((l, r_), (r_, l)):
                        if o_ in a_ and n_ in b_ and a_ != o_ and a_.replace(o_, '@') == b_.replace(n_, '@'):
                            return isinstance(atom.ops[0], ast.Eq)
        return None
    return val


@rule('F6', 'dict-diff: per key status {only-old, only-new, both-same, both-different} the state diff of set_ansi_str and of the '
            'to_str optimiser decide completely', floor=8)
def F6(m, R):
    # ---- set_ansi_str (the diff may live in a private helper)
    from ..shapes import with_helpers
    f = m.fn('AnsiString.set_ansi_str')
    calls = {call_name(n): n for n in f.walk() if isinstance(n, ast.Call) and call_name(n) in ('remove_formatting', 'apply_formatting')}
    if len(calls) != 2:
        raise AnalysisError('anchor vanished: remove / apply calls of set_ansi_str')
    rem_list = norm(calls['remove_formatting'].args[0])
    app_list = norm(calls['apply_formatting'].args[0])
    std_call = next((n for n in f.walk() if isinstance(n, ast.Assign) and call_name(n.value) == 'settings_to_dict'), None)
    if std_call is None:
        raise AnalysisError('anchor vanished: settings_to_dict call of set_ansi_str')
    host = None
    for g in with_helpers(m, f, 1):
        lps = [n for n in g.walk() if isinstance(n, ast.For) and call_name(n.iter) == 'items' and isinstance(n.target, ast.Tuple) and
               any(call_name(x) == 'append' for x in ast.walk(n) if isinstance(x, ast.Call)) and not any(isinstance(x, ast.For) and x is not n for x in ast.walk(n))]
        if len(lps) >= 2:
            host, diff_loops = g, lps
            break
    if host is None:
        R.undecided(f, f.node, 'the old/new state diff of set_ansi_str (two loops over .items() with appends) was not found in it or its helpers', construct='set_ansi_str diff')
        diff_loops = []
    loops = diff_loops
    if host is not None:
        names = [norm(lp.iter.func.value) for lp in diff_loops]
        if host is f:
            NEW = norm(std_call.targets[0])
            olds = [n for n in names if n != NEW]
            OLD = olds[0] if olds else None
            to_rem, to_app = rem_list, app_list
        else:
            # helper(old, new) -> (to_remove, to_apply): map through the call in set_ansi_str
            hc = next((n for n in f.walk() if isinstance(n, ast.Assign) and call_name(n.value) == host.name), None)
            OLD = NEW = to_rem = to_app = None
            if hc is not None and isinstance(hc.targets[0], ast.Tuple) and len(hc.targets[0].elts) == 2:
                b_, _ = bind_call(hc.value, host)
                newv = norm(std_call.targets[0])
                stdb, _ = bind_call(std_call.value, m.fn('settings_to_dict'))
                oldv = norm(stdb.get(m.fn('settings_to_dict').params[1]))
                for p_, a_ in b_.items():
                    if norm(a_) == newv:
                        NEW = p_
                    elif norm(a_) == oldv:
                        OLD = p_
                ret = next((n for n in host.walk() if isinstance(n, ast.Return) and isinstance(n.value, ast.Tuple) and len(n.value.elts) == 2), None)
                if ret is not None:
                    outs = [norm(x) for x in hc.targets[0].elts]
                    m_ = dict(zip(outs, [norm(x) for x in ret.value.elts]))
                    to_rem, to_app = m_.get(rem_list), m_.get(app_list)
        if None in (OLD, NEW, to_rem, to_app) or set(names) != {OLD, NEW}:
            R.undecided(host, host.node, 'roles of the two states / two lists of the diff not recognised', construct='set_ansi_str diff')
            host = None
    # the list handed to apply_formatting may be a re-ordering / filtering of the list the diff fills: [x for x in <seq> if <x among L>]
    def closure_(name):
        out = {name}
        for _ in range(4):
            for n in host.walk():
                if isinstance(n, ast.Assign) and len(n.targets) == 1 and norm(n.targets[0]) in out:
                    if isinstance(n.value, ast.Name):
                        out.add(n.value.id)                  # a plain copy
                    elif isinstance(n.value, ast.ListComp) and len(n.value.generators) == 1 and norm(n.value.elt) == norm(n.value.generators[0].target) and \
                            n.value.generators[0].ifs:
                        for c_ in n.value.generators[0].ifs:     # [x for x in <seq> if <x among L>]: a re-ordering / filtering of L
                            out |= {x for x in names_in(c_) if x != norm(n.value.generators[0].target)}
        return out
    app_sources = closure_(to_app) if host is not None else set()
    rem_sources = closure_(to_rem) if host is not None else set()
    for status in (('only-new', 'only-old', 'both-same', 'both-diff') if host is not None else ()):
        cons = 'set_ansi_str diff %s' % status
        events = []
        sub_old = []
        try:
            for lp in diff_loops:
                src = norm(lp.iter.func.value)
                K, V = [norm(x) for x in lp.target.elts]
                if src == NEW and status == 'only-old':
                    continue
                if src == OLD and status == 'only-new':
                    continue
                val0 = _status_valuation(K, OLD, NEW, V, status)
                # locals of the loop body that only name a sub-expression (old_setting = OLD[key])
                lal = {}
                for x_ in ast.walk(lp):
                    if isinstance(x_, ast.Assign) and len(x_.targets) == 1 and isinstance(x_.targets[0], ast.Name) and isinstance(x_.value, (ast.Subscript, ast.Name, ast.Attribute)):
                        lal[x_.targets[0].id] = x_.value

                # `x = OLD.get(K)`: x is None exactly when K is not a key (the values are setting objects), otherwise it is OLD[K]
                getl = {}
                for x_ in ast.walk(lp):
                    if isinstance(x_, ast.Assign) and len(x_.targets) == 1 and isinstance(x_.targets[0], ast.Name) and call_name(x_.value) == 'get' and \
                            isinstance(x_.value.func, ast.Attribute) and norm(x_.value.func.value) in (OLD, NEW) and x_.value.args and norm(x_.value.args[0]) == K and \
                            (len(x_.value.args) == 1 or const_val(x_.value.args[1], 0) is None) and not x_.value.keywords:
                        D_ = norm(x_.value.func.value)
                        getl[x_.targets[0].id] = D_
                        lal[x_.targets[0].id] = ast.parse('%s[%s]' % (D_, K), mode='eval').body
                in_st = {OLD: status in ('only-old', 'both-same', 'both-diff'), NEW: status in ('only-new', 'both-same', 'both-diff')}

                def val(atom, val0=val0, lal=lal, getl=getl, in_st=in_st):
                    if getl and isinstance(atom, ast.Compare) and len(atom.ops) == 1 and isinstance(atom.ops[0], (ast.Is, ast.IsNot)) and \
                            isinstance(atom.left, ast.Name) and atom.left.id in getl and const_val(atom.comparators[0], 0) is None:
                        present = in_st[getl[atom.left.id]]
                        return (not present) if isinstance(atom.ops[0], ast.Is) else present
                    return val0(subst(atom, lal)) if lal else val0(atom)

                def visit(st, src=src, K=K, V=V, lal=lal):
                    if isinstance(st, ast.Expr) and call_name(st.value) == 'append':
                        lst = norm(st.value.func.value)
                        a = norm(subst(st.value.args[0], lal)) if lal else norm(st.value.args[0])
                        which = 'old' if a in ('%s[%s]' % (OLD, K),) or (src == OLD and a == V) else 'new' if (a == '%s[%s]' % (NEW, K) or (src == NEW and a == V)) else a
                        events.append(('remove' if lst in rem_sources else 'apply' if lst in app_sources else lst, which))
                    for x in ast.walk(st):
                        if isinstance(x, ast.Subscript) and norm(x.value) == OLD:
                            sub_old.append(st)

                def vt(test, v, K=K):
                    for a in evaluated_atoms(test, v):
                        for x in ast.walk(a):
                            if isinstance(x, ast.Subscript) and norm(x.value) == OLD:
                                sub_old.append(a)
                run_block(lp.body, val, visit, vt)
        except Undecided as e:
            R.undecided(host, diff_loops[0], str(e), construct=cons)
            continue
        want = {'only-new': {('apply', 'new')}, 'only-old': {('remove', 'old')}, 'both-same': set(),
                'both-diff': {('remove', 'old'), ('apply', 'new')}}[status]
        problems = []
        if set(events) != want or len(events) != len(want):
            problems.append('does %s, required %s' % (sorted(events), sorted(want)))
        if status == 'only-new' and sub_old:
            problems.append('subscripts the old state with a key it does not have (KeyError)')
        R.check(not problems, host, diff_loops[0], 'key %s: %s' % (status, sorted(want) or 'nothing'), '; '.join(problems), construct=cons)
    loops = [n for n in f.walk() if isinstance(n, ast.For) and call_name(n.iter) == 'items' and isinstance(n.target, ast.Tuple)]
    # the lists reach remove / apply with the point's key
    for nm, lst in (('remove_formatting', rem_list), ('apply_formatting', app_list)):
        c = calls[nm]
        keyname = None
        for lp in loops:
            if c in list(ast.walk(lp)):
                keyname = norm(lp.target.elts[0])
                break
        ok = len(c.args) == 2 and norm(c.args[1]) == keyname and not c.keywords
        R.check(ok, f, c, '%s(%s, <position of the sequence>) to the end of the text' % (nm, lst), '%s called as %s' % (nm, short(c)), construct='set_ansi_str ' + nm)
    ro = [n for n in f.body if isinstance(n, ast.For)]
    # remove happens before apply (a replaced setting must not be removed again by value)
    c1, c2 = calls['remove_formatting'], calls['apply_formatting']
    R.check(c1.lineno < c2.lineno, f, c1, 'old settings are removed before the new ones are applied',
            'new settings are applied before the old ones are removed: an equal new setting would be removed again', construct='set_ansi_str order')
    # ---- to_str optimiser
    f = m.fn('AnsiString.to_str')
    opt = None
    for n in f.walk():
        if isinstance(n, ast.If) and is_name(n.test, 'optimize') and any(call_name(x) == 'settings_to_dict' for x in ast.walk(n)):
            opt = n
    if opt is None:
        raise AnalysisError('anchor vanished: the optimiser block of to_str')
    std_calls = [x for x in ast.walk(opt) if isinstance(x, ast.Assign) and call_name(x.value) == 'settings_to_dict']
    roles_ = m.roles
    itl = next((n for n in f.walk() if isinstance(n, ast.For) and call_name(n.iter) == roles_.ITERATOR and isinstance(n.target, ast.Tuple) and len(n.target.elts) == 3
                and any(opt is x for x in ast.walk(n))), None)
    if len({norm(x.targets[0]) for x in std_calls}) != 1 or itl is None:
        R.undecided(f, opt, 'new state of the optimiser not recognised', construct='optimiser state')
        return
    POINT, ACTIVE = norm(itl.target.elts[1]), norm(itl.target.elts[2])
    # ---- the new state: the reduction of the full active list; a state carried over from the previous point is right only where nothing stops
    full = [x for x in std_calls if x.value.args and norm(x.value.args[0]) in (ACTIVE, 'list(%s)' % ACTIVE) and not x.value.keywords and
            (len(x.value.args) == 1 or norm(x.value.args[1]) in ('{}', 'None', 'dict()'))]
    cons_ns = 'optimiser new state'
    if not full:
        R.undecided(f, std_calls[0], 'the new state is %s, not the reduction of the active settings %s' % (short(std_calls[0].value), ACTIVE), construct=cons_ns)
        return
    carried_bad = None
    carried_unk = None
    for x in std_calls:
        if x in full:
            continue
        # path condition from the optimiser block down to this assignment
        conds = []
        child, par = x, getattr(x, '_parent', None)
        while par is not None and par is not opt:
            if isinstance(par, ast.If):
                conds.append((par.test, any(child is b for b in par.body)))
            elif not isinstance(par, (ast.With, ast.Try)):
                conds = None
                break
            child, par = par, getattr(par, '_parent', None)
        if conds is None or par is None:
            carried_unk = x
            continue

        def scen(t_):
            """three-valued truth in the scenario: exactly one setting stops at this point, a clearing setting (CLEAR_SETTING codes are never stored
            as a value of the state dictionary -- rule F7 -- so it is not among the old state's values), nothing starts"""
            if isinstance(t_, ast.BoolOp):
                vs = [scen(v_) for v_ in t_.values]
                if isinstance(t_.op, ast.And):
                    return False if any(v_ is False for v_ in vs) else True if all(v_ is True for v_ in vs) else None
                return True if any(v_ is True for v_ in vs) else False if all(v_ is False for v_ in vs) else None
            if isinstance(t_, ast.UnaryOp) and isinstance(t_.op, ast.Not):
                v_ = scen(t_.operand)
                return None if v_ is None else not v_
            tx = norm(t_)
            if tx in ('%s.%s' % (POINT, roles_.STOP), 'len(%s.%s) > 0' % (POINT, roles_.STOP), 'len(%s.%s)' % (POINT, roles_.STOP)):
                return True
            if tx in ('%s.%s' % (POINT, roles_.START), 'len(%s.%s) > 0' % (POINT, roles_.START), 'len(%s.%s)' % (POINT, roles_.START)):
                return False
            if isinstance(t_, ast.Call) and call_name(t_) == 'any' and len(t_.args) == 1 and isinstance(t_.args[0], (ast.GeneratorExp, ast.ListComp)) and \
                    len(t_.args[0].generators) == 1:
                g_ = t_.args[0].generators[0]
                it_ = norm(g_.iter)
                names_ = {n_.id for n_ in ast.walk(t_.args[0].elt) if isinstance(n_, ast.Name)} | {norm(n_) for n_ in ast.walk(t_.args[0].elt) if isinstance(n_, ast.Attribute)}
                dict_side = it_.endswith('.values()') or it_.endswith('.items()')
                stop_side = it_ == '%s.%s' % (POINT, roles_.STOP)
                if dict_side and '%s.%s' % (POINT, roles_.STOP) in names_ and not g_.ifs:
                    return False        # no value of a state dictionary is the stopped clearing setting
                if stop_side and not g_.ifs and any(isinstance(c_, ast.Call) and norm(c_).endswith('.values()') for c_ in ast.walk(t_.args[0].elt)):
                    return False        # the stopped clearing setting is no value of a state dictionary
            return None
        vals_ = [(scen(t_) if pol else (None if scen(t_) is None else not scen(t_))) for t_, pol in conds]
        if vals_ and all(v_ is True for v_ in vals_):
            carried_bad = (x, conds)
        elif not vals_ or not any(v_ is False for v_ in vals_):
            carried_unk = x
    if carried_bad is not None:
        x, conds = carried_bad
        R.viol(f, x, 'where %s the new state is %s, carried over from the previous point instead of reduced from the active settings: a clearing setting '
                     '(NO_BOLD_FAINT, FG_DEFAULT, ...) is never a value of the state dictionary, so when its range stops here the guard does not notice and the '
                     'effect it was hiding is not switched back on -- bold 0..13 with NO_BOLD_FAINT 4..7 renders the tail after 7 without bold' % (
                         ' and '.join(('%s' if pol else 'not (%s)') % short(t_) for t_, pol in conds), short(x.value)), construct=cons_ns)
        return
    if carried_unk is not None:
        R.undecided(f, carried_unk, 'the new state is %s on some path; whether that path is taken only where nothing stops is not decided' % short(carried_unk.value),
                    construct=cons_ns)
        return
    R.ok(f, full[0], 'the new state is settings_to_dict(%s), the reduction of every active setting%s' % (
        ACTIVE, '' if len(std_calls) == len(full) else '; it is carried over only where nothing stops'), construct=cons_ns)
    std_call = full[0]
    NEW = norm(std_call.targets[0])

    def top_(x):
        while getattr(x, '_parent', None) is not None and x not in opt.body:
            x = x._parent
        return x if x in opt.body else None
    std_top = top_(std_call)
    # OLD: assigned in the block before the reduction from the loop-carried state; the carried state becomes NEW (or is NEW)
    OLD = None
    before = opt.body[:opt.body.index(std_top)] if std_top is not None else []
    for x in before:
        if isinstance(x, ast.Assign) and isinstance(x.value, ast.Name) and isinstance(x.targets[0], ast.Name):
            c = x.value.id
            if c == NEW or any(isinstance(y, ast.Assign) and norm(y.targets[0]) == c and norm(y.value) == NEW for y in opt.body):
                OLD = x.targets[0].id
    if OLD is None:
        # no alias: the carried state itself is read as the old state and replaced by the new one afterwards
        for y in opt.body:
            if isinstance(y, ast.Assign) and isinstance(y.targets[0], ast.Name) and norm(y.value) == NEW and std_top is not None and opt.body.index(y) > opt.body.index(std_top):
                OLD = y.targets[0].id
    if OLD is None:
        R.undecided(f, opt, 'old/new state variables of the optimiser not recognised', construct='optimiser state')
        return
    # clauses that contribute codes: loops with an append, or comprehensions; each: (source dict, key name, value name, conditions, element)
    clauses = []
    for x in opt.body:
        if isinstance(x, ast.For) and norm(x.iter) in ('%s.keys()' % OLD, OLD, '%s.items()' % OLD, '%s.keys()' % NEW, NEW, '%s.items()' % NEW):
            src = OLD if norm(x.iter).startswith(OLD) else NEW
            K = norm(x.target) if not isinstance(x.target, ast.Tuple) else norm(x.target.elts[0])
            Vn = norm(x.target.elts[1]) if isinstance(x.target, ast.Tuple) else None
            clauses.append(('loop', src, K, Vn, x.body, None))
        elif isinstance(x, (ast.AugAssign, ast.Assign, ast.Expr)):
            # comprehensions over the old / the new state anywhere in the statement (assigned, extended with, concatenated, joined)
            for comp_ in [y for y in ast.walk(x) if isinstance(y, (ast.ListComp, ast.GeneratorExp))]:
                g = comp_.generators[0]
                it = norm(g.iter)
                if it in ('%s.keys()' % OLD, OLD, '%s.items()' % OLD, '%s.keys()' % NEW, NEW, '%s.items()' % NEW):
                    src = OLD if it.startswith(OLD) else NEW
                    K = norm(g.target) if not isinstance(g.target, ast.Tuple) else norm(g.target.elts[0])
                    Vn = norm(g.target.elts[1]) if isinstance(g.target, ast.Tuple) else None
                    clauses.append(('comp', src, K, Vn, g.ifs, comp_.elt))
    if not clauses:
        R.undecided(f, opt, 'no clause of the optimiser iterates the old or the new state', construct='optimiser state')
        return
    for status in ('only-old', 'only-new', 'both-same', 'both-diff'):
        cons = 'optimiser diff %s' % status
        events = []
        problems = []
        try:
            for kind, src, K, Vn, body, elt in clauses:
                if src == OLD and status == 'only-new':
                    continue
                if src == NEW and status == 'only-old':
                    continue
                val = _status_valuation(K, OLD, NEW, Vn or '?', status)

                def classify(a, K=K, Vn=Vn, src=src):
                    if a == 'str(EFFECT_CLEAR_DICT[%s].value)' % K:
                        return 'clear'
                    if src == NEW and Vn and a == 'str(%s)' % Vn:
                        return 'new'
                    if a == 'str(%s[%s])' % (NEW, K):
                        return 'new'
                    return a
                if kind == 'loop':
                    def visit(st, classify=classify):
                        if isinstance(st, ast.Expr) and call_name(st.value) == 'append':
                            events.append(classify(norm(st.value.args[0])))
                    run_block(body, val, visit)
                else:
                    cond = True
                    for c in body:
                        keyerr = False
                        if status == 'only-new':
                            for a in evaluated_atoms(c, val):
                                if any(isinstance(x, ast.Subscript) and norm(x.value) == OLD for x in ast.walk(a)):
                                    problems.append('subscripts the old state with a key it does not have (KeyError)')
                                    keyerr = True
                        r = eval_guard(c, val)
                        if r is None:
                            if keyerr:
                                r = False
                            else:
                                raise Undecided('filter %s' % norm(c))
                        cond = cond and r
                    if cond:
                        events.append(classify(norm(elt)))
        except Undecided as e:
            R.undecided(f, opt, str(e), construct=cons)
            continue
        if status == 'only-old':
            if events != ['clear']:
                problems.append('emits %s; an effect that ended must be cleared with the clear code of its group' % events)
        elif status in ('only-new', 'both-diff'):
            if 'new' not in events or 'clear' in events:
                problems.append('emits %s; the new value must be emitted' % events)
        else:
            if 'clear' in events:
                problems.append('clears an effect that continues unchanged')
        R.check(not problems, f, opt, 'key %s -> %s' % (status, events), '; '.join(problems), construct=cons)
    # the optimiser reduces the iterator's active list from the default state
    b, _ = bind_call(std_call.value, m.fn('settings_to_dict'))
    R.check(len(b) == 1, f, std_call, 'the new state is the reduction of the active list from the empty state',
            'the new state is reduced on top of %s' % norm(list(b.values())[-1]) if len(b) > 1 else '', construct='optimiser reduction')


@rule('F7', 'dispatch-exhaustive: settings_to_dict covers every effect function; APPLY stores, CLEAR deletes if present, RESET empties; '
            'on a fresh copy', floor=4)
def F7(m, R):
    F = get_folder(m)
    f = m.fn('settings_to_dict')
    settings, old = f.params[:2]
    # fresh copy
    init = [n for n in f.body if isinstance(n, (ast.Assign, ast.AnnAssign))]
    d = None
    for n in init:
        tgt = n.targets[0] if isinstance(n, ast.Assign) else n.target
        if norm(n.value) in ('dict(%s)' % old, '%s.copy()' % old, '{**%s}' % old):
            d = norm(tgt)
    cons = 'fresh state'
    if d is None:
        R.viol(f, f.node, 'the result is not built on a fresh copy of the old state (the caller\'s dictionary would be modified)', construct=cons)
        return
    rets = [n for n in f.walk() if isinstance(n, ast.Return)]
    R.check(all(norm(r.value) == d for r in rets) and rets, f, rets[-1] if rets else f.node, 'works on and returns %s = dict(%s)' % (d, old), construct=cons)
    # dispatch chain
    chain = None
    for n in f.walk():
        if isinstance(n, ast.If) and 'AnsiParamEffectFn' in norm(n.test) and not (isinstance(n._parent, ast.If) and n in n._parent.orelse):
            chain = n
    if chain is None:
        raise AnalysisError('anchor vanished: dispatch on the effect function')
    cmp0 = next((x for x in ast.walk(chain.test) if isinstance(x, ast.Compare) and 'AnsiParamEffectFn' in norm(x)), None)
    fnvar = norm(cmp0.left) if cmp0 is not None else None
    members = list(F.enum('AnsiParamEffectFn').members)

    def tri(t, mem):
        """three-valued: the comparison of the function variable with a member is decided, anything else is unknown"""
        if isinstance(t, ast.BoolOp):
            vs = [tri(x, mem) for x in t.values]
            if isinstance(t.op, ast.And):
                return False if False in vs else (None if None in vs else True)
            return True if True in vs else (None if None in vs else False)
        if isinstance(t, ast.UnaryOp) and isinstance(t.op, ast.Not):
            v = tri(t.operand, mem)
            return None if v is None else not v
        if isinstance(t, ast.Compare) and len(t.ops) == 1 and norm(t.left) == fnvar and isinstance(t.ops[0], (ast.Eq, ast.Is, ast.NotEq, ast.IsNot)):
            try:
                ref = F.fold(t.comparators[0])
            except Unfoldable:
                return None
            if isinstance(ref, EnumRef):
                return (ref.name == mem) if isinstance(t.ops[0], (ast.Eq, ast.Is)) else (ref.name != mem)
        return None
    # which arm(s) can run for each member; a test with a further condition may send the member down the chain as well
    arms = {}
    reach = {}           # member -> list of (body, residual condition text or None)
    else_members = []
    for mem in members:
        cur = chain
        poss = []
        while cur is not None:
            v = tri(cur.test, mem)
            if v is not False:
                resid = None
                if v is None:
                    if not any(isinstance(x, ast.Compare) and norm(x.left) == fnvar for x in ast.walk(cur.test)):
                        R.undecided(f, cur, 'dispatch test %s' % short(cur.test), construct='dispatch')
                        return
                    resid = short(cur.test)
                poss.append((cur.body, resid))
                if v is True:
                    break
            if len(cur.orelse) == 1 and isinstance(cur.orelse[0], ast.If):
                cur = cur.orelse[0]
            else:
                poss.append((cur.orelse, None))
                if not any(r_ is None and b_ is not cur.orelse for b_, r_ in poss[:-1]):
                    else_members.append(mem)
                cur = None
        reach[mem] = poss
        arms[mem] = poss[0][0] if poss else []
    sure_else = [mem for mem in members if len(reach[mem]) == 1 and reach[mem][0][1] is None and mem in else_members]
    if len(sure_else) > 1:
        R.viol(f, chain, 'the else arm stands for %d members %s' % (len(sure_else), sure_else), construct='dispatch exhaustive')
    for mem in members:
        if len(reach[mem]) > 1:
            first_body, resid = reach[mem][0]
            others = [b_ for b_, _ in reach[mem][1:] if b_ is not first_body]
            if others:
                other_mem = next((k for k in members if k != mem and reach[k] and reach[k][0][0] is others[-1]), None)
                R.viol(f, chain, 'a %s setting for which `%s` does not hold is not handled by its own arm: it falls through to %s' % (
                    mem, resid, ('the arm of %s' % other_mem) if other_mem else 'another arm'), construct='dispatch exhaustive')
    from .T import fn_roles
    # roles by name here (fn_roles reads them off this very function)
    role = {}
    for k in members:
        up = k.upper()
        role[k] = 'RESET' if 'RESET' in up else 'APPLY' if 'APPLY' in up else 'CLEAR' if 'CLEAR' in up else '?'
    # effect group and function come from the first parameter of the setting being visited: follow the locals
    lpv = next((norm(n.target) for n in f.walk() if isinstance(n, ast.For) and norm(n.iter) == settings), None)
    param_texts = {'%s.get_initial_param()' % lpv} if lpv else set()
    for n in f.walk():
        if isinstance(n, ast.Assign) and len(n.targets) == 1 and isinstance(n.targets[0], ast.Name) and norm(n.value) in param_texts:
            param_texts.add(n.targets[0].id)
    eff_texts = {'%s.effect_type' % p_ for p_ in param_texts}
    fn_texts = {'%s.effect_fn' % p_ for p_ in param_texts}
    for n in f.walk():
        if isinstance(n, ast.Assign) and len(n.targets) == 1 and isinstance(n.targets[0], ast.Name):
            if norm(n.value) in eff_texts:
                eff_texts.add(n.targets[0].id)
            if norm(n.value) in fn_texts:
                fn_texts.add(n.targets[0].id)
    R.check(lpv is not None and fnvar in fn_texts, f, chain, 'effect group and function come from the setting\'s first parameter; every setting is visited',
            'the dispatch variable %s is not the effect function of the visited setting\'s first parameter' % fnvar, construct='dispatch inputs')

    def generic(txt):
        """statement text with the effect-group expression written <EFF>"""
        for e_ in sorted(eff_texts, key=len, reverse=True):
            txt = re.sub(r'(?<![\w.])%s(?![\w(])' % re.escape(e_), '<EFF>', txt)
        return txt
    for k, body in arms.items():
        cons = 'dispatch ' + role[k]
        texts = [generic(norm(s_)) for s_ in body]
        if role[k] == 'APPLY':
            R.check(texts == ['%s[<EFF>] = %s' % (d, lpv)], f, body[0] if body else chain, 'APPLY stores the setting under its group',
                    'APPLY arm does %s' % texts, construct=cons)
        elif role[k] == 'CLEAR':
            ok = texts in (['if <EFF> in %s:\n    del %s[<EFF>]' % (d, d)], ['%s.pop(<EFF>, None)' % d])
            R.check(ok, f, body[0] if body else chain, 'CLEAR deletes the group if present', 'CLEAR arm does %s' % texts, construct=cons)
        elif role[k] == 'RESET':
            ok = texts in (['%s = {}' % d], ['%s.clear()' % d], ['%s = dict()' % d])
            R.check(ok, f, body[0] if body else chain, 'RESET empties the state', 'RESET arm does %s' % texts, construct=cons)
        else:
            R.undecided(f, chain, 'member %s has no recognised role' % k, construct=cons)


def _order_source(e, parsed, dicts):
    """'sequence' | 'dict' | None for an iterable expression"""
    t = norm(e)
    if t in parsed:
        return 'sequence'
    if isinstance(e, ast.Call) and call_name(e) in ('items', 'values', 'keys') and isinstance(e.func, ast.Attribute) and norm(e.func.value) in dicts:
        return 'dict'
    if t in dicts:
        return 'dict'
    if isinstance(e, ast.Call) and call_name(e) in ('list', 'tuple', 'iter', 'enumerate') and e.args:
        return _order_source(e.args[0], parsed, dicts)
    return None


@rule('P28', 'parse-order: set_ansi_str starts the new settings of one sequence in the order in which the sequence lists them -- the order in '
             'which the renderer emits a start list -- so that a simplified value re-parses to itself', floor=1)
def P28(m, R):
    f = m.fn('AnsiString.set_ansi_str')
    std = m.fn('settings_to_dict')
    parsed = {norm(s.targets[0]) for s in f.walk() if isinstance(s, ast.Assign) and call_name(s.value) == 'parse_graphic_sequence'}
    dicts = {norm(s.targets[0]) for s in f.walk() if isinstance(s, ast.Assign) and call_name(s.value) == 'settings_to_dict'}
    if not parsed or not dicts:
        raise AnalysisError('anchor vanished: parse_graphic_sequence / settings_to_dict results in set_ansi_str')
    for _ in range(3):      # names the state is copied to
        for s in f.walk():
            if isinstance(s, ast.Assign) and isinstance(s.value, ast.Name) and (s.value.id in dicts or norm(s.targets[0]) in dicts):
                dicts.add(norm(s.targets[0]))
                dicts.add(s.value.id)
    calls = [n for n in f.walk() if isinstance(n, ast.Call) and call_name(n) == 'apply_formatting' and isinstance(n.func, ast.Attribute) and
             is_name(n.func.value, f.self_name) and n.args]
    cons = 'start order'
    if len(calls) != 1:
        R.undecided(f, f.node, '%d calls that start the parsed settings' % len(calls), construct=cons)
        return
    call = calls[0]
    arg = call.args[0]
    sources = []          # (kind, node)
    unknown = []
    lp = next((p for p in _parents(call) if isinstance(p, ast.For) and p in list(f.walk())), None)
    scope = list(ast.walk(lp)) if lp is not None else list(f.walk())
    # execution order = pre-order position in the tree (line numbers do not help: inlined helper code keeps its own)
    order_ = []

    def pre_(n_):
        order_.append(n_)
        for c_ in ast.iter_child_nodes(n_):
            pre_(c_)
    pre_(lp if lp is not None else f.node)
    pos_ = {id(n_): i_ for i_, n_ in enumerate(order_)}

    def iter_source(e, lim, depth):
        """order of an iterable: the parsed sequence, the effect dictionary, or -- for a local list -- whatever that list follows"""
        k = _order_source(e, parsed, dicts)
        if k is not None:
            return [k]
        while isinstance(e, ast.Call) and call_name(e) in ('list', 'tuple', 'iter', 'enumerate', 'reversed') and e.args:
            if call_name(e) == 'reversed':
                return None
            e = e.args[0]
        if isinstance(e, ast.Name) and depth < 4:
            src, unk = list_sources(e.id, lim, depth + 1)
            if src and not unk:
                return [k_ for k_, _ in src]
        return None

    def list_sources(L, lim, depth):
        src, unk = [], []
        assigns = [n for n in scope if isinstance(n, (ast.Assign, ast.AnnAssign)) and norm(n.targets[0] if isinstance(n, ast.Assign) else n.target) == L and
                   pos_.get(id(n), 0) <= lim]
        assigns.sort(key=lambda n: pos_.get(id(n), 0))
        last = assigns[-1] if assigns else None
        if last is not None and isinstance(last.value, ast.Name):
            # plain copy `started = to_apply`: the list is the one copied, as it was built before the copy
            if depth < 4:
                return list_sources(last.value.id, pos_.get(id(last), 0), depth + 1)
            return [], [(last, 'chain of copies')]
        defs = []
        if last is not None and not (isinstance(last.value, (ast.List, ast.Tuple)) and not last.value.elts) and not norm(last.value) == 'list()':
            defs = [last.value]
        else:
            for n in scope:
                if isinstance(n, ast.Call) and call_name(n) in ('append', 'extend', 'insert') and isinstance(n.func, ast.Attribute) and is_name(n.func.value, L) \
                        and pos_.get(id(n), 0) <= lim:
                    if call_name(n) == 'insert':
                        unk.append((n, 'insert() reorders'))
                        continue
                    fl = next((p for p in _parents(n) if isinstance(p, ast.For) and p is not lp), None)
                    if fl is None:
                        unk.append((n, 'append outside a loop'))
                        continue
                    ks = iter_source(fl.iter, pos_.get(id(fl), 0), depth)
                    if ks is None:
                        unk.append((n, 'loop over %s' % short(fl.iter)))
                    else:
                        src += [(k, fl) for k in ks]
            for n in scope:
                if isinstance(n, ast.Call) and call_name(n) == 'sort' and isinstance(n.func, ast.Attribute) and is_name(n.func.value, L) and pos_.get(id(n), 0) <= lim:
                    if any(x in parsed for x in names_in(n)):
                        src = [('sequence', n)]
                        unk = []
                    else:
                        unk.append((n, 'sorted by %s' % short(n)))
        for d in defs:
            comp = d if isinstance(d, (ast.ListComp, ast.GeneratorExp)) else \
                d.args[0] if isinstance(d, ast.Call) and call_name(d) in ('list', 'tuple') and d.args and isinstance(d.args[0], (ast.ListComp, ast.GeneratorExp)) else None
            if comp is not None:
                if len(comp.generators) != 1:
                    unk.append((d, 'nested comprehension'))
                    continue
                ks = iter_source(comp.generators[0].iter, pos_.get(id(last), lim + 1) - 1, depth)       # what the iterable was before this statement
                if ks is None:
                    unk.append((d, 'comprehension over %s' % short(comp.generators[0].iter)))
                else:
                    src += [(k, d) for k in ks]
            elif isinstance(d, ast.Call) and call_name(d) == 'sorted' and any(x in parsed for x in names_in(d)):
                src.append(('sequence', d))
            else:
                unk.append((d, 'built by %s' % short(d)))
        return src, unk

    if not isinstance(arg, ast.Name):
        holder = ast.Assign(targets=[ast.Name(id='@arg', ctx=ast.Store())], value=arg)
        ks = iter_source(arg, pos_.get(id(call), 1 << 30), 0)
        if ks is None:
            unknown.append((arg, 'built by %s' % short(arg)))
        else:
            sources = [(k, arg) for k in ks]
    else:
        sources, unknown = list_sources(arg.id, pos_.get(id(call), 1 << 30), 0)
    if unknown or not sources:
        n, why = unknown[0] if unknown else (call, 'no definition of the started list found')
        R.undecided(f, n, 'order of the started settings not recognised: %s' % why, construct=cons)
        return
    if all(k == 'sequence' for k, _ in sources):
        R.ok(f, call, 'the started list is taken from the parsed sequence in its order', construct=cons)
        return
    # effect-dictionary order: equals the sequence order only if a replaced effect is re-inserted at the end of the dictionary
    dnode = next(n for k, n in sources if k == 'dict')
    stores = [n for n in std.walk() if isinstance(n, ast.Assign) and isinstance(n.targets[0], ast.Subscript) and isinstance(n.targets[0].value, ast.Name)]
    if len(stores) != 1:
        R.undecided(std, std.node, '%d stores into the state dictionary' % len(stores), construct=cons)
        return
    st = stores[0]
    dn, key = st.targets[0].value.id, norm(st.targets[0].slice)
    blk = st._parent.body if st in getattr(st._parent, 'body', []) else getattr(st._parent, 'orelse', [])
    before = blk[:blk.index(st)] if st in blk else []
    moved = False
    for b in before:
        for n in ast.walk(b):
            if isinstance(n, ast.Call) and call_name(n) == 'pop' and isinstance(n.func, ast.Attribute) and is_name(n.func.value, dn) and n.args and norm(n.args[0]) == key:
                moved = True
            if isinstance(n, ast.Delete) and any(norm(t) == '%s[%s]' % (dn, key) for t in n.targets):
                moved = True
    R.check(moved, f, dnode, 'the started list follows the effect dictionary, which re-inserts a replaced effect at its end: sequence order',
            'the started list follows the order of the effect dictionary, in which a replaced effect keeps the position of the setting it replaces: '
            'ESC[91m a ESC[1;38;5;1m b is stored as (38;5;1, 1) and rendered ESC[38;5;1;1m -- the renderer emits (1, 38;5;1) for a value whose first '
            'rendering needed a reset (verbatim settings), so a second simplify() changes str(s)', construct=cons)

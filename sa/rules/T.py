"""T rules: tables and constants (constant folding against sa/ref)."""
import ast
import inspect
import re

from ..model import AnalysisError, norm, short, call_name, const_val, flatten_add, is_attr, is_name
from ..report import rule
from ..shapes import subst
from ..consteval import get_folder, EnumRef, Sym, Auto, Unfoldable
from ..ref import sgr


class _ModWhere:
    """A `where` for module-level constructs."""

    def __init__(self, mod, label):
        self.qual = label
        self.file = mod.path
        self.node = mod.tree


def _table_node(m, modname, name):
    v = m.const(modname, name)
    if v is None:
        raise AnalysisError('anchor vanished: %s.%s' % (modname, name))
    return v


def fn_roles(m):
    """Role of each AnsiParamEffectFn member, read off the reducer (settings_to_dict): the branch that stores the setting is
    APPLY, the branch that deletes the key is CLEAR, the remaining member is RESET.  Names are only the fallback."""
    F = get_folder(m)
    e = F.enum('AnsiParamEffectFn')
    roles = {}
    f = m.funcs.get('settings_to_dict')
    if f is not None:
        for n in f.walk():
            if isinstance(n, ast.If) and isinstance(n.test, ast.Compare) and len(n.test.ops) == 1 \
                    and isinstance(n.test.ops[0], (ast.Eq, ast.Is)):
                try:
                    ref = F.fold(n.test.comparators[0])
                except Unfoldable:
                    continue
                if isinstance(ref, EnumRef) and ref.cls == 'AnsiParamEffectFn':
                    body = n.body
                    if any(isinstance(x, ast.Delete) for s in body for x in ast.walk(s)):
                        roles[ref.name] = 'CLEAR'
                    elif any(isinstance(x, ast.Assign) and isinstance(x.targets[0], ast.Subscript) for s in body for x in ast.walk(s)):
                        roles[ref.name] = 'APPLY'
    rest = [k for k in e.members if k not in roles]
    for k in rest:
        up = k.upper()
        roles[k] = 'RESET' if (len(rest) == 1 or 'RESET' in up) else 'APPLY' if 'APPLY' in up else 'CLEAR' if 'CLEAR' in up else '?'
    return roles


def code_table_name(m):
    """Name of the code->effect table: today's name, else the module-level dict of ansi_param whose entries are int -> (effect, effect fn)."""
    F = get_folder(m)
    if isinstance(F.env.get('_ANSI_CODE_TO_EFFECT'), dict):
        return '_ANSI_CODE_TO_EFFECT'
    cands = []
    for name, _v, _st in m.consts.get('ansi_param', []):
        v = F.env.get(name)
        if isinstance(v, dict) and len(v) >= 20 and all(isinstance(k, int) and isinstance(x, tuple) and len(x) == 2 and isinstance(x[0], EnumRef) and
                                                      isinstance(x[1], EnumRef) for k, x in v.items()):
            cands.append(name)
    if len(set(cands)) == 1:
        return cands[0]
    raise AnalysisError('cannot fold the code->effect table')


def code_table(m):
    """{code: (effect member, role)} folded from the code->effect table."""
    F = get_folder(m)
    tbl = F.env.get(code_table_name(m))
    if not isinstance(tbl, dict) or not tbl:
        raise AnalysisError('cannot fold the code->effect table')
    roles = fn_roles(m)
    out = {}
    for code, v in tbl.items():
        if not (isinstance(v, tuple) and len(v) == 2 and isinstance(v[0], EnumRef) and isinstance(v[1], EnumRef)):
            raise AnalysisError('code->effect entry %r not foldable' % (code,))
        out[code] = (v[0].name, roles.get(v[1].name, '?'))
    return out


def _entry_nodes(m):
    node = _table_node(m, 'ansi_param', code_table_name(m))
    out = {}
    if isinstance(node, ast.Dict):
        for k, v in zip(node.keys, node.values):
            out[const_val(k)] = v
    return out


@rule('T1', 'sgr-code-effect: code->effect table induces the reference partition; RESET/CLEAR/APPLY per code', floor=70)
def T1(m, R):
    mod = m.mod('ansi_param')
    W = _ModWhere(mod, code_table_name(m))
    tbl = code_table(m)
    nodes = _entry_nodes(m)
    # effect used by each reference group
    group_effect = {}
    for g, (codes, off) in sgr.GROUPS.items():
        effs = {}
        for c in sorted(codes | {off}):
            if c in tbl:
                effs.setdefault(tbl[c][0], []).append(c)
        if effs:
            # majority effect is the group's effect
            group_effect[g] = max(effs.items(), key=lambda kv: len(kv[1]))[0]
    for code, (eff, role) in sorted(tbl.items()):
        node = nodes.get(code)
        cons = 'code %d -> (%s, %s)' % (code, eff, role)
        key = 'code %d' % code
        if code == sgr.RESET:
            R.check(role == 'RESET', W, node, 'code 0 resets all', 'code 0 is classed %s, not RESET' % role, construct=key)
            continue
        g = sgr.group_of(code)
        amb = sgr.AMBIGUOUS_GROUP.get(code)
        if g is None and not amb:
            R.ok(W, node, 'code unknown to the reference: skipped (%s)' % cons, construct=key)
            continue
        allowed_groups = amb or {g}
        allowed_effects = {group_effect.get(x) for x in allowed_groups}
        if eff not in allowed_effects:
            R.viol(W, node, '%s: the standard puts code %d in group %s (effect %s here)' % (
                cons, code, '/'.join(sorted(allowed_groups)), '/'.join(sorted(str(x) for x in allowed_effects))), construct=key)
            continue
        want = sgr.AMBIGUOUS_FN.get(code) or {sgr.fn_of(code) or 'APPLY'}
        if amb and g is None:
            want = {'APPLY'}
        if role not in want:
            R.viol(W, node, '%s: the standard makes code %d %s' % (cons, code, '/'.join(sorted(want))), construct=key)
            continue
        R.ok(W, node, cons + ' agrees with the reference', construct=key)
    # distinct groups -> distinct effects
    seen = {}
    for g, eff in sorted(group_effect.items()):
        if eff in seen:
            R.viol(W, None, 'reference groups %s and %s share effect %s (settings of one would override the other)' % (seen[eff], g, eff),
                   construct='groups %s/%s' % (seen[eff], g))
        seen[eff] = g
    # AnsiParam.__init__ wires table[code][0] -> effect_type, [1] -> effect_fn
    init = m.fn('AnsiParam.__init__')
    wired = {}
    unpacked = {}
    src_var = None
    tname = code_table_name(m)
    for n in init.walk():
        if isinstance(n, (ast.Assign, ast.AnnAssign)):
            tgt = n.targets[0] if isinstance(n, ast.Assign) else n.target
            val = n.value
            if isinstance(tgt, ast.Name) and isinstance(val, ast.Subscript) and is_name(val.value, tname):
                src_var = (tgt.id, norm(val.slice))
            if isinstance(tgt, ast.Tuple) and isinstance(val, ast.Subscript) and is_name(val.value, tname) and all(isinstance(x, ast.Name) for x in tgt.elts):
                # a, b = TABLE[code]: a stands for row[0], b for row[1]
                src_var = ('<row>', norm(val.slice))
                for i_, x in enumerate(tgt.elts):
                    unpacked[x.id] = i_
            if isinstance(tgt, ast.Tuple) and isinstance(val, ast.Subscript) and is_name(val.value, tname) and all(isinstance(x, ast.Attribute) for x in tgt.elts):
                # self.a, self.b = TABLE[code]: the attributes are wired to row[0], row[1] directly
                src_var = ('<row>', norm(val.slice))
                for i_, x in enumerate(tgt.elts):
                    wired[x.attr] = ('<row>', i_)
            if isinstance(tgt, ast.Attribute) and isinstance(val, ast.Subscript) and isinstance(val.value, ast.Name):
                wired[tgt.attr] = (val.value.id, const_val(val.slice))
            if isinstance(tgt, ast.Attribute) and isinstance(val, ast.Name) and val.id in unpacked:
                wired[tgt.attr] = ('<row>', unpacked[val.id])
            if isinstance(tgt, ast.Attribute) and isinstance(val, ast.Subscript) and isinstance(val.value, ast.Subscript) and is_name(val.value.value, tname):
                src_var = ('<row>', norm(val.value.slice))
                wired[tgt.attr] = ('<row>', const_val(val.slice))
    for prop, idx in (('effect_type', 0), ('effect_fn', 1)):
        pf = m.funcs.get('AnsiParam.' + prop)
        if pf is None:
            raise AnalysisError('anchor vanished: AnsiParam.%s' % prop)
        ret = [n.value for n in pf.walk() if isinstance(n, ast.Return)]
        attr = ret[0].attr if ret and isinstance(ret[0], ast.Attribute) else None
        w = wired.get(attr)
        good = w is not None and src_var is not None and w[0] == src_var[0] and w[1] == idx and src_var[1] == init.own_params()[0]
        R.check(good, pf, pf.node, 'AnsiParam.%s is entry[%d] of the table row of its own code' % (prop, idx),
                'AnsiParam.%s is not wired to entry[%d] of table[code] (found %r via %r)' % (prop, idx, w, src_var), construct=prop)


@rule('T2', 'sgr-name-code: AnsiParam.<NAME> carries the standard code for that name', floor=70)
def T2(m, R):
    F = get_folder(m)
    e = F.enum('AnsiParam')
    mod = m.mod('ansi_param')
    W = _ModWhere(mod, 'AnsiParam')
    skipped = 0
    for name in e.order:
        node = e.nodes[name]
        try:
            val = e.value(name)
        except KeyError:
            continue
        if name not in sgr.NAME_CODE:
            skipped += 1
            continue
        want = sgr.NAME_CODE[name]
        R.check(val == want, W, node, 'AnsiParam.%s = %r' % (name, val),
                'AnsiParam.%s = %r but the standard code for that name is %d' % (name, val, want), construct='AnsiParam.' + name)
    # every code in the effect table that the reference names has a member (so AnsiParam(code) succeeds for it)
    vals = {e.value(n) for n in e.order}
    tbl = code_table(m)
    missing = sorted(c for c in tbl if c not in vals)
    R.check(not missing, W, None, 'every code of the effect table has an AnsiParam member',
            'codes %s of the effect table have no AnsiParam member (never recognised)' % missing, construct='table codes covered')


@rule('T3', 'clear-table: EFFECT_CLEAR_DICT total, each value is the reference off-code of its group', floor=14)
def T3(m, R):
    F = get_folder(m)
    mod = m.mod('ansi_param')
    W = _ModWhere(mod, 'EFFECT_CLEAR_DICT')
    d = F.env.get('EFFECT_CLEAR_DICT')
    if not isinstance(d, dict):
        raise AnalysisError('cannot fold EFFECT_CLEAR_DICT')
    node = _table_node(m, 'ansi_param', 'EFFECT_CLEAR_DICT')
    vnodes = {}
    if isinstance(node, ast.Dict):
        for k, v in zip(node.keys, node.values):
            try:
                vnodes[F.fold(k)] = v
            except Unfoldable:
                pass
    tbl = code_table(m)
    P = F.enum('AnsiParam')
    effects_with_apply = {}
    for code, (eff, role) in tbl.items():
        if role == 'APPLY':
            effects_with_apply.setdefault(eff, []).append(code)
    # reference off code per effect (through the partition)
    ref_off = {}
    for g, (codes, off) in sgr.GROUPS.items():
        for c in codes:
            if c in tbl:
                ref_off.setdefault(tbl[c][0], set()).add(off)
    keys = {k.name: v for k, v in d.items() if isinstance(k, EnumRef)}
    for eff in sorted(effects_with_apply):
        cons = 'EFFECT_CLEAR_DICT[%s]' % eff
        if eff not in keys:
            R.viol(W, node, 'effect %s has apply codes %s but no clear entry (KeyError in the optimiser)' % (eff, effects_with_apply[eff][:4]), construct=cons)
            continue
        v = keys[eff]
        vn = vnodes.get(EnumRef('AnsiParamEffect', eff))
        code = P.value(v.name) if isinstance(v, EnumRef) and v.cls == 'AnsiParam' and P.has(v.name) else None
        if code is None:
            R.viol(W, vn, '%s is not an AnsiParam member' % cons, construct=cons)
            continue
        want = ref_off.get(eff, set())
        if code not in want:
            R.viol(W, vn, '%s = %s (%d) but the code that clears this group is %s' % (cons, v.name, code, sorted(want)), construct=cons)
        elif code in tbl and tbl[code][0] != eff:
            R.viol(W, vn, '%s = %d whose own group is %s' % (cons, code, tbl[code][0]), construct=cons)
        elif code in tbl and tbl[code][1] != 'CLEAR':
            # writer and reader must agree: the renderer writes this code to switch the effect off, the parser must read it as switching it off
            R.viol(W, vn, '%s = %s (%d): the renderer emits %d to switch %s off, but the code table classes %d as %s_SETTING of %s -- read back, the code '
                          'sets a new %s setting instead of ending one, so a value whose %s setting ends before the end of the text does not re-parse to itself: '
                          'ESC[1;%dm a ESC[%dm bc re-parses with %d active on "bc" as well, and a second simplify() changes str(s)' % (
                              cons, v.name, code, code, eff, code, tbl[code][1], eff, eff, eff, code, code, code), construct=cons)
        else:
            R.ok(W, vn, '%s = %s (%d) is the reference off-code' % (cons, v.name, code), construct=cons)
    # RESET -> 0
    for k, v in d.items():
        if isinstance(k, EnumRef) and k.name not in effects_with_apply:
            code = P.value(v.name) if isinstance(v, EnumRef) and P.has(v.name) else None
            reset_eff = tbl.get(0, (None,))[0]
            if k.name == reset_eff:
                R.check(code == 0, W, vnodes.get(k), 'reset effect clears with code 0', 'reset effect maps to %r' % code,
                        construct='EFFECT_CLEAR_DICT[%s]' % k.name)


_FN_PREFIX = (('FG_', 38), ('BG_', 48), ('SET_UNDERLINE_COLOR', 58), ('SET_UNDERLINE_COLOUR', 58))


@rule('T4', 'multi-code-fns: _AnsiControlFn members, total_seq_count, prefix matcher', floor=10)
def T4(m, R):
    F = get_folder(m)
    e = F.enum('_AnsiControlFn')
    mod = m.mod('ansi_format')
    W = _ModWhere(mod, '_AnsiControlFn')
    for name in e.order:
        node = e.nodes[name]
        cons = '_AnsiControlFn.' + name
        val = e.value(name)
        canon = e.canon(name)
        ok = isinstance(val, tuple) and len(val) == 2 and isinstance(val[0], tuple) and len(val[0]) == 2
        if not ok:
            R.viol(W, node, '%s = %r is not ((setup, selector), num_args)' % (cons, val), construct=cons)
            continue
        (setup0, sel), nargs = val
        want_setup = next((c for p, c in _FN_PREFIX if name.startswith(p)), None)
        want_sel = 5 if name.endswith('_256') else 2 if (name.endswith('_24_BIT') or name.endswith('_RGB')) else None
        problems = []
        if want_setup is not None and setup0 != want_setup:
            problems.append('setup code %r, the name says %d' % (setup0, want_setup))
        if setup0 not in sgr.EXTENDED_SETUP:
            problems.append('setup code %r is not 38/48/58' % (setup0,))
        if want_sel is not None and sel != want_sel:
            problems.append('colour-space selector %r, the name says %d' % (sel, want_sel))
        if sel not in sgr.EXTENDED_FORMS:
            problems.append('selector %r is not 5 or 2' % (sel,))
        elif nargs != sgr.EXTENDED_FORMS[sel]:
            problems.append('num_args %r, selector %d takes %d' % (nargs, sel, sgr.EXTENDED_FORMS[sel]))
        if name != canon:
            # alias: spelling variants only
            nz = lambda s: s.replace('COLOUR', 'COLOR').replace('_RGB', '_24_BIT')
            if nz(name) != nz(canon):
                problems.append('alias of %s (different function)' % canon)
        if problems:
            R.viol(W, node, '%s = %r: %s' % (cons, val, '; '.join(problems)), construct=cons)
        else:
            R.ok(W, node, '%s = %r' % (cons, val), construct=cons)
    # __init__: total = len(setup_seq) + num_args ; properties return their own attribute
    init = m.fn('_AnsiControlFn.__init__')
    ps = init.own_params()
    attr_of = {}
    total_ok = None
    for n in init.walk():
        if isinstance(n, (ast.Assign, ast.AnnAssign)):
            tgt = n.targets[0] if isinstance(n, ast.Assign) else n.target
            if isinstance(tgt, ast.Attribute):
                if isinstance(n.value, ast.Name) and n.value.id in ps:
                    attr_of[tgt.attr] = n.value.id
                elif isinstance(n.value, ast.BinOp):
                    parts = sorted(norm(x) for x in flatten_add(n.value))
                    want = sorted(['len(%s)' % ps[0], ps[1]]) if len(ps) >= 2 else None
                    attr_of[tgt.attr] = 'TOTAL'
                    total_ok = (n, isinstance(n.value.op, ast.Add) and parts == want)
    if total_ok is None:
        R.undecided(init, init.node, 'no `len(setup_seq) + num_args` assignment found')
    else:
        R.check(total_ok[1], init, total_ok[0], 'total_seq_count = len(setup_seq) + num_args',
                'total_seq_count is not len(setup_seq) + num_args', construct='total_seq_count')
    for prop, want in (('setup_seq', ps[0] if ps else None), ('num_args', ps[1] if len(ps) > 1 else None), ('total_seq_count', 'TOTAL')):
        pf = m.fn('_AnsiControlFn.' + prop)
        ret = [n.value for n in pf.walk() if isinstance(n, ast.Return)]
        attr = ret[0].attr if ret and isinstance(ret[0], ast.Attribute) else None
        R.check(attr_of.get(attr) == want, pf, pf.node, 'property %s returns the attribute set from %s' % (prop, want),
                'property %s returns %r which holds %r, not %s' % (prop, attr, attr_of.get(attr), want), construct='property ' + prop)
    # fn(): arity guard and setup + args
    fnf = m.fn('_AnsiControlFn.fn')
    from ..shapes import subst,  local_aliases, canon
    fal = local_aliases(fnf)
    rets = [n for n in fnf.walk() if isinstance(n, ast.Return)]
    good = len(rets) == 1 and isinstance(rets[0].value, ast.BinOp) and isinstance(rets[0].value.op, ast.Add) and \
        canon(rets[0].value.left, fal) == 'self.setup_seq' and canon(rets[0].value.right, fal) in ('tuple(%s)' % fnf.vararg, fnf.vararg)
    R.check(good, fnf, rets[0] if rets else fnf.node, 'fn() returns setup_seq + tuple(args)', construct='fn return')
    guard = [n for n in fnf.walk() if isinstance(n, ast.If)]
    gok = False
    for g in guard:
        t = g.test
        if isinstance(t, ast.Compare) and len(t.ops) == 1 and isinstance(t.ops[0], ast.NotEq) and \
                {canon(t.left, fal), canon(t.comparators[0], fal)} == {'len(%s)' % fnf.vararg, 'self.num_args'} and \
                any(isinstance(x, ast.Raise) for x in g.body):
            gok = True
    R.check(gok, fnf, guard[0] if guard else fnf.node, 'fn() rejects a wrong number of arguments', construct='fn arity guard')
    # seq_starts_with_fn
    sf = m.fn('_AnsiControlFn.seq_starts_with_fn')
    seq = sf.own_params()[0]
    body = sf.body
    sal = local_aliases(sf)
    # length guard: returns False exactly when len(seq) < len(setup)
    lg = None
    for st in body:
        if isinstance(st, ast.If) and isinstance(st.test, ast.Compare) and len(st.test.ops) == 1 and \
                len(st.body) == 1 and isinstance(st.body[0], ast.Return) and const_val(st.body[0].value) is False:
            lg = st
            break
    conj_ret = None
    if lg is None and body and isinstance(body[-1], ast.Return) and isinstance(body[-1].value, ast.BoolOp) and isinstance(body[-1].value.op, ast.And) and \
            isinstance(body[-1].value.values[0], ast.Compare) and len(body[-1].value.values[0].ops) == 1:
        # return <length test> and <element-wise test>: false exactly when the negated length test holds
        c0 = body[-1].value.values[0]
        from ..model import negate
        lg = ast.If(test=negate(c0), body=[ast.Return(value=ast.Constant(value=False))], orelse=[])
        ast.copy_location(lg, body[-1])
        ast.fix_missing_locations(lg)
        conj_ret = body[-1]
    if lg is None:
        R.viol(sf, sf.node, 'no length guard: a sequence shorter than the setup could match by zip() truncation', construct='length guard')
    else:
        from ..finite import cmp_regions
        l, r = canon(lg.test.left, sal), canon(lg.test.comparators[0], sal)
        want_l, want_r = 'len(%s)' % seq, 'len(self.setup_seq)'
        regions = cmp_regions(lg.test.ops[0], swapped=(l == want_r and r == want_l))
        other_ = r if l == want_l else l if r == want_l else None
        if {l, r} != {want_l, want_r} and other_ is not None and ('total_seq_count' in other_ or 'num_args' in other_) and \
                cmp_regions(lg.test.ops[0], swapped=(r == want_l)) == {'<'}:
            R.viol(sf, lg, 'the guard rejects every sequence shorter than %s, i.e. setup + arguments: a sequence that does start with the setup sequence but is cut short '
                           '([38, 5], [48, 2, 1, 2]) is reported as not starting with the function -- the parser then takes 38 for a colour code without setup, skips it and '
                           'reads the rest as single codes' % other_, construct='length guard')
        elif {l, r} != {want_l, want_r}:
            R.undecided(sf, lg, 'length guard compares %s with %s' % (l, r), construct='length guard')
        else:
            R.check(regions == {'<'}, sf, lg, 'guard rejects exactly len(seq) < len(setup_seq)',
                    'guard rejects regions %s of len(seq) vs len(setup_seq); exact is {<}' % sorted(regions), construct='length guard')
    loops = [n for n in sf.walk() if isinstance(n, ast.For)]
    lok = False
    for lp in loops:
        it = lp.iter
        if call_name(it) == 'zip' and {canon(a, sal) for a in it.args} == {'self.setup_seq', seq} and isinstance(lp.target, ast.Tuple):
            a, b = [x.id for x in lp.target.elts]
            for n in lp.body:
                if isinstance(n, ast.If) and isinstance(n.test, ast.Compare) and isinstance(n.test.ops[0], ast.NotEq) and \
                        {norm(n.test.left), norm(n.test.comparators[0])} == {a, b} and \
                        isinstance(n.body[0], ast.Return) and const_val(n.body[0].value) is False:
                    lok = True
    last = body[-1] if body else None
    qform = False
    if not lok and isinstance(last, ast.Return):
        from ..shapes import quantifier
        lv_ = last.value.values[-1] if conj_ret is not None and len(last.value.values) == 2 else last.value
        q = quantifier(lv_)
        if q is not None:
            kind, it, tgt, pred = q
            if call_name(it) == 'zip' and {canon(a, sal) for a in it.args} == {'self.setup_seq', seq} and isinstance(tgt, ast.Tuple) and kind == 'all':
                a, b = [x.id for x in tgt.elts]
                p_ = pred
                negd = False
                while isinstance(p_, ast.UnaryOp) and isinstance(p_.op, ast.Not):
                    negd = not negd
                    p_ = p_.operand
                if isinstance(p_, ast.Compare) and {norm(p_.left), norm(p_.comparators[0])} == {a, b} and \
                        ((isinstance(p_.ops[0], ast.Eq) and not negd) or (isinstance(p_.ops[0], ast.NotEq) and negd)):
                    lok = qform = True
    if lok or loops:
        R.check(lok, sf, loops[0] if loops else last, 'compares setup_seq with the head of seq element-wise from element 0', construct='prefix loop')
    else:
        R.undecided(sf, sf.node, 'element-wise comparison of the setup sequence not recognised', construct='prefix loop')
    R.check(qform or (isinstance(last, ast.Return) and const_val(last.value) is True), sf, last, 'returns True when no element differs',
            construct='final return')


_PFX = ('FG_', 'BG_', 'UL_', 'DUL_')


def _alias_norm(n):
    for p in _PFX:
        if n.startswith(p):
            break
    else:
        n = 'FG_' + n
    n = n.replace('GREY', 'GRAY').replace('COLOUR', 'COLOR')
    if n.endswith('ITALICS'):
        n = n[:-1]
    return n


@rule('T5', 'format-members: every AnsiFormat member is a same-named parameter, a spelling alias, or a colour-helper call '
            'with matching prefix / arity / range; FG/BG/UL/DUL siblings agree', floor=780)
def T5(m, R):
    F = get_folder(m)
    e = F.enum('AnsiFormat')
    P = F.enum('AnsiParam')
    mod = m.mod('ansi_format')
    W = _ModWhere(mod, 'AnsiFormat')
    sib = {}
    for name in e.order:
        node = e.nodes[name]
        cons = 'AnsiFormat.' + name
        if name in e.alias:
            tgt = e.alias[name]
            R.check(_alias_norm(name) == _alias_norm(tgt) or _alias_norm(name) == _alias_norm(e.canon(tgt)), W, node,
                    '%s is a spelling alias of %s' % (cons, tgt),
                    '%s aliases %s, which is a different setting' % (cons, tgt), construct=cons)
            continue
        val = e.members[name]
        if isinstance(val, int) and not isinstance(val, bool):
            # AnsiParam.Y.value with Y == NAME
            y = node.value.attr if (isinstance(node, ast.Attribute) and node.attr == 'value' and isinstance(node.value, ast.Attribute)) else None
            want = sgr.NAME_CODE.get(name)
            if want is not None:
                R.check(val == want, W, node, '%s = %d' % (cons, val), '%s = %d, the standard code for that name is %d' % (cons, val, want), construct=cons)
            else:
                R.check(y == name, W, node, '%s = AnsiParam.%s' % (cons, y), '%s takes the code of AnsiParam.%s' % (cons, y), construct=cons)
            continue
        if isinstance(val, Sym) and val.func.startswith('_AnsiControlFn.'):
            helper = val.func.split('.', 1)[1]
            mm = re.match(r'^(fg|bg|ul|dul)_(rgb|color256|colour256)$', helper)
            pfx = next((p for p in _PFX if name.startswith(p)), None)
            problems = []
            if not mm:
                problems.append('helper %s is not a <fg|bg|ul|dul>_<rgb|color256> builder' % helper)
            else:
                if pfx is None or mm.group(1).upper() + '_' != pfx:
                    problems.append('helper component %s_ differs from the name prefix %s' % (mm.group(1), pfx))
                arity = 3 if mm.group(2) == 'rgb' else 1
                args = val.args
                if len(args) != arity:
                    problems.append('%d arguments, %s takes %d here' % (len(args), helper, arity))
                for a in args:
                    if not (isinstance(a, int) and not isinstance(a, bool) and 0 <= a <= 255):
                        problems.append('argument %r is not an int literal in 0..255' % (a,))
                if pfx is not None and not problems:
                    sib.setdefault(name[len(pfx):], {})[pfx] = (mm.group(2).replace('colour', 'color'), tuple(args), node)
            if problems:
                R.viol(W, node, '%s = %s: %s' % (cons, short(node), '; '.join(problems)), construct=cons)
            else:
                R.ok(W, node, '%s = %s' % (cons, short(node)), construct=cons)
            continue
        R.undecided(W, node, '%s = %s has an unrecognised form' % (cons, short(node)), construct=cons)
    # siblings: the colour of FG_X, BG_X, UL_X, DUL_X is the same
    for base, d in sorted(sib.items()):
        if len(d) < 2:
            continue
        vals = {}
        for pfx, (kind, args, node) in d.items():
            vals.setdefault((kind, args), []).append(pfx)
        if len(vals) > 1:
            major = max(vals.items(), key=lambda kv: len(kv[1]))[0]
            for (kind, args), pfxs in vals.items():
                if (kind, args) != major:
                    for p in pfxs:
                        R.viol(W, d[p][2], 'AnsiFormat.%s%s is %s%r but its siblings are %s%r' % (p, base, kind, args, major[0], major[1]),
                               construct='siblings ' + base)
        else:
            R.ok(W, next(iter(d.values()))[2], 'the %d component variants of colour %s agree' % (len(d), base), construct='siblings ' + base)
    # __init__ : int -> (AnsiSetting(seq),), AnsiSetting -> (seq,), iterable -> int runs joined into one setting, in order
    init = m.fn('AnsiFormat.__init__')
    seq = init.own_params()[0]
    appended = [norm(n) for n in init.walk() if isinstance(n, ast.Call) and call_name(n) == 'append']
    ok_shape = any('AnsiSetting(current_ints)' in a or re.search(r'AnsiSetting\(\w+\)', a) for a in appended) and \
        any(isinstance(n, ast.Return) is False for n in init.walk())
    prop = m.fn('AnsiFormat.ansi_settings')
    ret = [n.value for n in prop.walk() if isinstance(n, ast.Return)]
    attr = ret[0].attr if ret and isinstance(ret[0], ast.Attribute) else None
    assigned = {n.targets[0].attr for n in init.walk() if isinstance(n, ast.Assign) and isinstance(n.targets[0], ast.Attribute)}
    R.check(attr in assigned, prop, prop.node, 'ansi_settings returns the tuple built by __init__',
            'ansi_settings returns %r which __init__ never assigns' % attr, construct='ansi_settings')


@rule('T6', 'escape-constants: ESC, CSI, separator, terminator, template, clear, terminator range, whitespace set; '
            'writer and reader share them', floor=8)
def T6(m, R):
    F = get_folder(m)
    mod = m.mod('ansi_format')
    want = {
        'ansi_sep': ';', 'ansi_escape': '\x1b', 'ansi_control_sequence_introducer': '\x1b[',
        'ansi_graphic_rendition_code_terminator': 'm', 'ansi_graphic_rendition_code_end': 'm',
        'ansi_graphic_rendition_format': '\x1b[{}m', 'ansi_escape_clear': '\x1b[m', 'ansi_term_ord_range': (0x40, 0x7E),
    }
    for name, val in want.items():
        node = m.const('ansi_format', name)
        W = _ModWhere(mod, name)
        if node is None:
            raise AnalysisError('anchor vanished: ansi_format.%s' % name)
        if name not in F.env:
            R.undecided(W, node, 'the value of %s could not be folded' % name, construct=name)
            continue
        got = F.env[name]
        R.check(got == val, W, node, '%s == %r' % (name, val), '%s folds to %r, the standard value is %r' % (name, got, val), construct=name)
    ws = m.const('ansi_string', 'WHITESPACE_CHARS')
    W = _ModWhere(m.mod('ansi_string'), 'WHITESPACE_CHARS')
    if ws is None:
        raise AnalysisError('anchor vanished: WHITESPACE_CHARS')
    got = F.env.get('WHITESPACE_CHARS')
    R.check(isinstance(got, str) and set(got) == set(' \t\n\r\v\f') and len(got) == 6, W, ws, "default strip set is ' \\t\\n\\r\\v\\f'",
            'default strip set folds to %r' % (got,), construct='WHITESPACE_CHARS')
    # reader uses the same constants: set_ansi_str calls the tokenizer with (s, False, TERMINATOR)
    f = m.fn('AnsiString.set_ansi_str')
    calls = [n for n in f.walk() if isinstance(n, ast.Call) and call_name(n) == 'ParsedAnsiControlSequenceString']
    if not calls:
        R.viol(f, f.node, 'set_ansi_str does not tokenise with ParsedAnsiControlSequenceString', construct='tokenizer call')
    for c in calls:
        tk = m.fn('ParsedAnsiControlSequenceString.__init__')
        ps = tk.own_params()
        bound = {}
        for i, a in enumerate(c.args):
            if i < len(ps):
                bound[ps[i]] = a
        for k in c.keywords:
            bound[k.arg] = k.value
        allow = bound.get(ps[1]) if len(ps) > 1 else None
        acc = bound.get(ps[2]) if len(ps) > 2 else None
        R.check(allow is not None and const_val(allow, 'x') is False, f, c,
                'unterminated sequences stay in the text (allow_empty_terminator=False)',
                'tokenizer called with allow_empty_terminator=%s: an unterminated CSI would be swallowed' % norm(allow), construct='allow_empty_terminator')
        try:
            accv = F.fold(acc) if acc is not None else None
        except Unfoldable:
            R.undecided(f, c, 'acceptable terminators %s could not be folded' % short(acc), construct='acceptable_terminators')
            continue
        R.check(accv == 'm', f, c, "only sequences ending in 'm' are removed", 'acceptable terminators fold to %r, SGR is %r' % (accv, 'm'),
                construct='acceptable_terminators')


@rule('T7', 'cursor-helpers: CSI + decimal parameters in order (";"-separated) + documented final byte', floor=13)
def T7(m, R):
    F = get_folder(m)
    mod = m.mod('ansi_string')
    lo, hi = F.env.get('ansi_term_ord_range', (None, None))
    for name, final in sgr.HELPER_FINAL.items():
        f = m.funcs.get(name)
        if f is None:
            alias = m.const('ansi_string', name)
            W = _ModWhere(mod, name)
            if alias is None:
                raise AnalysisError('anchor vanished: helper %s' % name)
            tgt = alias.id if isinstance(alias, ast.Name) else None
            R.check(tgt is not None and sgr.HELPER_FINAL.get(tgt) == final and tgt in m.funcs, W, alias,
                    '%s aliases %s' % (name, tgt), '%s aliases %s whose final byte differs' % (name, norm(alias)), construct=name)
            continue
        rets = [n for n in f.walk() if isinstance(n, ast.Return)]
        if len(rets) != 1:
            R.undecided(f, f.node, '%d return statements' % len(rets), construct=name)
            continue
        # a straight-line build-up of the sequence (seq = a + b; seq += c; return seq + d) is folded into one expression
        retv = rets[0].value
        env_ = {}
        straight = True
        for st_ in f.body:
            if st_ is rets[0]:
                break
            if isinstance(st_, ast.Assign) and len(st_.targets) == 1 and isinstance(st_.targets[0], ast.Name):
                env_[st_.targets[0].id] = subst(st_.value, env_)
            elif isinstance(st_, ast.AugAssign) and isinstance(st_.target, ast.Name) and isinstance(st_.op, ast.Add) and st_.target.id in env_:
                env_[st_.target.id] = ast.BinOp(left=env_[st_.target.id], op=ast.Add(), right=subst(st_.value, env_))
            elif isinstance(st_, ast.Expr) and isinstance(st_.value, ast.Constant):
                continue
            else:
                straight = False
        if env_ and straight:
            retv = subst(retv, {k_: v_ for k_, v_ in env_.items() if k_ not in f.params})
        elif env_ and not straight:
            R.undecided(f, f.node, 'the sequence is built by statements that are not straight-line', construct=name)
            continue
        parts = flatten_add(retv)
        vals = []
        for p in parts:
            if call_name(p) == 'str' and len(p.args) == 1 and isinstance(p.args[0], ast.Name):
                vals.append(('param', p.args[0].id))
            elif isinstance(p, ast.Name) and p.id in f.params:
                vals.append(('raw-param', p.id))
            else:
                try:
                    vals.append(('const', F.fold(p)))
                except Unfoldable:
                    vals.append(('?', norm(p)))
        want = [('const', '\x1b[')]
        for i, p in enumerate(f.params):
            if i:
                want.append(('const', ';'))
            want.append(('param', p))
        want.append(('const', final))
        # merge adjacent constants
        def merge(seq):
            out = []
            for k, v in seq:
                if out and k == 'const' and out[-1][0] == 'const':
                    out[-1] = ('const', out[-1][1] + v)
                else:
                    out.append((k, v))
            return out
        got = merge(vals)
        raw = [v for k, v in got if k == 'raw-param']
        if raw:
            R.viol(f, rets[0], 'parameter %s is concatenated to the sequence without str(): the documented int argument raises TypeError' % raw[0], construct=name)
            continue
        if any(k == '?' for k, _ in got):
            # arguments filtered by their truth value before they are written: 0 is an argument like any other (ESC[0J, row 0)
            filt = [c_ for c_ in ast.walk(retv) if isinstance(c_, (ast.ListComp, ast.GeneratorExp)) and len(c_.generators) == 1 and
                    isinstance(c_.generators[0].target, ast.Name) and any(is_name(t_, c_.generators[0].target.id) for t_ in c_.generators[0].ifs)]
            if filt:
                R.viol(f, rets[0], 'the arguments are filtered by their truth value (%s): an argument of 0 is dropped -- %s(0) gives CSI %s instead of CSI 0 %s'
                       % (short(filt[0]), name, final, final), construct=name)
                continue
            R.undecided(f, rets[0], 'return expression has an unfoldable part', construct=name)
            continue
        R.check(got == merge(want), f, rets[0], '%s returns CSI %s %s' % (name, ';'.join(f.params), final),
                '%s returns %r; documented is %r' % (name, got, merge(want)), construct=name)
        if isinstance(lo, int):
            R.check(lo <= ord(final) <= hi and all(not (lo <= ord(c) <= hi) for c in '0123456789;-'), f, rets[0],
                    'final byte inside, parameter bytes outside the tokenizer\'s terminator range', construct=name + ' bytes')


@rule('T10', 'exports: __init__ re-exports the documented public names and each resolves to a definition', floor=20)
def T10(m, R):
    mod = m.mod('__init__')
    W = _ModWhere(mod, '__init__')
    documented = ['AnsiFormat', 'AnsiString', 'AnsiStr', 'ColorComponentType', 'ColourComponentType', 'AnsiSetting',
                  'cursor_up_str', 'cursor_down_str', 'cursor_forward_str', 'cursor_backward_str', 'cursor_back_str',
                  'cursor_next_line_str', 'cursor_previous_line_str', 'cursor_horizontal_absolute_str', 'cursor_position_str',
                  'erase_in_display_str', 'erase_in_line_str', 'scroll_up_str', 'scroll_down_str', 'ansi_escape_clear',
                  'en_tty_ansi', 'ParsedAnsiControlSequenceString', 'parse_graphic_sequence', 'settings_to_dict',
                  'ansi_control_sequence_introducer']
    exported = {}
    for st in mod.tree.body:
        if isinstance(st, ast.ImportFrom) and st.level == 1:
            for a in st.names:
                exported[a.asname or a.name] = (st.module, a.name, st)

    def defined(modname, name, depth=0):
        if modname not in m.mods or depth > 3:
            return False
        md = m.mods[modname]
        for st in md.tree.body:
            if isinstance(st, (ast.FunctionDef, ast.ClassDef)) and st.name == name:
                return True
            if isinstance(st, ast.Assign) and any(isinstance(t, ast.Name) and t.id == name for t in st.targets):
                return True
            if isinstance(st, ast.ImportFrom) and st.level == 1:
                for a in st.names:
                    if (a.asname or a.name) == name and defined(st.module, a.name, depth + 1):
                        return True
        return False
    for name in documented:
        if name not in exported:
            R.viol(W, None, 'public name %s is not re-exported by the package' % name, construct='export ' + name)
            continue
        modname, orig, st = exported[name]
        R.check(orig == name and defined(modname, orig), W, st, '%s exported from .%s' % (name, modname),
                '%s is exported as .%s.%s which is not its definition' % (name, modname, orig), construct='export ' + name)

"""P3-P6: rendering paths of to_str, cursor discipline."""
import ast
import re

from ..model import AnalysisError, norm, short, call_name, const_val, flatten_add, is_attr, is_name, names_in
from ..report import rule
from ..consteval import get_folder, Unfoldable, EnumRef
from ..cfg import CFG, paths, PathExplosion, default_transfer
from ..finite import eval_guard, flag_valuation
from .P import _parents, _path_text


def _tostr_parts(m):
    ro = m.roles
    f = m.fn('AnsiString.to_str')
    loop = None
    for n in f.walk():
        if isinstance(n, ast.For) and call_name(n.iter) == ro.ITERATOR:
            loop = n
    if loop is None or not (isinstance(loop.target, ast.Tuple) and len(loop.target.elts) == 3):
        raise AnalysisError('anchor vanished: the settings-iterator loop of to_str')
    idx, point, active = [norm(x) for x in loop.target.elts]
    out = None
    rets = [n for n in f.walk() if isinstance(n, ast.Return) and isinstance(n.value, ast.Name)]
    if rets:
        out = rets[-1].value.id
    if out is None:
        raise AnalysisError('to_str: output accumulator not found')
    obj = norm(loop.iter.args[0])
    obj = obj[:-len(ro.TABLE) - 1] if obj.endswith('.' + ro.TABLE) else None
    return f, loop, idx, point, active, out, obj


def _classify_append(F, p, obj, TEXT, tainted):
    """kind of one operand appended to the output: TEXT / CLEAR / FORMAT(tainted?) / OTHER"""
    t = norm(p)
    if isinstance(p, ast.Subscript) and isinstance(p.slice, ast.Slice) and norm(p.value) in ('%s.%s' % (obj, TEXT), 'self.' + TEXT):
        return 'TEXT'
    try:
        v = F.fold(p)
        if v == '\x1b[m':
            return 'CLEAR'
    except Unfoldable:
        pass
    if isinstance(p, ast.Call) and isinstance(p.func, ast.Attribute) and p.func.attr == 'format':
        try:
            tmpl = F.fold(p.func.value)
        except Unfoldable:
            tmpl = None
        if tmpl == '\x1b[{}m' and len(p.args) == 1:
            a = p.args[0]
            is_t = any(isinstance(x, ast.Name) and x.id in tainted for x in ast.walk(a)) or 'AnsiParam.RESET' in norm(a)
            return 'FORMAT+RESET' if is_t else 'FORMAT'
    return 'OTHER:' + t


@rule('P3', 'reset-start-liveness: with reset_start the rendering begins with a reset on every path', floor=3)
def P3(m, R):
    ro = m.roles
    F = get_folder(m)
    f, loop, idx, point, active, out, obj = _tostr_parts(m)
    cfg = CFG(f.node, f.body)
    head = cfg.loop_of[loop]
    body_nodes = set()
    for n in ast.walk(loop):
        body_nodes.add(id(n))

    def make_transfer(ignore_text_in_body):
        def transfer(node, env):
            default_transfer(node, env)
            st = node.stmt
            if node.kind != 'stmt' or st is None:
                return
            tainted = env.get('#taint', frozenset())
            if isinstance(st, ast.Assign) and len(st.targets) == 1 and isinstance(st.targets[0], ast.Name):
                nme = st.targets[0].id
                v = st.value
                is_t = 'AnsiParam.RESET' in norm(v) or any(isinstance(x, ast.Name) and x.id in tainted for x in ast.walk(v))
                # taint only survives when the RESET literal / tainted name is the *leading* element of what is built
                env['#taint'] = (tainted | {nme}) if is_t else (tainted - {nme})
            if isinstance(st, ast.AugAssign) and is_name(st.target, out) and isinstance(st.op, ast.Add):
                for p in flatten_add(st.value):
                    k = _classify_append(F, p, obj, ro.TEXT, tainted)
                    if k in ('CLEAR', 'FORMAT+RESET'):
                        env.setdefault('#first', 'RESET')
                    elif k == 'TEXT':
                        if ignore_text_in_body and id(st) in body_nodes:
                            continue
                        env.setdefault('#first', 'TEXT')
                    elif k == 'FORMAT':
                        env.setdefault('#first', 'FORMAT-WITHOUT-RESET')
                    else:
                        env.setdefault('#first', k)
        return transfer

    # the leading reset decided before the loop from the smallest key of the table (`first = min(table, default=None)`): the cases "no point", "first point at 0",
    # "first point later" are then told apart by a value this path enumeration does not follow -- undecided, not a finding
    pre_decided = [n for n in f.walk() if isinstance(n, ast.Assign) and isinstance(n.targets[0], ast.Name) and isinstance(n.value, ast.Call) and
                   call_name(n.value) in ('min', 'next', 'sorted') and ro.TABLE in norm(n.value)]
    if pre_decided and any(isinstance(n, ast.Assign) and is_name(n.targets[0], out) and _classify_append(F, n.value, obj, ro.TEXT, frozenset()) == 'CLEAR' for n in f.walk()):
        for spec in (False, True):
            for label in ('first point at index 0', 'first point after index 0'):
                R.undecided(f, pre_decided[0], 'the leading reset is decided before the loop from %s: not followed' % short(pre_decided[0].value),
                            construct='reset_start / %s / format_spec %s' % (label, 'given' if spec else 'empty'))
        return
    scenarios = [
        ('first point at index 0', {'%s == 0' % idx: True, '%s > 0' % idx: False, '%s != 0' % idx: False, '0 == %s' % idx: True, 'not %s' % idx: True}, True),
        ('first point after index 0', {'%s == 0' % idx: False, '%s > 0' % idx: True, '%s != 0' % idx: True, '0 == %s' % idx: False, 'not %s' % idx: False}, False),
    ]
    base = {'reset_start': True}
    for spec in (False, True):
        for label, facts, ignore in scenarios:
            cons = 'reset_start / %s / format_spec %s' % (label, 'given' if spec else 'empty')
            env0 = dict(base)
            env0.update(facts)
            env0['format_spec'] = spec
            try:
                ps = paths(cfg, cfg.entry, None, env0=env0, transfer=make_transfer(ignore), max_visits=1, emit_blocked=True, limit=400000)
            except PathExplosion as e:
                R.undecided(f, loop, str(e), construct=cons)
                continue
            bad = []
            n_iter = 0
            for p, env in ps:
                last = p[-1]
                if last.kind == 'raise-exit':
                    continue
                went_through_body = any(nd is head for nd in p[:-1]) and last is head
                if went_through_body:
                    n_iter += 1
                first = env.get('#first')
                if first != 'RESET':
                    # a path that ends at function exit without any append is only possible through the early `return self._s`
                    if last.kind == 'exit' and first is None and any(nd.kind == 'return' and norm(nd.stmt.value) != out for nd in p):
                        bad.append((p, 'returns %s without a reset' % norm([nd for nd in p if nd.kind == 'return'][0].stmt.value)))
                    elif first is None and went_through_body:
                        bad.append((p, 'the first iteration ends without emitting anything: the reset is dropped'))
                    elif first is not None:
                        bad.append((p, 'the first thing appended is %s' % first))
            if bad:
                p, why = bad[0]
                R.viol(f, loop, 'reset_start=True, %s: %s (%d of %d paths)' % (label, why, len(bad), len(ps)), construct=cons, witness=_path_text(p, 24))
            else:
                R.ok(f, loop, 'on all %d paths the first non-empty append carries a reset' % len(ps), construct=cons)


@rule('P4', 'reset-end-flag: the final reset is guarded by a flag recomputed from the active list at every emitting iteration', floor=2)
def P4(m, R):
    ro = m.roles
    F = get_folder(m)
    f, loop, idx, point, active, out, obj = _tostr_parts(m)
    body = f.body
    after = body[body.index(loop) + 1:]
    final = None
    for st in after:
        if isinstance(st, ast.If) and any(isinstance(x, ast.AugAssign) and is_name(x.target, out) for x in st.body) and 'reset_end' in names_in(st.test):
            final = st
    cons = 'final reset'
    if final is None:
        R.viol(f, f.node, 'no `if <flag> and reset_end: out += clear` after the loop', construct=cons)
        return
    flag = sorted(names_in(final.test) - {'reset_end'})
    problems = []
    if len(flag) != 1:
        R.undecided(f, final, 'guard %s' % short(final.test), construct=cons)
        return
    flag = flag[0]
    tt = {(a, b): eval_guard(final.test, flag_valuation({flag: a, 'reset_end': b})) for a in (True, False) for b in (True, False)}
    if tt != {(True, True): True, (True, False): False, (False, True): False, (False, False): False}:
        problems.append('the reset is appended for (flag, reset_end) in %s; documented: only when both hold' % sorted(k for k, v in tt.items() if v))
    apps = [x for x in final.body if isinstance(x, ast.AugAssign)]
    kinds = [_classify_append(F, p, obj, ro.TEXT, set()) for a in apps for p in flatten_add(a.value)]
    if kinds != ['CLEAR']:
        problems.append('appends %s, expected the clear sequence' % kinds)
    if after.index(final) != len([s for s in after if not isinstance(s, ast.Return)]) - 1:
        problems.append('something is appended after the final reset')
    R.check(not problems, f, final, 'clear appended iff %s and reset_end, last' % flag, '; '.join(problems), construct=cons)
    # the flag assignment inside the loop
    cons = 'final reset flag'
    assigns = [s for s in ast.walk(loop) if isinstance(s, ast.Assign) and is_name(s.targets[0], flag)]
    problems = []
    direct = [s for s in loop.body if s in assigns]
    if not direct:
        problems.append('%s is not assigned unconditionally in the loop body (its value would depend on a local decision)' % flag)
    else:
        a = direct[-1]
        v = norm(a.value)
        if v not in ('bool(%s)' % active, 'len(%s) > 0' % active, 'len(%s) != 0' % active, '%s != []' % active, 'not not %s' % active):
            problems.append('%s = %s; it must tell whether any setting is still active (bool(%s))' % (flag, v, active))
        # after the last emission in the body
        # the value depends on the active list only: where in the body it is taken does not matter as long as that list is the same at the end of the
        # iteration and the flag is not read later in the same iteration (it would then be this iteration's value instead of the previous one's)
        later = loop.body[loop.body.index(a) + 1:]
        if any(isinstance(x, ast.Name) and x.id == flag and isinstance(x.ctx, ast.Load) for s in later for x in ast.walk(s)):
            problems.append('%s is read later in the same iteration: it then holds this point\'s value, not the previous point\'s' % flag)
        left = [x for s in later for x in ast.walk(s) if isinstance(x, (ast.Break, ast.Continue, ast.Return))]
        if left:
            problems.append('the flag is taken before the iteration can still be abandoned (L%d): a point at or beyond the end of the text, which emits nothing, '
                            'would decide whether the final reset is written' % left[0].lineno)
        for s in later:
            for x in ast.walk(s):
                if (isinstance(x, ast.Call) and isinstance(x.func, ast.Attribute) and norm(x.func.value) == active and
                        x.func.attr in ('append', 'extend', 'insert', 'pop', 'remove', 'clear', 'sort', 'reverse')) or \
                        (isinstance(x, (ast.Assign, ast.AugAssign, ast.Delete)) and any(
                            norm(t_) == active or (isinstance(t_, ast.Subscript) and norm(t_.value) == active)
                            for t_ in (x.targets if isinstance(x, (ast.Assign, ast.Delete)) else [x.target]))):
                    problems.append('the active list is changed (%s) after the flag was taken from it' % short(x))
    init = [s for s in body[:body.index(loop)] if isinstance(s, ast.Assign) and is_name(s.targets[0], flag)]
    if not init or const_val(init[-1].value, None) is not False:
        problems.append('%s does not start False' % flag)
    R.check(not problems, f, direct[-1] if direct else loop, '%s = bool(active list) at the end of every iteration, False initially' % flag,
            '; '.join(problems), construct=cons)


@rule('P5', 'sink-discipline: to_str appends only text slices, the clear sequence, or the SGR template around the code list', floor=5)
def P5(m, R):
    ro = m.roles
    F = get_folder(m)
    f, loop, idx, point, active, out, obj = _tostr_parts(m)
    apps = [n for n in f.walk() if isinstance(n, ast.AugAssign) and is_name(n.target, out)]
    others = [n for n in f.walk() if isinstance(n, ast.Assign) and any(is_name(t, out) for t in n.targets)]
    for n in others:
        ok = const_val(n.value, None) == '' or _classify_append(F, n.value, obj, ro.TEXT, set()) == 'CLEAR'
        R.check(ok, f, n, 'output starts empty (or with the clear sequence)', 'output is (re)assigned %s' % short(n.value), construct='out init')
    for a in apps:
        for p in flatten_add(a.value):
            k = _classify_append(F, p, obj, ro.TEXT, set())
            R.check(not k.startswith('OTHER'), f, a, 'appends %s' % k,
                    'appends %s: neither a slice of the text, the clear sequence nor TEMPLATE.format(codes) -- raw setting text would reach the output '
                    'outside an escape sequence' % short(p), construct='append ' + re.sub(r'\s+', ' ', norm(a.value))[:80])
    # the non-optimised code list: RESET first when the point has stop markers and something stays active
    cons = 'reset before re-applying'
    hit = None
    from ..shapes import local_aliases, canon
    al_ = local_aliases(f)

    def cn(x):
        return canon(x, al_)
    for n in ast.walk(loop):
        if isinstance(n, ast.If) and any((isinstance(x, ast.Assign) and 'AnsiParam.RESET' in cn(x.value) and isinstance(x.value, ast.BinOp)) or
                                         (isinstance(x, ast.Expr) and call_name(x.value) == 'insert' and 'AnsiParam.RESET' in cn(x.value)) for x in n.body):
            hit = n
            break
    if hit is None:
        R.viol(f, loop, 'the code list is never prefixed with RESET when settings end: ended settings would stay on in the non-optimised rendering', construct=cons)
    else:
        problems = []
        ins = [x for x in hit.body if isinstance(x, ast.Expr) and call_name(x.value) == 'insert']
        if ins:
            c = ins[0].value
            lst = norm(c.func.value)
            if not (len(c.args) == 2 and const_val(c.args[0], None) == 0 and cn(c.args[1]) == 'str(AnsiParam.RESET.value)'):
                problems.append('%s; expected RESET inserted at the front' % short(c))
        else:
            asg = [x for x in hit.body if isinstance(x, ast.Assign)][0]
            lst = norm(asg.targets[0])
            parts = flatten_add(asg.value)
            if not (len(parts) == 2 and cn(parts[0]) == '[str(AnsiParam.RESET.value)]' and norm(parts[1]) == lst):
                problems.append('%s = %s; expected [RESET] + %s' % (lst, short(asg.value), lst))
        stop = '%s.%s' % (point, ro.STOP)
        tt = {}
        for a in (True, False):
            for b in (True, False):
                tt[(a, b)] = eval_guard(hit.test, flag_valuation({}, {stop: a, lst: b, 'not ' + stop: not a, 'not ' + lst: not b}))
        if tt.get((True, True)) is not True:
            problems.append('no RESET although settings stop here and others stay active (guard %s)' % short(hit.test))
        if tt.get((False, True)) is True:
            problems.append('RESET emitted although nothing stops here')
        R.check(not problems, f, hit, 'if point.STOP and codes: codes = [RESET] + codes', '; '.join(problems), construct=cons)
    # the code list is built from str() of every active setting, in order
    cons = 'code list source'
    src = [n for n in ast.walk(loop) if isinstance(n, ast.Assign) and isinstance(n.value, ast.ListComp) and
           norm(n.value.generators[0].iter) == active]
    ok = bool(src) and norm(src[0].value.elt) == 'str(%s)' % norm(src[0].value.generators[0].target) and not src[0].value.generators[0].ifs
    R.check(ok, f, src[0] if src else loop, 'codes = [str(s) for s in <active list>] (every active setting, in precedence order)', construct=cons)


@rule('P6', 'text-cursor: cursors over the base text start at 0, each appended slice is [last:key] followed by last <- key, '
            'the rest [last:] is appended before returning', floor=6)
def P6(m, R):
    ro = m.roles
    F = get_folder(m)
    # (1) to_str and formatted_str
    f1, loop, idx, point, active, out, obj = _tostr_parts(m)
    f2 = m.fn('ParsedAnsiControlSequenceString.formatted_str')
    for f, textexpr in ((f1, '%s.%s' % (obj, ro.TEXT)), (f2, None)):
        cons_base = f.qual
        slices = []
        for n in f.walk():
            if isinstance(n, ast.AugAssign) and isinstance(n.op, ast.Add):
                for p in flatten_add(n.value):
                    if isinstance(p, ast.Subscript) and isinstance(p.slice, ast.Slice) and (textexpr is None or norm(p.value) == textexpr) and \
                            re.match(r'^\w+\.\w+$', norm(p.value)):
                        slices.append((n, p))
        if not slices:
            R.viol(f, f.node, 'no slice of the text is ever appended', construct=cons_base + ' cursor')
            continue
        cur = None
        for n, p in slices:
            if isinstance(p.slice.lower, ast.Name):
                cur = p.slice.lower.id
        if cur is None:
            R.undecided(f, slices[0][0], 'cursor variable not found', construct=cons_base + ' cursor')
            continue
        inits = [s for s in f.body if isinstance(s, ast.Assign) and is_name(s.targets[0], cur)]
        R.check(bool(inits) and const_val(inits[0].value, None) == 0, f, inits[0] if inits else f.node, 'cursor %s starts at 0' % cur,
                'cursor %s starts at %s' % (cur, norm(inits[0].value) if inits else None), construct=cons_base + ' cursor init')
        mids = [(n, p) for n, p in slices if p.slice.upper is not None]
        tails = [(n, p) for n, p in slices if p.slice.upper is None]
        if not mids and any(isinstance(x, ast.For) for x in f.walk()):
            R.viol(f, f.node, 'inside the loop no text slice [%s:<position>] is appended: the text between two positions is emitted only after all sequences' % cur,
                   construct=cons_base + ' slice')
        for n, p in mids:
            key = norm(p.slice.upper)
            problems = []
            if norm(p.slice.lower) != cur or p.slice.step is not None:
                problems.append('slice is %s, expected [%s:%s]' % (short(p), cur, key))
            # the same statement list must assign cur = key after it, before the next append of a slice
            lst = None
            par = n._parent
            for fld in ('body', 'orelse'):
                L = getattr(par, fld, None)
                if isinstance(L, list) and n in L:
                    lst = L
            upd = None
            if lst is not None:
                for s in lst[lst.index(n) + 1:]:
                    if isinstance(s, ast.Assign) and is_name(s.targets[0], cur):
                        upd = s
                        break
                    if isinstance(s, (ast.Break, ast.Continue, ast.Return)):
                        break
            if upd is None:
                problems.append('the cursor is not advanced after the slice on the same path (the same characters would be emitted again / skipped)')
            elif norm(upd.value) != key:
                problems.append('the cursor becomes %s after appending up to %s' % (norm(upd.value), key))
            R.check(not problems, f, n, 'append [%s:%s]; %s = %s' % (cur, key, cur, key), '; '.join(problems), construct=cons_base + ' slice')
        ok = len(tails) >= 1 and all(norm(p.slice.lower) == cur for n, p in tails)
        # tail must be at function level after the loop (on every path to the final return)
        top = [n for n, p in tails if n in f.body]
        R.check(ok and bool(top), f, tails[0][0] if tails else f.node, 'the rest [%s:] is appended before returning' % cur,
                'the remaining text [%s:] is not appended on every path to the return' % cur, construct=cons_base + ' tail')
    # (the piece cursors of _split / splitlines are interpreted symbolically by rule P14)

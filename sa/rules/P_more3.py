"""Rules added after the second round of independently seeded changes: F13 dispatch order of isinstance chains, P29 order-dependent
consumption of the (unordered) point table, P30 agreement of the two places that read a setting's first code."""
import ast
import re

from ..model import AnalysisError, norm, short, call_name, const_val, is_name, names_in
from ..report import rule
from ..finite import Undecided, eval_guard, flag_valuation
from ..consteval import get_folder
from .P import _parents


# ----------------------------------------------------------------------------------------------------------------------
def _class_parents(m):
    """class name -> set of all (transitive) base names, for the package's classes and the builtins that matter here"""
    direct = {'bool': {'int'}}
    for c in m.classes.values():
        direct[c.name] = {b.split('.')[-1] for b in c.bases}
    out = {}

    def up(n, seen):
        for b in direct.get(n, ()):
            if b not in seen:
                seen.add(b)
                up(b, seen)
        return seen
    for n in direct:
        out[n] = up(n, set())
    return out


def _isinstance_classes(t):
    """(variable text, [class names]) if the test is exactly `isinstance(x, C)` / `isinstance(x, (C, D))` or an `or` of such on one x"""
    if isinstance(t, ast.BoolOp) and isinstance(t.op, ast.Or):
        parts = [_isinstance_classes(v) for v in t.values]
        if all(p is not None for p in parts) and len({p[0] for p in parts}) == 1:
            return parts[0][0], [c for p in parts for c in p[1]]
        return None
    if isinstance(t, ast.Call) and call_name(t) == 'isinstance' and len(t.args) == 2 and isinstance(t.func, ast.Name):
        c = t.args[1]
        names = [norm(x).split('.')[-1] for x in c.elts] if isinstance(c, (ast.Tuple, ast.List)) else [norm(c).split('.')[-1]]
        return norm(t.args[0]), names
    return None


def _exits(stmts):
    return bool(stmts) and isinstance(stmts[-1], (ast.Return, ast.Raise, ast.Continue, ast.Break))


@rule('F13', 'dispatch-order: in a chain of isinstance tests on one value a class is tested before any of its base classes '
             '(an AnsiStr is a str: testing str first makes the AnsiStr arm unreachable)', floor=2)
def F13(m, R):
    par = _class_parents(m)
    for f in m.funcs.values():
        seqs = []          # lists of (test node, var, classes, arm) that are tried in order on the same value
        for n in f.walk():
            if isinstance(n, ast.If) and not (isinstance(getattr(n, '_parent', None), ast.If) and n in n._parent.orelse and len(n._parent.orelse) == 1):
                chain = []
                cur = n
                while cur is not None:
                    ic = _isinstance_classes(cur.test)
                    chain.append((cur, ic))
                    cur = cur.orelse[0] if len(cur.orelse) == 1 and isinstance(cur.orelse[0], ast.If) else None
                seqs.append(chain)
        # consecutive top-level ifs whose arms all leave: behave like a chain
        for blk in [f.body] + [getattr(x, fld) for x in f.walk() for fld in ('body', 'orelse') if isinstance(getattr(x, fld, None), list)]:
            run = []
            for st in blk:
                if isinstance(st, ast.If) and not st.orelse and _exits(st.body) and _isinstance_classes(st.test) is not None:
                    run.append((st, _isinstance_classes(st.test)))
                else:
                    if len(run) > 1:
                        seqs.append(run)
                    run = [(st, _isinstance_classes(st.test))] if isinstance(st, ast.If) and _isinstance_classes(st.test) is not None and not st.orelse and False else []
            if len(run) > 1:
                seqs.append(run)
        for chain in seqs:
            tests = [(node, ic) for node, ic in chain if ic is not None]
            if len(tests) < 2:
                continue
            related = False
            bad = None
            for i, (ni, (vi, ci)) in enumerate(tests):
                for nj, (vj, cj) in tests[i + 1:]:
                    if vi != vj:
                        continue
                    for c2 in cj:
                        if any(c1 in par.get(c2, ()) for c1 in ci):
                            related = True
                            # every class of the later arm below a class of the earlier arm -> unreachable
                    if cj and all(any(c1 == c2 or c1 in par.get(c2, ()) for c1 in ci) for c2 in cj):
                        if bad is None:
                            bad = (ni, nj, ci, cj)
                    for c1 in ci:
                        if any(c2 in par.get(c1, ()) for c2 in cj):
                            related = True
            if not related and bad is None:
                continue
            cons = 'dispatch order: %s on %s' % (f.qual, tests[0][1][0])
            if bad is not None:
                ni, nj, ci, cj = bad
                R.viol(f, nj, '`%s` is tested after `%s`: every %s is a %s, so this arm never runs and such a value is handled as a plain %s' % (
                    short(nj.test), short(ni.test), '/'.join(cj), '/'.join(ci), '/'.join(ci)), construct=cons)
            else:
                R.ok(f, tests[0][0], 'subclasses are tested before their base classes (%s)' % ' -> '.join('/'.join(ic[1]) for _, ic in tests), construct=cons)


# ----------------------------------------------------------------------------------------------------------------------
@rule('P29', 'table-order: the point table is an unordered map (its insertion order is the history of the string); nothing may depend on '
             'its iteration order -- first / last element, or a scan that stops at a key comparison -- without sorting', floor=6)
def P29(m, R):
    ro = m.roles
    TABLE = ro.TABLE

    def is_table(e):
        """<obj>.TABLE or its .keys() / .items() / .values() / iter() / list() of those"""
        if isinstance(e, ast.Attribute) and e.attr == TABLE:
            return True
        if isinstance(e, ast.Call) and isinstance(e.func, ast.Attribute) and e.func.attr in ('keys', 'items', 'values') and is_table(e.func.value):
            return True
        if isinstance(e, ast.Call) and call_name(e) in ('iter', 'list', 'tuple', 'enumerate', 'reversed') and len(e.args) == 1 and isinstance(e.func, ast.Name):
            return is_table(e.args[0])
        return False
    for f in m.funcs.values():
        if f.mod.name != 'ansi_string':
            continue
        for n in f.walk():
            cons = None
            # first / last / k-th element
            if isinstance(n, ast.Call) and call_name(n) == 'next' and n.args and is_table(n.args[0]) and isinstance(n.func, ast.Name):
                cons = 'takes the first key/point of the table in insertion order'
            elif isinstance(n, ast.Subscript) and isinstance(n.value, ast.Call) and call_name(n.value) in ('list', 'tuple') and n.value.args and \
                    is_table(n.value.args[0]) and not isinstance(n.slice, ast.Slice):
                cons = 'indexes the table\'s keys/points by insertion position'
            elif isinstance(n, ast.Call) and isinstance(n.func, ast.Attribute) and n.func.attr == 'popitem' and is_table(n.func.value):
                cons = 'pops the most recently inserted point'
            if cons:
                R.viol(f, n, '`%s` %s: points are inserted in the order operations were applied, not in index order '
                             '(apply_formatting(x, 5, 9) then apply_formatting(y, 0, 4) puts key 5 first)' % (short(n), cons),
                       construct='table order: %s %s' % (f.qual, short(n, 40)))
                continue
            if isinstance(n, (ast.For, ast.comprehension)) and is_table(n.iter):
                what = 'table order: %s for %s in %s' % (f.qual, short(n.target, 30), short(n.iter, 40))
                if isinstance(n, ast.comprehension):
                    R.ok(f, n.iter, 'a comprehension visits every point', construct=what)
                    continue
                keys = set()
                it = n.iter
                # which loop variables hold keys
                if isinstance(n.target, ast.Name) and not (isinstance(it, ast.Call) and isinstance(it.func, ast.Attribute) and it.func.attr == 'values'):
                    keys.add(n.target.id)
                elif isinstance(n.target, ast.Tuple) and n.target.elts and isinstance(n.target.elts[0], ast.Name):
                    keys.add(n.target.elts[0].id)
                bad = None
                for x in ast.walk(ast.Module(body=n.body, type_ignores=[])):
                    if isinstance(x, (ast.Break, ast.Return)):
                        g = next((p_ for p_ in _parents(x) if isinstance(p_, ast.If) and any(p_ is y for y in ast.walk(n))), None)
                        if g is not None and any(isinstance(c, ast.Compare) and isinstance(c.ops[0], (ast.Lt, ast.LtE, ast.Gt, ast.GtE)) and (names_in(c) & keys)
                                                 for c in ast.walk(g.test)):
                            bad = (x, g)
                if bad:
                    R.viol(f, bad[1], 'the scan over %s stops at `%s`: that assumes the keys come in ascending order, but the table is in insertion order' % (
                        short(n.iter), short(bad[1].test)), construct=what)
                else:
                    R.ok(f, n, 'visits every point (no early exit on a key comparison)', construct=what)
            elif isinstance(n, (ast.For, ast.comprehension)) and isinstance(n.iter, ast.Call) and call_name(n.iter) in ('sorted',) and n.iter.args and is_table(n.iter.args[0]):
                R.ok(f, n.iter, 'iterates the table sorted', construct='table order: %s %s' % (f.qual, short(n.iter, 40)))


# ----------------------------------------------------------------------------------------------------------------------
# token classes of one ;-separated piece of a setting string
_TOK = ('digits', 'padded digits', 'other text', 'empty')


class _LocalHelper:
    """a nested def used as the convert-or-keep helper of to_list"""
    def __init__(self, node):
        self.node = node
        self.name = node.name
        self.body = [b for b in node.body if not (isinstance(b, ast.Expr) and isinstance(b.value, ast.Constant))]
        self.params = [a.arg for a in node.args.args]
        self.self_name = None

    def own_params(self):
        return list(self.params)


def _conv_helper(m, tl, name):
    """the one-argument helper a comprehension of to_list calls: a module function, a method of AnsiSetting, or a def nested in to_list"""
    h = m.funcs.get(name) or m.funcs.get('AnsiSetting.%s' % name)
    if h is not None:
        return h
    for n in tl.node.body:
        if isinstance(n, ast.FunctionDef) and n.name == name:
            return _LocalHelper(n)
    return None


def _own_returns(f):
    """Return statements of f itself (not of defs nested in it)"""
    out = []
    stack = list(f.node.body)
    while stack:
        n = stack.pop()
        if isinstance(n, (ast.FunctionDef, ast.AsyncFunctionDef, ast.Lambda, ast.ClassDef)):
            continue
        if isinstance(n, ast.Return):
            out.append(n)
        stack.extend(ast.iter_child_nodes(n))
    return out



def _tok_eval(e, env):
    """abstract value of a string expression: one of _TOK, or ('int', cls) for int(<token>) that succeeds; raises ValueError-marker / Undecided"""
    if isinstance(e, ast.Name) and e.id in env:
        return env[e.id]
    if isinstance(e, ast.Subscript) and isinstance(e.value, ast.Name) and e.value.id in env and isinstance(env[e.value.id], tuple) and env[e.value.id][0] == 'list' \
            and const_val(e.slice, None) == 0:
        return env[e.value.id][1]
    if isinstance(e, ast.Call) and isinstance(e.func, ast.Attribute) and e.func.attr == 'strip' and not e.args:
        v = _tok_eval(e.func.value, env)
        return {'padded digits': 'digits'}.get(v, v)
    if isinstance(e, ast.Call) and call_name(e) == 'int' and isinstance(e.func, ast.Name) and len(e.args) == 1:
        v = _tok_eval(e.args[0], env)
        if v in ('digits', 'padded digits'):
            return ('int', v)
        raise _TokError()
    if isinstance(e, ast.Call) and call_name(e) == 'AnsiParam' and len(e.args) == 1:
        v = _tok_eval(e.args[0], env)
        if isinstance(v, tuple) and v[0] == 'int':
            return ('param', v[1])
        raise _TokError()
    # TABLE.get(<token>) / TABLE[<token>] on a module-level table keyed by the canonical decimal spelling of the codes: only a token that is
    # exactly such a spelling is found -- blanks around it (and a leading zero) make the look-up miss where int() would succeed
    tbl = None
    key = None
    if isinstance(e, ast.Call) and isinstance(e.func, ast.Attribute) and e.func.attr == 'get' and isinstance(e.func.value, ast.Name) and 1 <= len(e.args) <= 2 and \
            (len(e.args) == 1 or const_val(e.args[1], 0) is None):
        tbl, key = e.func.value.id, e.args[0]
    if tbl is not None and _TOK_FOLDER is not None:
        d = _TOK_FOLDER.env.get(tbl)
        if isinstance(d, dict) and d and all(isinstance(k, str) and k.isdigit() and str(int(k)) == k for k in d):
            v = _tok_eval(key, env)
            if v == 'digits':
                return ('param', 'digits')
            if v in ('padded digits', 'other text', 'empty'):
                return 'none'
    raise Undecided('expression %s' % short(e))


_TOK_FOLDER = None


class _TokError(Exception):
    """the abstract evaluation met a ValueError (int() of non-numeric text)"""


def _tok_truth(t, env):
    if isinstance(t, ast.UnaryOp) and isinstance(t.op, ast.Not):
        return not _tok_truth(t.operand, env)
    if isinstance(t, ast.BoolOp):
        for v in t.values:
            r = _tok_truth(v, env)
            if isinstance(t.op, ast.And) and not r:
                return False
            if isinstance(t.op, ast.Or) and r:
                return True
        return isinstance(t.op, ast.And)
    if isinstance(t, ast.Name) and t.id in env and isinstance(env[t.id], tuple) and env[t.id][0] == 'list':
        return True        # str.split always yields at least one piece
    if isinstance(t, ast.Call) and isinstance(t.func, ast.Attribute) and t.func.attr in ('isdigit', 'isdecimal', 'isnumeric') and not t.args:
        return _tok_eval(t.func.value, env) == 'digits'
    if isinstance(t, (ast.Name, ast.Subscript, ast.Call)):
        v = _tok_eval(t, env)
        if v in _TOK:
            return v != 'empty'
    raise Undecided('test %s' % short(t))


def _tok_run(stmts, env):
    """-> returned abstract value (None for `return None` / falling off)"""
    for st in stmts:
        if isinstance(st, ast.If):
            r = _tok_run(st.body if _tok_truth(st.test, env) else st.orelse, env)
            if r is not _FALL:
                return r
        elif isinstance(st, ast.Return):
            if st.value is None or (isinstance(st.value, ast.Constant) and st.value.value is None):
                return None
            return _tok_eval(st.value, env)
        elif isinstance(st, ast.Assign) and len(st.targets) == 1 and isinstance(st.targets[0], ast.Name):
            v = st.value
            if isinstance(v, ast.Call) and isinstance(v.func, ast.Attribute) and v.func.attr == 'split' and re.match(r'^self\.\w+$', norm(v.func.value)):
                env[st.targets[0].id] = ('list', env['<first>'])
            elif isinstance(v, ast.Constant) and v.value is None:
                env[st.targets[0].id] = None
            else:
                env[st.targets[0].id] = _tok_eval(v, env)
        elif isinstance(st, ast.Try):
            saved = dict(env)
            try:
                r = _tok_run(st.body, env)
                if r is _FALL:
                    r = _tok_run(st.orelse, env)
            except _TokError:
                env.clear()
                env.update(saved)
                h = next((h_ for h_ in st.handlers if h_.type is None or 'ValueError' in norm(h_.type) or norm(h_.type) == 'Exception'), None)
                if h is None:
                    raise
                r = _tok_run(h.body, env)
            if r is not _FALL:
                return r
        elif isinstance(st, (ast.Expr, ast.Pass)):
            continue
        else:
            raise Undecided('statement %s' % short(st))
    return _FALL


_FALL = object()


@rule('P30', 'first-code agreement: a first code that to_list (hence parsable) reads as an integer is also given an initial parameter by '
             'get_initial_param -- otherwise a parsable setting has no effect in the optimised rendering and is dropped', floor=2)
def P30(m, R):
    gi = m.fn('AnsiSetting.get_initial_param')
    tl = m.fn('AnsiSetting.to_list')
    # how to_list converts one token: the element expression appended on the no-exception path of its loop, evaluated per token class
    lp = next((n for n in tl.walk() if isinstance(n, ast.For)), None)
    comp = next((n for n in tl.walk() if isinstance(n, ast.ListComp)), None)
    conv = {}
    try:
        for cls in _TOK:
            if lp is not None and isinstance(lp.target, ast.Name):
                env = {lp.target.id: cls}
                got = ['?']

                def body_run(stmts):
                    for st in stmts:
                        if isinstance(st, ast.Try):
                            saved = dict(env)
                            try:
                                body_run(st.body)
                                body_run(st.orelse)
                            except _TokError:
                                env.clear()
                                env.update(saved)
                                for h in st.handlers:
                                    body_run(h.body)
                        elif isinstance(st, ast.Assign) and len(st.targets) == 1 and isinstance(st.targets[0], ast.Name):
                            env[st.targets[0].id] = _tok_eval(st.value, env)
                        elif isinstance(st, ast.Expr) and isinstance(st.value, ast.Call) and call_name(st.value) == 'append':
                            got[0] = _tok_eval(st.value.args[0], env)
                        elif isinstance(st, (ast.Expr, ast.Pass)):
                            continue
                        else:
                            raise Undecided('statement %s' % short(st))
                body_run(lp.body)
                conv[cls] = got[0]
            elif comp is not None and len(comp.generators) == 1 and isinstance(comp.generators[0].target, ast.Name) and not comp.generators[0].ifs:
                env = {comp.generators[0].target.id: cls}
                e_ = comp.elt
                h_ = None
                if isinstance(e_, ast.Call) and len(e_.args) == 1 and not e_.keywords and call_name(e_) not in ('int', 'AnsiParam'):
                    h_ = _conv_helper(m, tl, call_name(e_))
                if h_ is not None:
                    ps_ = h_.own_params() if h_.self_name else h_.params
                    try:
                        conv[cls] = _tok_run(h_.body, {ps_[0]: _tok_eval(e_.args[0], env)})
                    except _TokError:
                        raise Undecided('helper %s lets ValueError escape' % h_.name)
                else:
                    try:
                        conv[cls] = _tok_eval(e_, env)
                    except _TokError:
                        raise Undecided('the comprehension of to_list lets ValueError escape')
            else:
                raise Undecided('to_list is not a loop over the pieces')
    except Undecided as e:
        R.undecided(tl, tl.node, 'token conversion of to_list not interpreted: %s' % e, construct='first code: to_list')
        return
    R.ok(tl, lp, 'to_list reads a piece as an integer for the classes %s' % sorted(k for k, v in conv.items() if isinstance(v, tuple)), construct='first code: to_list')
    global _TOK_FOLDER
    _TOK_FOLDER = get_folder(m)
    for cls in _TOK:
        cons = 'first code: %s' % cls
        try:
            r = _tok_run(gi.body, {'<first>': cls})
        except _TokError:
            r = 'ValueError'
        except Undecided as e:
            R.undecided(gi, gi.node, 'get_initial_param not interpreted: %s' % e, construct=cons)
            continue
        is_int = isinstance(conv.get(cls), tuple) and conv[cls][0] == 'int'
        has_param = isinstance(r, tuple) and r[0] == 'param'
        if r == 'ValueError':
            R.viol(gi, gi.node, 'for a first piece of class "%s" get_initial_param raises ValueError instead of returning None' % cls, construct=cons)
        elif is_int and not has_param:
            R.viol(gi, gi.node, 'to_list reads a first piece of class "%s" (e.g. " 1") as the integer code, so the setting can be parsable, but get_initial_param '
                                'returns None for it: the optimised rendering finds no effect for the setting and drops it' % cls, construct=cons)
        elif has_param and not is_int:
            R.viol(gi, gi.node, 'get_initial_param finds a parameter in a first piece of class "%s" that to_list does not read as an integer' % cls, construct=cons)
        else:
            R.ok(gi, gi.node, 'class "%s": to_list %s, get_initial_param %s' % (cls, 'int' if is_int else 'text', 'parameter' if has_param else 'None'), construct=cons)


@rule('F14', 'selection-predicate: remove_formatting selects a setting iff no selection was requested (None) or the setting equals a requested one; '
             'a selection that was given but scrubs to nothing selects nothing', floor=2)
def F14(m, R):
    """The selection variable is what the scrubber returned (or None).  Every test of the function that asks `<s> in SEL` / `not in SEL`
    and whose other atoms only look at SEL itself is evaluated in the four scenarios SEL = None, [] (given, empty after the scrub),
    a list containing s, a list without s.  It must be the selection predicate (True, False, True, False) or its exact complement."""
    from ..finite import eval_guard
    ro = m.roles
    f = m.fn('AnsiString.remove_formatting')
    sels = {norm(n.targets[0]) for n in f.walk() if isinstance(n, ast.Assign) and isinstance(n.targets[0], ast.Name) and call_name(n.value) == ro.SCRUB}
    if len(sels) != 1:
        raise AnalysisError('anchor vanished: the scrubbed selection of remove_formatting')
    SEL = next(iter(sels))
    tests = []
    for n in f.walk():
        if isinstance(n, (ast.If, ast.IfExp, ast.While)):
            tests.append((n, n.test))
        elif isinstance(n, ast.comprehension):
            for c in n.ifs:
                tests.append((c, c))
    n_sites = 0
    for node, t in tests:
        members = [x for x in ast.walk(t) if isinstance(x, ast.Compare) and len(x.ops) == 1 and isinstance(x.ops[0], (ast.In, ast.NotIn)) and
                   norm(x.comparators[0]) == SEL]
        if not members:
            continue
        elem = norm(members[0].left)
        table = []
        for scen, truth in (('None', True), ('[]', False), ('[.. %s ..]' % elem, True), ('[.. other ..]', False)):
            is_none, empty, has = scen == 'None', scen == '[]', scen.startswith('[.. %s' % elem)

            def val(a, is_none=is_none, empty=empty, has=has):
                tx = norm(a)
                if tx == '%s is None' % SEL or tx == '%s == None' % SEL:
                    return is_none
                if tx == '%s is not None' % SEL or tx == '%s != None' % SEL:
                    return not is_none
                if tx == SEL:
                    return not (is_none or empty)
                if tx in ('len(%s) == 0' % SEL, '%s == []' % SEL):
                    return None if is_none else empty
                if tx in ('len(%s) > 0' % SEL, 'len(%s)' % SEL, '%s != []' % SEL, 'len(%s) != 0' % SEL):
                    return None if is_none else not empty
                if tx == '%s in %s' % (elem, SEL):
                    return None if is_none else has      # membership in None raises: not a truth value
                if tx == '%s not in %s' % (elem, SEL):
                    return None if is_none else not has
                return None
            table.append((scen, truth, eval_guard(t, val)))
        if any(g is None for _, _, g in table):
            continue          # the test also depends on something else: not the plain selection predicate
        n_sites += 1
        got = [g for _, _, g in table]
        want = [w for _, w, _ in table]
        cons = 'selection test %s' % re.sub(r'\s+', ' ', short(t))[:60]
        ok = got == want or got == [not w for w in want]
        bad = next(((sc, w, g) for sc, w, g in table if g != w), None) if got != [not w for w in want] else None
        R.check(ok, f, node if isinstance(node, ast.stmt) else t, 'selects exactly: no selection requested, or the setting is among the requested ones',
                'with the selection %s the test %s is %s: a setting %s selected although the documented predicate says %s (a selection that scrubs to an empty '
                'list -- ";", [[]] -- would remove every setting in the range)' % (
                    bad[0] if bad else '?', short(t), bad[2] if bad else '?', 'is' if bad and bad[2] else 'is not', bad[1] if bad else '?'), construct=cons)
    if n_sites == 0:
        R.undecided(f, f.node, 'no test of remove_formatting was recognised as the selection predicate over %s' % SEL, construct='selection test')


@rule('P31', 'token-normalisation: parse_graphic_sequence turns every token that is an integer into an int for both input forms -- a ";"-separated '
             'string and a list of ints / strings -- before the scan compares tokens with codes', floor=2)
def P31(m, R):
    """The statements before the scan loop are walked once per input form (the `isinstance(sequence, str)` test decided); the token list is
    'converted' after a statement that stores int(<token>) into it (in place, by append, or through a comprehension / convert-or-keep
    helper), 'raw' after a statement that (re)builds it without int()."""
    f = m.fn('parse_graphic_sequence')
    seq = f.params[0]
    scan = next((n for n in f.body if isinstance(n, (ast.While, ast.For)) and any(call_name(x) == 'seq_starts_with_fn' for x in ast.walk(n))), None)
    if scan is None:
        raise AnalysisError('anchor vanished: scan loop of parse_graphic_sequence')
    pre = f.body[:f.body.index(scan)]
    # the token list: what the scan subscripts / iterates
    cand = {}
    for n in ast.walk(scan):
        if isinstance(n, ast.Subscript) and isinstance(n.value, ast.Name):
            cand[n.value.id] = cand.get(n.value.id, 0) + 1
        if isinstance(n, ast.Call) and call_name(n) == 'len' and n.args and isinstance(n.args[0], ast.Name):
            cand[n.args[0].id] = cand.get(n.args[0].id, 0) + 1
    stored = {x.id for s_ in pre for x in ast.walk(s_) if isinstance(x, ast.Name) and isinstance(x.ctx, ast.Store)}
    items = next((k for k, _ in sorted(cand.items(), key=lambda kv: -kv[1]) if k in stored or k == seq), None)
    # what the scan loop itself walks is the token list: `for i, tok in enumerate(items)`, `for tok in items`, `for i in range(len(items))`
    if isinstance(scan, ast.For):
        it_ = scan.iter
        if isinstance(it_, ast.Call) and call_name(it_) == 'enumerate' and it_.args and isinstance(it_.args[0], ast.Name):
            items = it_.args[0].id
        elif isinstance(it_, ast.Name):
            items = it_.id
        elif isinstance(it_, ast.Call) and call_name(it_) == 'range' and len(it_.args) == 1 and call_name(it_.args[0]) == 'len' and \
                it_.args[0].args and isinstance(it_.args[0].args[0], ast.Name):
            items = it_.args[0].args[0].id
    if items is None:
        R.undecided(f, scan, 'the token list of the scan is not recognised', construct='token normalisation')
        return

    def has_int(node):
        for x in ast.walk(node):
            if isinstance(x, ast.Call) and isinstance(x.func, ast.Name):
                if x.func.id == 'int':
                    return True
                h = m.funcs.get(x.func.id)
                if h is not None and h is not f and any(isinstance(y, ast.Call) and call_name(y) == 'int' for y in h.walk()):
                    return True
                for d_ in ast.walk(f.node):
                    if isinstance(d_, ast.FunctionDef) and d_ is not f.node and d_.name == x.func.id and any(isinstance(y, ast.Call) and call_name(y) == 'int' for y in ast.walk(d_)):
                        return True
        return False

    for kind in ('str', 'list'):
        state = {'v': 'raw' if items == seq else None}
        unknown = []

        def walk(stmts):
            for st in stmts:
                if isinstance(st, ast.If):
                    t = norm(st.test)
                    if t in ('isinstance(%s, str)' % seq, 'type(%s) is str' % seq, 'type(%s) == str' % seq):
                        walk(st.body if kind == 'str' else st.orelse)
                        continue
                    if t in ('not isinstance(%s, str)' % seq, 'isinstance(%s, (list, tuple))' % seq, 'isinstance(%s, list)' % seq):
                        walk(st.body if kind == 'list' else st.orelse)
                        continue
                    if any(isinstance(x, ast.Return) for x in ast.walk(st)) and not any(isinstance(x, ast.Name) and x.id == items and isinstance(x.ctx, ast.Store) for x in ast.walk(st)):
                        continue        # an early exit (empty input)
                    if any(isinstance(x, ast.Name) and x.id == items for x in ast.walk(st)):
                        unknown.append(st)
                    continue
                writes_whole = isinstance(st, (ast.Assign, ast.AnnAssign)) and any(
                    isinstance(t_, ast.Name) and t_.id == items for t_ in (st.targets if isinstance(st, ast.Assign) else [st.target]))
                if writes_whole:
                    val = st.value
                    if has_int(val):
                        state['v'] = 'converted'
                    elif isinstance(val, (ast.ListComp, ast.GeneratorExp)) and norm(val.generators[0].iter) == items and state['v'] == 'converted' and \
                            not any(isinstance(x, ast.Call) and call_name(x) == 'str' for x in ast.walk(val)):
                        pass            # a filter / strip over already converted tokens (strings only) keeps the state
                    else:
                        state['v'] = 'raw'
                    continue
                if isinstance(st, (ast.For, ast.While)):
                    touches = [x for x in ast.walk(st) if (isinstance(x, ast.Subscript) and isinstance(x.ctx, ast.Store) and is_name(x.value, items)) or
                               (isinstance(x, ast.Call) and call_name(x) in ('append', 'extend', 'insert') and isinstance(x.func, ast.Attribute) and is_name(x.func.value, items))]
                    if touches:
                        if has_int(st):
                            state['v'] = 'converted'
                        else:
                            unknown.append(st)
                    continue
                if isinstance(st, ast.Try):
                    walk(st.body)
                    continue
        walk(pre)
        cons = 'token normalisation: %s input' % ('string' if kind == 'str' else 'list')
        if unknown:
            R.undecided(f, unknown[0], 'how %s changes the token list is not recognised' % short(unknown[0]), construct=cons)
        elif state['v'] == 'converted':
            R.ok(f, scan, 'every token of a %s that reads as an integer is an int when the scan starts' % ('string' if kind == 'str' else 'list'), construct=cons)
        elif state['v'] == 'raw':
            R.viol(f, scan, 'for a %s the tokens reach the scan as they were given: a list such as ["1", "38", "5", "208"] keeps its strings, no token equals a code, '
                            'and nothing (or only erroneous settings) comes out -- int() is applied to the tokens of the other input form only' % (
                                'string' if kind == 'str' else 'list'), construct=cons)
        else:
            R.undecided(f, scan, 'the token list %s is not built before the scan for this input form' % items, construct=cons)


@rule('P32', 'seam-merge-precedence: __iadd__ lets the receiver\'s closing settings run on into the appended string only when they have, among each other, '
             'the precedence the appended string gives them', floor=1)
def P32(m, R):
    """The merge test compares the receiver's stop list prefix with the appended string's start list by value.  The objects that run on are
    the receiver's; their precedence in the result is their order in the receiver's *active* list, which is neither of the two lists
    compared (a stop list is in removal order).  The test must therefore also compare the active settings at the receiver's end --
    restricted to the merged objects, in their order -- with the start list."""
    ro = m.roles
    f = m.fn('AnsiString.__iadd__')
    cons = 'seam merge precedence'
    merge = None
    for n in f.walk():
        if isinstance(n, ast.If):
            for c in ast.walk(n.test):
                if isinstance(c, ast.Compare) and len(c.ops) == 1 and isinstance(c.ops[0], ast.Eq):
                    sides = [c.left, c.comparators[0]]
                    sl = [x for x in sides if isinstance(x, ast.Subscript) and isinstance(x.slice, ast.Slice) and norm(x.value).endswith('.' + ro.STOP)]
                    st = [x for x in sides if isinstance(x, ast.Attribute) and x.attr == ro.START]
                    if sl and st and merge is None:
                        merge = (n, c, sl[0], st[0])
    if merge is None:
        R.undecided(f, f.node, 'the seam merge test (stop-list prefix == start list) was not found', construct=cons)
        return
    node, cmp_, prefix, start = merge
    conj = list(node.test.values) if isinstance(node.test, ast.BoolOp) and isinstance(node.test.op, ast.And) else [node.test]
    # names bound to the active settings of the receiver (ansi_settings_at(..) on self, or the iterator's list)
    active_names = set()
    for a in f.walk():
        if isinstance(a, ast.Assign) and isinstance(a.targets[0], ast.Name) and isinstance(a.value, ast.Call) and call_name(a.value) == 'ansi_settings_at' and \
                is_name(getattr(a.value.func, 'value', None), f.self_name):
            active_names.add(a.targets[0].id)
    ordered = None
    for c in conj:
        if c is cmp_ or not (isinstance(c, ast.Compare) and len(c.ops) == 1 and isinstance(c.ops[0], ast.Eq)):
            continue
        sides = [c.left, c.comparators[0]]
        comp = next((x for x in sides if isinstance(x, (ast.ListComp,))), None)
        other = next((x for x in sides if x is not comp), None)
        if comp is None or other is None or norm(other) != norm(start):
            continue
        g = comp.generators[0]
        src_ok = (isinstance(g.iter, ast.Name) and g.iter.id in active_names) or (call_name(g.iter) == 'ansi_settings_at' and is_name(getattr(g.iter.func, 'value', None), f.self_name))
        by_identity = any(isinstance(x, ast.Call) and call_name(x) in (ro.IDFIND1,) and len(x.args) == 2 and norm(x.args[1]) == norm(prefix) for i_ in g.ifs for x in ast.walk(i_)) or \
            any(isinstance(x, ast.Compare) and isinstance(x.ops[0], ast.Is) for i_ in g.ifs for x in ast.walk(i_))
        if src_ok and by_identity and norm(comp.elt) == norm(g.target):
            ordered = c
    if ordered is not None:
        R.ok(f, ordered, 'the merge also requires the receiver\'s active settings, restricted to the merged objects and in their order, to equal the start list', construct=cons)
        return
    mentions_active = any(any(isinstance(x, ast.Name) and x.id in active_names for x in ast.walk(c)) or
                          any(isinstance(x, ast.Call) and call_name(x) == 'ansi_settings_at' for x in ast.walk(c)) for c in conj)
    if mentions_active:
        R.undecided(f, node, 'the merge test looks at the active settings in a form that is not recognised: %s' % short(node.test), construct=cons)
        return
    R.viol(f, node, 'the seam is merged when %s -- both lists are compared by value, but the settings that run on are the receiver\'s and keep the precedence they have in '
                    'its active list, which is the order in which they *started*, not the order of its stop list: a = "abcd" with blue on [2,4) then red on [0,4) (active: red, blue), '
                    'b = "xy" with blue then red (red on top); a + b reports 31;34 (blue on top) for "xy"' % short(cmp_), construct=cons)


# ----------------------------------------------------------------------------------------------------------------------
def _point_names(m, g):
    """local names of g that hold a point of some table: values of TABLE.items()/values(), TABLE[...] reads, the 2nd element of the iterator's triple"""
    ro = m.roles
    out = []

    class _S:
        def add(self, nm):
            out.append((nm, cur[0]))
    cur = [None]
    out_add = _S()
    for n in g.walk():
        cur[0] = n
        if isinstance(n, (ast.For, ast.comprehension)):
            it, tg = n.iter, n.target
            cn = call_name(it)
            recv = it.func.value if isinstance(it, ast.Call) and isinstance(it.func, ast.Attribute) else None
            if cn == 'items' and isinstance(recv, ast.Attribute) and recv.attr == ro.TABLE and isinstance(tg, ast.Tuple) and len(tg.elts) == 2 \
                    and isinstance(tg.elts[1], ast.Name):
                out_add.add(tg.elts[1].id)
            elif cn == 'values' and isinstance(recv, ast.Attribute) and recv.attr == ro.TABLE and isinstance(tg, ast.Name):
                out_add.add(tg.id)
            elif cn == ro.ITERATOR and isinstance(tg, ast.Tuple) and len(tg.elts) == 3 and isinstance(tg.elts[1], ast.Name):
                out_add.add(tg.elts[1].id)
        elif isinstance(n, ast.Assign) and len(n.targets) == 1 and isinstance(n.targets[0], ast.Name):
            v = n.value
            if isinstance(v, ast.Subscript) and isinstance(v.value, ast.Attribute) and v.value.attr == ro.TABLE:
                out_add.add(n.targets[0].id)
            elif isinstance(v, ast.Call) and call_name(v) in ('get', 'pop') and isinstance(v.func, ast.Attribute) and isinstance(v.func.value, ast.Attribute) \
                    and v.func.value.attr == ro.TABLE:
                out_add.add(n.targets[0].id)
    return out


def _is_point_name(pts, name_node, holder):
    """the name is read where a binding of it to a point is in force: inside the loop / comprehension that binds it, or after the assignment"""
    for nm, scope in pts:
        if nm != name_node.id:
            continue
        if isinstance(scope, ast.For):
            if any(x is name_node for st in scope.body for x in ast.walk(st)):
                return True
        elif isinstance(scope, ast.comprehension):
            par = getattr(scope, '_parent', None)
            if holder is scope or (par is not None and any(x is name_node for x in ast.walk(par))):
                return True
        elif getattr(name_node, 'lineno', 0) > getattr(scope, 'lineno', 0):
            return True
    return False


def _truth_atoms(t):
    if isinstance(t, ast.BoolOp):
        for v in t.values:
            yield from _truth_atoms(v)
    elif isinstance(t, ast.UnaryOp) and isinstance(t.op, ast.Not):
        yield from _truth_atoms(t.operand)
    elif isinstance(t, ast.Call) and call_name(t) == 'bool' and len(t.args) == 1:
        yield from _truth_atoms(t.args[0])
    else:
        yield t


@rule('P33', 'empty-point hygiene (assume / guarantee): code that tells an empty point from an absent one -- a rendering that sends only what starts at a point, a copy '
             'that skips empty points -- is right only while remove_formatting deletes every point it empties', floor=2)
def P33(m, R):
    ro = m.roles
    T = ro.TABLE
    f = m.fn('AnsiString.remove_formatting')
    selfn = f.self_name
    tbl = '%s.%s' % (selfn, T)
    # ---- guarantee: the clean-up of remove_formatting
    status, site = 'missing', f.node
    for n in f.walk():
        if isinstance(n, ast.For) and isinstance(n.target, (ast.Name, ast.Tuple)):
            dels = [x for x in ast.walk(n) if isinstance(x, ast.Delete) and any(isinstance(t_, ast.Subscript) and norm(t_.value) == tbl for t_ in x.targets)]
            if not dels:
                continue
            if any(isinstance(x, ast.For) and x is not n for x in ast.walk(n)):
                continue
            site = n
            it = n.iter
            lits = isinstance(it, (ast.Tuple, ast.List, ast.Set))
            reads_tbl = any(isinstance(x, ast.Attribute) and x.attr == T and is_name(x.value, selfn) for x in ast.walk(it))
            if isinstance(it, ast.Name):
                # a list of keys collected before: complete if it was built from the whole table
                src = [a_ for a_ in f.walk() if isinstance(a_, ast.Assign) and isinstance(a_.targets[0], ast.Name) and a_.targets[0].id == it.id]
                reads_tbl = bool(src) and all(any(isinstance(x, ast.Attribute) and x.attr == T for x in ast.walk(a_.value)) for a_ in src)
                lits = bool(src) and all(isinstance(a_.value, (ast.Tuple, ast.List, ast.Set)) and not any(
                    isinstance(x, ast.Attribute) and x.attr == T for x in ast.walk(a_.value)) for a_ in src)
            sliced = any(isinstance(x, ast.Subscript) and isinstance(x.slice, ast.Slice) for x in ast.walk(it))
            if reads_tbl and not lits and not sliced and call_name(it) in ('list', 'tuple', 'sorted', 'keys', 'items', 'set', 'frozenset', None):
                status = 'complete'
            elif lits or not reads_tbl:
                status = 'partial'
            else:
                status = 'unknown'
            break
        if isinstance(n, ast.Assign) and norm(n.targets[0]) == tbl and isinstance(n.value, ast.DictComp) and n.value.generators and \
                call_name(n.value.generators[0].iter) == 'items' and n.value.generators[0].ifs:
            status, site = 'complete', n
            break
    # ---- reliance (a): what to_str sends at a point
    g = m.fn('AnsiString.to_str')
    rel = []
    lp = next((n for n in g.walk() if isinstance(n, ast.For) and call_name(n.iter) == ro.ITERATOR and isinstance(n.target, ast.Tuple) and len(n.target.elts) == 3), None)
    if lp is None:
        R.undecided(g, g.node, 'the rendering loop over the table was not found', construct='to_str codes at a point')
    else:
        pt, act = norm(lp.target.elts[1]), norm(lp.target.elts[2])
        joins = [n for n in ast.walk(lp) if isinstance(n, ast.Call) and call_name(n) == 'join' and len(n.args) == 1 and isinstance(n.args[0], ast.Name)]
        codes = {j.args[0].id for j in joins}
        start_only = []
        for n in ast.walk(lp):
            if isinstance(n, ast.Assign) and isinstance(n.targets[0], ast.Name) and n.targets[0].id in codes:
                vals = [n.value]
                while any(isinstance(v, ast.IfExp) for v in vals):
                    vals = [w for v in vals for w in ((v.body, v.orelse) if isinstance(v, ast.IfExp) else (v,))]
                for v in vals:
                    srcs = []
                    for x in ast.walk(v):
                        if isinstance(x, ast.IfExp):
                            srcs += [x.body, x.orelse]
                    srcs = srcs or [v]
                    for s_ in srcs:
                        nm = names_in(s_)
                        if n.targets[0].id in nm or act in nm:
                            continue
                        if any(isinstance(x, ast.Attribute) and x.attr == ro.START and norm(x.value) == pt for x in ast.walk(s_)):
                            start_only.append((n, s_))
        if start_only:
            rel.append((g, start_only[0][0], 'to_str codes at a point',
                        'to_str sends, at a point where nothing ends, only the settings that start there (%s): at a point that holds nothing the parameter list is empty, '
                        'and ESC[m is a reset -- every style still active is switched off' % short(start_only[0][1])))
        else:
            R.ok(g, lp, 'what is sent at a point is built from the active list (an empty point re-sends it, which shows the same)', construct='to_str codes at a point')
    # ---- reliance (b): truthiness of a point outside the sites that delete empty points
    declared = {'AnsiString.remove_formatting', 'AnsiString.__iadd__', '%s.__bool__' % ro.POINT}
    n_truth = 0
    for h in m.funcs.values():
        pts = _point_names(m, h)
        tests = []
        for n in h.walk():
            if isinstance(n, (ast.If, ast.While, ast.IfExp, ast.Assert)):
                tests.append((n, n.test))
            elif isinstance(n, ast.comprehension):
                tests += [(n, t_) for t_ in n.ifs]
        for holder, t in tests:
            for a_ in _truth_atoms(t):
                is_pt = (isinstance(a_, ast.Name) and _is_point_name(pts, a_, holder)) or \
                    (isinstance(a_, ast.Subscript) and isinstance(a_.value, ast.Attribute) and a_.value.attr == T)
                if not is_pt:
                    continue
                n_truth += 1
                if h.qual in declared:
                    continue
                where = holder if hasattr(holder, 'lineno') else t
                rel.append((h, where, '%s point truthiness' % h.qual,
                            '%s treats a point that holds nothing differently from one that holds something (`%s`): the result differs from that of the same operation '
                            'done where empty points are kept (in place / by the other class), in table and in rendering' % (h.qual, short(t))))
    # ---- verdict
    single = [norm(t_.slice) for x in f.walk() if isinstance(x, ast.Delete) for t_ in x.targets if isinstance(t_, ast.Subscript) and norm(t_.value) == tbl]
    wit = 'remove_formatting deletes emptied points only at %s (L%d): "abcdef" bold over 2..4, then remove bold over 1..5 leaves empty points at 2 and 4' % (
        short(site.iter) if isinstance(site, ast.For) else ('the keys %s' % ', '.join(single) if single else 'no place at all'), getattr(site, 'lineno', 0))
    if status == 'complete':
        R.ok(f, site, 'remove_formatting deletes every point it leaves empty (clean-up over the whole table); %d truthiness tests of points, %d reliance site(s) are safe'
             % (n_truth, len(rel)), construct='remove_formatting clean-up')
        for h, n, cons, msg in rel:
            R.ok(h, n, 'relies on points not being empty; guaranteed by the clean-up of remove_formatting', construct=cons)
    elif status == 'unknown':
        R.undecided(f, site, 'clean-up loop over %s: whether it covers the whole table is not decided' % short(site.iter), construct='remove_formatting clean-up')
    else:
        if not rel:
            R.ok(f, site, 'emptied points may stay in the table (clean-up %s), and nothing tells an empty point from an absent one: to_str re-sends the active list there'
                 % ('over ' + short(site.iter) if isinstance(site, ast.For) else 'absent'), construct='remove_formatting clean-up')
        for h, n, cons, msg in rel:
            R.viol(h, n, msg + '; ' + wit, construct=cons)


# ----------------------------------------------------------------------------------------------------------------------
@rule('P34', 'parser / parsable agreement: a colour group that parse_graphic_sequence emits while dropping erroneous items has passed the range test '
             '(0..255) that AnsiSetting.parsable applies to every code', floor=1)
def P34(m, R):
    from .P_more2 import erroneous_polarity
    f = m.fn('parse_graphic_sequence')
    ae = f.params[1]
    pol = erroneous_polarity(m)
    pol = True if pol is None else pol
    # does parsable range-check its codes at all?  (if it does not, there is nothing to agree with)
    pz = m.fn('AnsiSetting.parsable')
    ranged = [n for n in pz.walk() if isinstance(n, ast.Compare) and any(const_val(c, None) in (255, 256) for c in [n.left] + list(n.comparators))]
    loop = next((n for n in f.body if isinstance(n, ast.For) and any(call_name(x) == 'seq_starts_with_fn' for x in ast.walk(n))), None)
    if loop is None:
        raise AnalysisError('anchor vanished: scan loop of parse_graphic_sequence')
    value = norm(loop.target.elts[1]) if isinstance(loop.target, ast.Tuple) else norm(loop.target)
    emits = []
    for n in ast.walk(loop):
        if isinstance(n, ast.Call) and call_name(n) == 'AnsiSetting' and n.args and isinstance(n.args[0], ast.Name) and n.args[0].id != value:
            emits.append(n)
    cons = 'group emission range test'
    if not ranged:
        R.ok(pz, pz.node, 'parsable applies no range test to its codes: nothing for the parser to agree with', construct=cons)
        return
    if not emits:
        R.undecided(f, loop, 'the emission of a completed group was not found', construct=cons)
        return
    for call in emits:
        # guards between the emission and the loop, plus guards on a name the built setting was bound to
        tests = [p.test for p in _parents(call) if isinstance(p, ast.If) and any(x is p for x in ast.walk(loop))]
        st = next((p for p in _parents(call) if isinstance(p, ast.stmt)), None)
        bound = norm(st.targets[0]) if isinstance(st, ast.Assign) and st.value is call and isinstance(st.targets[0], ast.Name) else None
        if bound is not None:
            for n in ast.walk(loop):
                if isinstance(n, ast.If) and bound in names_in(n.test) and any(
                        isinstance(x, ast.Call) and call_name(x) == 'append' and x.args and norm(x.args[0]) == bound for x in ast.walk(n)):
                    tests.append(n.test)

        def range_tested(t):
            for x in ast.walk(t):
                if isinstance(x, ast.Attribute) and x.attr == 'parsable':
                    return True
                if isinstance(x, ast.Constant) and x.value in (255, 256) and not isinstance(x.value, bool):
                    return True
            return False
        hit = [t for t in tests if range_tested(t)]
        if hit:
            # the test must be in force when erroneous items are dropped: with the flag at its dropping value the guard must not be decided by the flag alone
            t = hit[0]
            others = {nm: False for nm in names_in(t) if nm != ae}
            forced = eval_guard(t, flag_valuation(dict(others, **{ae: (not pol)}), {}))
            if forced is True:
                R.viol(f, call, 'the range test `%s` is bypassed when erroneous items are dropped (%s=%s): a group such as 38;5;300 is emitted although parsable rejects it'
                       % (short(t), ae, not pol), construct=cons)
            else:
                R.ok(f, call, 'a completed group is emitted, while dropping erroneous items, only under `%s`' % short(t), construct=cons)
            # parsable is False for RESET by design: a lone code must not depend on it (ESC[0m is a directive the reader has to see)
            rejects_reset = any(isinstance(x, ast.Compare) and any(isinstance(y, ast.Attribute) and y.attr == 'RESET' for y in ast.walk(x)) for x in pz.walk())

            def tv(e):
                # three-valued: dropping mode, `.parsable` False, the group holds one code
                if isinstance(e, ast.BoolOp):
                    vs = [tv(v) for v in e.values]
                    if isinstance(e.op, ast.Or):
                        return True if True in vs else (None if None in vs else False)
                    return False if False in vs else (None if None in vs else True)
                if isinstance(e, ast.UnaryOp) and isinstance(e.op, ast.Not):
                    v = tv(e.operand)
                    return None if v is None else (not v)
                if isinstance(e, ast.Name) and e.id == ae:
                    return not pol
                if isinstance(e, ast.Attribute) and e.attr == 'parsable':
                    return False
                if isinstance(e, ast.Compare) and len(e.ops) == 1 and call_name(e.left) == 'len' and isinstance(e.comparators[0], ast.Constant):
                    k, op = e.comparators[0].value, e.ops[0]
                    if isinstance(k, int) and not isinstance(k, bool):
                        return {ast.Eq: 1 == k, ast.NotEq: 1 != k, ast.Lt: 1 < k, ast.LtE: 1 <= k, ast.Gt: 1 > k, ast.GtE: 1 >= k}.get(type(op))
                return None
            if rejects_reset and tv(t) is False:
                R.viol(f, call, 'a lone code is emitted only when `.parsable` holds (`%s`), and parsable is False for RESET: parse_graphic_sequence("0") returns nothing while '
                                'dropping erroneous items -- set_ansi_str never sees ESC[0m and the styles before it run on' % short(t), construct='lone code emission')
            elif rejects_reset:
                R.ok(f, call, 'a lone code does not depend on `.parsable` (which is False for RESET) under `%s`%s' % (short(t), '' if tv(t) else ' -- guard not decidable, no claim'),
                     construct='lone code emission')
        else:
            R.viol(f, call, 'a completed colour group is emitted without the range test that AnsiSetting.parsable applies (L%d: %s): parse_graphic_sequence("38;5;300") returns '
                            'the setting 38;5;300 although it promises parsable settings when erroneous items are dropped -- set_ansi_str keeps it, and after simplify() '
                            'is_formatting_parsable() is still False' % (ranged[0].lineno, short(ranged[0])), construct=cons)


# ----------------------------------------------------------------------------------------------------------------------
@rule('P35', 'setting-text: AnsiSetting.__init__ rejects an empty text, not a falsy argument -- the emptiness test sees the converted text '
             '(the integer 0 is the reset setting that parse_graphic_sequence builds for ESC[m)', floor=1)
def P35(m, R):
    f = m.fn('AnsiSetting.__init__')
    p = f.own_params()[0]
    cons = 'emptiness test after conversion'
    body = f.body
    guards = [st for st in body if isinstance(st, ast.If) and any(isinstance(x, ast.Raise) and call_name(x.exc) == 'ValueError' for x in st.body) and
              p in names_in(st.test)]
    conv = [st for st in body if any(isinstance(x, ast.Assign) and is_name(x.targets[0], p) and isinstance(x.value, ast.Call) and call_name(x.value) == 'str'
                                     and any(is_name(a_, p) for a_ in x.value.args) for x in ast.walk(st))]
    if not guards:
        R.ok(f, f.node, 'no emptiness test on the argument', construct=cons)
        return
    if not conv:
        R.undecided(f, f.node, 'the conversion of an int argument to its text (%s = str(%s)) was not found' % (p, p), construct=cons)
        return
    g = guards[0]
    # what does the test reject?  evaluated for the raw int 0 (falsy) and for its text '0' (truthy)
    from ..finite import eval_guard, flag_valuation
    rejects_falsy = eval_guard(g.test, flag_valuation({p: False}, {'%s == \'\'' % p: False, 'len(%s) == 0' % p: False, '%s is None' % p: False}))
    before = body.index(g) < min(body.index(c_) for c_ in conv)
    if before and rejects_falsy is True:
        R.viol(f, g, 'the emptiness test `%s` comes before the argument is converted to text: the integer 0 is falsy and is rejected, although 0 is the reset '
                     'setting -- AnsiSetting(0) raises ValueError, and so does AnsiString("a\\x1b[mb") (parse_graphic_sequence builds AnsiSetting(0) for ESC[m)'
               % short(g.test), construct=cons)
    elif before and rejects_falsy is None:
        R.undecided(f, g, 'emptiness test %s before the conversion: what it rejects is not decided' % short(g.test), construct=cons)
    else:
        R.ok(f, g, 'the emptiness test is applied to the converted text', construct=cons)


# ----------------------------------------------------------------------------------------------------------------------
@rule('P36', 'spec-always-parsed: to_str returns early only when no format_spec is given -- a non-empty spec always goes through the library\'s own grammar '
             '(_apply_string_format), never through str\'s', floor=1)
def P36(m, R):
    f = m.fn('AnsiString.to_str')
    spec = f.own_params()[0]
    from ..finite import eval_guard, flag_valuation
    from .P_tostr import _tostr_parts
    try:
        _f, loop, *_rest = _tostr_parts(m)
    except Exception:
        loop = next((n for n in f.body if isinstance(n, ast.For)), None)
    if loop is None:
        raise AnalysisError('anchor vanished: rendering loop of to_str')
    pre = []
    for st in f.body:
        if st is loop:
            break
        pre.append(st)
    n_ret = 0
    for st in pre:
        for r in ast.walk(st):
            if not isinstance(r, ast.Return):
                continue
            n_ret += 1
            conds = []
            ch, par = r, getattr(r, '_parent', None)
            while par is not None and par is not f.node:
                if isinstance(par, ast.If):
                    conds.append((par.test, any(ch is b_ for b_ in par.body)))
                ch, par = par, getattr(par, '_parent', None)
            # can the return be reached with a non-empty spec?
            val = flag_valuation({spec: True}, {"':' in %s" % spec: None})
            possible = True
            for t_, pol in conds:
                v_ = eval_guard(t_, val)
                if v_ is not None and v_ != pol:
                    possible = False
            cons = 'early return L-%s' % re.sub(r'\s+', ' ', norm(r.value))[:40]
            if possible:
                R.viol(f, r, 'to_str returns %s before the spec is applied, also for a non-empty format_spec: the spec "[fill][+|-][<|>|^][width]" is the library\'s own '
                             'grammar -- "*+<8" / " ->8" are errors for str.format, "08" zero-pads there, ".1" and "8s" are accepted there and must raise ValueError here'
                       % short(r.value), construct=cons)
            else:
                R.ok(f, r, 'reached only without a format_spec', construct=cons)
    if not n_ret:
        R.ok(f, f.node, 'no early return before the rendering loop', construct='early return')

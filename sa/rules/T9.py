"""T8 signature defaults and T9 regex roles."""
import ast
import inspect
import re

from ..model import AnalysisError, norm, short, call_name, const_val, is_name
from ..report import rule
from ..consteval import get_folder, Unfoldable, EnumRef
from .. import regexast
from ..finite import eval_guard, flag_valuation
from .T import _ModWhere


def _pattern_assigns(f):
    """[(assign stmt, var, pattern text, subject text)] for `var = re.search|match(<const pattern>, subject)`."""
    out = []
    for n in f.walk():
        if isinstance(n, ast.Assign) and len(n.targets) == 1 and isinstance(n.targets[0], ast.Name) and isinstance(n.value, ast.Call) \
                and norm(n.value.func) in ('re.search', 're.match', 're.fullmatch') and n.value.args and isinstance(const_val(n.value.args[0]), str):
            out.append((n, n.targets[0].id, const_val(n.value.args[0]), norm(n.value.args[1]) if len(n.value.args) > 1 else None))
    return out


def _block_after(f, assign):
    """The `if var:` statement that follows the assignment in the same statement list."""
    parent = assign._parent
    for fld in ('body', 'orelse', 'finalbody'):
        lst = getattr(parent, fld, None)
        if isinstance(lst, list) and assign in lst:
            i = lst.index(assign)
            if i + 1 < len(lst) and isinstance(lst[i + 1], ast.If) and is_name(lst[i + 1].test, assign.targets[0].id):
                return lst[i + 1]
    return None


def _group_uses(node, var):
    """[(Call node, group number)] for var.group(k) inside node."""
    out = []
    for n in ast.walk(node):
        if isinstance(n, ast.Call) and isinstance(n.func, ast.Attribute) and n.func.attr == 'group' and is_name(n.func.value, var) and n.args:
            out.append((n, _gnum(n.args[0])))
    return out


def _gnum(e):
    """group number: a constant, or constant arithmetic (`3 - 1` after a helper taking the digits group was inlined)"""
    v = const_val(e, None)
    if v is None and isinstance(e, ast.BinOp) and isinstance(e.op, (ast.Add, ast.Sub)):
        a, b = _gnum(e.left), _gnum(e.right)
        if isinstance(a, int) and isinstance(b, int):
            return a + b if isinstance(e.op, ast.Add) else a - b
    return v


def _base_of(base, blk):
    """the base argument as an IfExp: itself, or the local it names when that local is set once by `b = 16 if t else 10` or by
    `if t: b = 16` / `else: b = 10`"""
    if not isinstance(base, ast.Name):
        return base
    defs = []
    for n in ast.walk(blk):
        if isinstance(n, ast.Assign) and len(n.targets) == 1 and is_name(n.targets[0], base.id):
            defs.append(n)
    if len(defs) == 1 and isinstance(defs[0].value, ast.IfExp):
        return defs[0].value
    if len(defs) == 2:
        for n in ast.walk(blk):
            if isinstance(n, ast.If) and len(n.body) == 1 and len(n.orelse) == 1 and n.body[0] is defs[0] and n.orelse[0] is defs[1]:
                return ast.IfExp(test=n.test, body=defs[0].value, orelse=defs[1].value)
    return base


@rule('T9', 'regex-roles: group roles of the alignment / colour / spec-splitting regexes and every match.group(i) use', floor=8)
def T9(m, R):
    ro = m.roles
    F = get_folder(m)
    # ---- colour regexes (patterns and the prefix map may be literals in the function or class-level constants; two of the
    # three forms may share one loop over (pattern, builder) pairs)
    f = m.fn('%s._parse_rgb_string' % ro.POINT)
    P = m.cls(ro.POINT)
    class_consts = {n: v for n, v, _ in P.assigns}

    def resolve(e, env):
        """follow locals, loop substitutions and class-level constants down to a literal node"""
        for _ in range(6):
            if isinstance(e, ast.Name) and e.id in env:
                e = env[e.id]
            elif isinstance(e, ast.Attribute) and isinstance(e.value, ast.Name) and e.value.id in ('__class__', 'cls', 'self', ro.POINT) and e.attr in class_consts:
                e = class_consts[e.attr]
            elif isinstance(e, ast.Call) and norm(e.func) == 're.compile' and e.args:
                e = e.args[0]
            else:
                break
        return e
    local_env = {}
    for n in f.body:
        if isinstance(n, ast.Assign) and isinstance(n.targets[0], ast.Name) and not (isinstance(n.value, ast.Call) and 'search' in norm(n.value.func)):
            local_env[n.targets[0].id] = n.value
    # blocks: (anchor stmt, match var, pattern text, if-block, substitution env)
    blocks = []

    def scan(stmts, env):
        for i, st in enumerate(stmts):
            if isinstance(st, ast.For) and isinstance(st.target, ast.Tuple) and isinstance(st.iter, (ast.Tuple, ast.List)) and \
                    all(isinstance(x, (ast.Tuple, ast.List)) and len(x.elts) == len(st.target.elts) for x in st.iter.elts):
                for pair in st.iter.elts:
                    env2 = dict(env)
                    for t_, v_ in zip(st.target.elts, pair.elts):
                        env2[norm(t_)] = v_
                    scan(st.body, env2)
            elif isinstance(st, ast.Assign) and isinstance(st.targets[0], ast.Name) and isinstance(st.value, ast.Call):
                c = st.value
                pat = subj = None
                if norm(c.func) in ('re.search', 're.match', 're.fullmatch') and len(c.args) >= 2:
                    pat, subj = resolve(c.args[0], env), c.args[1]
                elif isinstance(c.func, ast.Attribute) and c.func.attr in ('search', 'match', 'fullmatch') and len(c.args) == 1:
                    pat, subj = resolve(c.func.value, env), c.args[0]
                if pat is not None and isinstance(const_val(pat, None), str):
                    blk = stmts[i + 1] if i + 1 < len(stmts) and isinstance(stmts[i + 1], ast.If) and is_name(stmts[i + 1].test, st.targets[0].id) else None
                    blocks.append((st, st.targets[0].id, const_val(pat), blk, env))
    scan(f.body, local_env)
    # the prefix -> component map: the receiver of `.get(match.group(1), default)`
    getc = next((n for n in f.walk() if isinstance(n, ast.Call) and call_name(n) == 'get' and n.args and 'group(1)' in norm(n.args[0])), None)
    cd = None
    comp_anchor = f.node
    if getc is not None:
        dnode = resolve(getc.func.value, local_env)
        if isinstance(dnode, ast.Dict):
            comp_anchor = dnode
            cd = {}
            for k, v in zip(dnode.keys, dnode.values):
                try:
                    ref = F.fold(v)
                except Unfoldable:
                    ref = None
                cd[const_val(k)] = ref.name if isinstance(ref, EnumRef) else None
    want_cd = {'fg_': 'FOREGROUND', 'bg_': 'BACKGROUND', 'ul_': 'UNDERLINE', 'dul_': 'DOUBLE_UNDERLINE'}
    if cd is None:
        R.undecided(f, f.node, 'the prefix -> component map of the colour strings was not found', construct='component_dict')
        cd = want_cd
    else:
        R.check(cd == want_cd, f, comp_anchor, 'prefix -> component map is fg_/bg_/ul_/dul_ -> FOREGROUND/BACKGROUND/UNDERLINE/DOUBLE_UNDERLINE',
                'prefix -> component map is %s' % cd, construct='component_dict')
    if len(blocks) < 3:
        R.undecided(f, f.node, '%d colour patterns recognised, expected three (rgb with three values, rgb with one, color256)' % len(blocks), construct='colour regex')
    compname = norm(getc.func.value) if getc is not None else 'component_dict'
    for st, var, pat, blk, env in blocks:
        try:
            roles, order = regexast.groups(pat)
        except Exception as e:
            R.undecided(f, st, 'regex does not parse: %s' % e, construct='colour regex')
            continue
        kind = 'rgb3' if pat.count(',') >= 2 and 'rgb' in pat else 'rgb1' if 'rgb' in pat else 'color256'
        cons = 'colour regex ' + kind
        problems = []
        alt = roles.get(1)
        if not alt or alt[0] != 'ALT' or sorted(a.lstrip('?') for a in alt[1]) != sorted(cd) or not any(a.startswith('?') or a == '' for a in alt[1]):
            problems.append('prefix alternation %s does not equal the component map keys plus the empty prefix' % (alt,))
        pairs = []
        seq = [g for k, g in order if k == 'group']
        for i, g in enumerate(seq):
            if roles[g][0] == 'HEXDIGITS':
                prev = seq[i - 1] if i else None
                if prev is None or roles[prev][:2] != ('LIT', '0x') or not roles[prev][2]:
                    problems.append('digits group %d is not preceded by an optional (0x) group' % g)
                else:
                    pairs.append((prev, g))
        want_pairs = 3 if kind == 'rgb3' else 1
        if len(pairs) != want_pairs:
            problems.append('%d (0x)?(digits) pairs, expected %d' % (len(pairs), want_pairs))
        if blk is None:
            R.undecided(f, st, 'no `if match:` block follows the colour regex: how its groups are used is not recognised', construct=cons); continue
        else:
            # conversions in source order: `name = int(..)`, or `L.append(int(..))` with L unpacked into names afterwards
            ints = []
            for n in ast.walk(blk):
                if isinstance(n, ast.Assign) and call_name(n.value) == 'int' and isinstance(n.targets[0], ast.Name):
                    ints.append((n.lineno, n.col_offset, n, n.value, n.targets[0].id))
                elif isinstance(n, ast.Expr) and isinstance(n.value, ast.Call) and call_name(n.value) == 'append' and n.value.args and \
                        call_name(n.value.args[0]) == 'int' and isinstance(n.value.func.value, ast.Name):
                    ints.append((n.lineno, n.col_offset, n, n.value.args[0], ('list', n.value.func.value.id)))
            ints.sort(key=lambda t_: t_[:2])
            # names the list elements are unpacked into
            unpack = {}
            for n in ast.walk(blk):
                if isinstance(n, ast.Assign) and isinstance(n.targets[0], ast.Tuple) and isinstance(n.value, ast.Name) and \
                        all(isinstance(x, ast.Name) for x in n.targets[0].elts):
                    unpack[n.value.id] = [x.id for x in n.targets[0].elts]
            counters = {}
            got = []
            conv = []
            for _l, _c, stn, icall, dest in ints:
                if isinstance(dest, tuple):
                    i_ = counters.get(dest[1], 0)
                    counters[dest[1]] = i_ + 1
                    names_ = unpack.get(dest[1])
                    dest = names_[i_] if names_ and i_ < len(names_) else '%s[%d]' % (dest[1], i_)
                conv.append((stn, icall, dest))
            for n, icall, dest in conv:
                a = icall.args
                g_digits = _group_uses(a[0], var) if a else []
                base = _base_of(a[1], blk) if len(a) > 1 else None
                ok = False
                if len(g_digits) == 1 and isinstance(base, ast.IfExp):
                    gb = _group_uses(base.test, var)
                    if len(gb) == 1 and is_call_group(base.test) and const_val(base.body) == 16 and const_val(base.orelse) == 10:
                        ok = (gb[0][1], g_digits[0][1]) in pairs
                        got.append((dest, (gb[0][1], g_digits[0][1])))
                if not ok:
                    problems.append('%s does not read a (0x)?(digits) pair as int(digits, 16 if 0x else 10)' % short(n))
            if [p for _, p in got] != pairs and not problems:
                problems.append('values are read from pairs %s, expected %s in order' % ([p for _, p in got], pairs))
            rets = [n for n in ast.walk(blk) if isinstance(n, ast.Return) and isinstance(n.value, ast.Call)]
            if not rets:
                problems.append('block returns nothing')
            else:
                c = rets[0].value
                target = norm(resolve(c.func, env))
                wt = 'AnsiFormat.rgb' if kind != 'color256' else 'AnsiFormat.color256'
                if target not in (wt, wt.replace('AnsiFormat', '_AnsiControlFn'), wt.replace('color', 'colour')):
                    problems.append('builds with %s, expected %s' % (target, wt))
                names = [x for x, _ in got]
                pos = [norm(a) for a in c.args]
                if pos[:len(names)] != names:
                    problems.append('passes (%s), expected the parsed values (%s) in order' % (', '.join(pos), ', '.join(names)))
                comp_arg = c.args[len(names)] if len(c.args) > len(names) else next((k.value for k in c.keywords if k.arg == 'component'), None)
                if isinstance(comp_arg, ast.Name):
                    # a local bound once in the block stands for its value
                    defs_ = [n_ for n_ in ast.walk(blk) if isinstance(n_, ast.Assign) and len(n_.targets) == 1 and is_name(n_.targets[0], comp_arg.id)]
                    if len(defs_) == 1:
                        comp_arg = defs_[0].value
                wc = '%s.get(%s.group(1), ColorComponentType.FOREGROUND)' % (compname, var)
                if comp_arg is None or norm(comp_arg).replace('ColourComponentType', 'ColorComponentType') != wc:
                    problems.append('component is %s, expected %s' % (norm(comp_arg), wc))
        # values taken from the match in bulk (`m.groups()` sliced / zipped, `*values` passed on): which group feeds which argument is not
        # followed here -- undecided, not a finding
        bulk = any(isinstance(a_, ast.Starred) for n_ in ast.walk(blk) if isinstance(n_, ast.Call) for a_ in n_.args) or \
            any(isinstance(n_, ast.Call) and call_name(n_) == 'groups' for n_ in ast.walk(blk))
        if problems and bulk and not got:
            R.undecided(f, st, 'the groups are taken from the match in bulk (groups() / starred arguments): their roles are not followed', construct=cons)
        else:
            R.check(not problems, f, st, 'groups: prefix, then %d x (0x)?(hex digits); bases 16/10; values passed in order' % want_pairs,
                    '; '.join(problems), construct=cons)
    # ---- alignment regexes
    f = m.fn('AnsiString._apply_string_format')
    pats = _pattern_assigns(f)
    seen = {}
    for st, var, pat, subj in pats:
        try:
            roles, order = regexast.groups(pat)
            ch = regexast.alignment_char(pat)
        except Exception:
            continue
        if ch is None:
            continue
        seen[ch] = True
        cons = 'alignment regex ' + ch
        blk = _block_after(f, st)
        problems = []
        by_role = {r[0]: g for g, r in roles.items()}
        if sorted(by_role) != ['FILL', 'SIGN', 'WIDTH']:
            problems.append('groups have roles %s, expected FILL, SIGN, WIDTH' % sorted(r[0] for r in roles.values()))
        if not (pat.startswith('^') and pat.endswith('$')):
            problems.append('pattern is not anchored at both ends')
        if subj != f.own_params()[0]:
            problems.append('matches %s, not the string-format part' % subj)
        if blk is not None and not problems:
            # roles by data flow: what reaches the width / fillchar / extend_formatting arguments of the pad call, locals written as what they stand for
            from ..inline import _subst as subst_once
            from ..shapes import bind_call
            env_ = {}
            for n in ast.walk(blk):
                if isinstance(n, ast.Assign) and len(n.targets) == 1 and isinstance(n.targets[0], ast.Name):
                    env_.setdefault(n.targets[0].id, n.value)

            def expand(e_):
                for _ in range(4):
                    e2 = subst_once(e_, env_)
                    if norm(e2) == norm(e_):
                        break
                    e_ = e2
                return e_
            pads = [n for n in ast.walk(blk) if isinstance(n, ast.Call) and call_name(n) in ('ljust', 'rjust', 'center')]
            if not pads:
                R.undecided(f, st, "no pad call in the block of the alignment regex '%s'" % ch, construct=cons)
                continue
            for n in pads:
                pm = m.fn('AnsiString.' + call_name(n))
                bound, _ = bind_call(n, pm)
                for pname, role in (('width', 'WIDTH'), ('fillchar', 'FILL'), ('extend_formatting', 'SIGN')):
                    arg = bound.get(pname)
                    if arg is None:
                        if role != 'FILL' or by_role.get('FILL') is None:
                            continue
                        problems.append('no fill character is passed to %s' % call_name(n))
                        continue
                    for _, g_ in _group_uses(expand(arg), var):
                        if roles.get(g_, ('?',))[0] != role:
                            problems.append('the %s passed to %s is taken from group %s (%s), the %s group is %s' % (
                                pname, call_name(n), g_, roles.get(g_, ('?',))[0], role, by_role.get(role)))
                    if role in ('WIDTH', 'FILL') and not _group_uses(expand(arg), var):
                        problems.append('the %s passed to %s (%s) does not come from the matched spec' % (pname, call_name(n), short(arg)))
                want_method = {'<': 'ljust', '>': 'rjust', '^': 'center'}[ch]
                if call_name(n) != want_method:
                    problems.append("alignment '%s' pads with %s, expected %s" % (ch, call_name(n), want_method))
        elif blk is None:
            R.undecided(f, st, "no `if match:` block follows the alignment regex '%s': how its groups are used is not recognised" % ch, construct=cons)
            continue
        R.check(not problems, f, st, "'%s': groups FILL, SIGN, WIDTH used as fill, extend flag and width" % ch, '; '.join(problems), construct=cons)
    for ch in '<>^':
        if ch not in seen:
            if not seen:
                # no alignment pattern was found as a literal at all (they may sit in a table): the shape is not recognised, nothing is known
                R.undecided(f, f.node, "the regular expressions of the alignment characters were not found as pattern literals", construct='alignment regex ' + ch)
            else:
                R.viol(f, f.node, "no regex recognises the alignment character '%s'" % ch, construct='alignment regex ' + ch)
    # ---- spec-splitting regex in to_str
    f = m.fn('AnsiString.to_str')
    pats = _pattern_assigns(f)
    cons = 'spec-splitting regex'
    if not pats:
        R.viol(f, f.node, 'to_str no longer splits the format spec with a regex', construct=cons)
    for st, var, pat, subj in pats[:1]:
        tree = regexast.parse(pat)
        import re._constants as _c
        problems = []
        top = list(tree)
        g1 = next((av for op, av in top if op is _c.SUBPATTERN and av[0] == 1), None)
        if g1 is None:
            problems.append('group 1 (string format) missing')
        else:
            inner = [x for x in g1[3] if x[0] is not _c.AT]
            shape = []
            for op, av in inner:
                if op is _c.MAX_REPEAT:
                    lo, hi, sub = av
                    sub = list(sub)
                    if sub[0][0] is _c.ANY:
                        shape.append(('any', lo, hi))
                    elif sub[0][0] is _c.IN:
                        lits = ''.join(sorted(chr(x[1]) for x in sub[0][1] if x[0] is _c.LITERAL))
                        rng = [x[1] for x in sub[0][1] if x[0] is _c.RANGE]
                        shape.append((lits or tuple(rng[0]), lo, hi))
                else:
                    shape.append((str(op), None, None))
            want = [('any', 0, 1), ('+-', 0, 1), ('<>^', 0, 1), ((48, 57), 0, regexast.MAXREPEAT)]
            if shape != want:
                problems.append('group 1 is %s, expected .?[-+]?[<>^]?[0-9]*' % shape)
        has2 = any(op is _c.MAX_REPEAT and av[0] == 0 and list(av[2])[0][0] is _c.SUBPATTERN and list(av[2])[0][1][0] == 2 and
                   list(list(av[2])[0][1][3])[0] == (_c.LITERAL, 58) for op, av in top)
        if not has2:
            problems.append("optional group 2 ':<ansi part>' missing")
        if subj != f.own_params()[0]:
            problems.append('matches %s, not format_spec' % subj)
        # group 2's colon is removed: format_match.group(2)[1:]
        # whatever holds group 2 (directly, through a local, or through `a, b = m.groups()`) is used without its first character
        g2 = {'%s.group(2)' % var, '%s[2]' % var, '%s.groups()[1]' % var}
        for n in f.walk():
            if isinstance(n, ast.Assign) and len(n.targets) == 1:
                t_, v_ = n.targets[0], n.value
                if isinstance(t_, ast.Name) and norm(v_) in g2:
                    g2.add(t_.id)
                if isinstance(t_, ast.Tuple) and len(t_.elts) == 2 and norm(v_) == '%s.groups()' % var and isinstance(t_.elts[1], ast.Name):
                    g2.add(t_.elts[1].id)
        uses = [norm(n) for n in f.walk() if isinstance(n, ast.Subscript) and isinstance(n.slice, ast.Slice) and norm(n.value) in g2]
        if not any(u.endswith('[1:]') for u in uses):
            problems.append('the ansi part is not group(2) without its leading colon (%s)' % uses)
        R.check(not problems, f, st, 'spec splits as (.?[-+]?[<>^]?[0-9]*)(:ansi)?', '; '.join(problems), construct=cons)


def is_call_group(t):
    return isinstance(t, ast.Call) and isinstance(t.func, ast.Attribute) and t.func.attr == 'group'


# ------------------------------------------------------------------------------------------------------------------
# T8 signature defaults

# documented defaults by parameter name (library-specific parameters); NEG = any negative int ("no limit")
NEG = object()
BY_NAME = {
    'inplace': False, 'topmost': True, 'optimize': True, 'reset_start': False, 'reset_end': True, 'extend_formatting': True,
    'regex': False, 'match_case': False, 'count': NEG, 'maxsplit': NEG, 'reverse': False, 'group': 0, 'format_spec': None,
    'keepends': False, 'tabsize': 8, 'chars': None, 'sep': None, 'fillchar': ' ', 'encoding': 'utf-8', 'errors': 'strict',
    'allow_empty_terminator': True, 'acceptable_terminators': None, 'add_erroneous': False, 'g': None, 'b': None,
    'do_lstrip': True, 'do_rstrip': True,
}
# (function, parameter) overrides
BY_FUNC = {
    ('apply_formatting', 'start'): 0, ('apply_formatting', 'end'): None,
    ('remove_formatting', 'start'): 0, ('remove_formatting', 'end'): None, ('remove_formatting', 'settings'): None,
    ('find_settings', 'start'): 0, ('find_settings', 'end'): None,
    ('clip', 'start'): None, ('clip', 'end'): None,
    ('count', 'start'): None, ('count', 'end'): None, ('find', 'start'): None, ('find', 'end'): None,
    ('rfind', 'start'): None, ('rfind', 'end'): None, ('index', 'start'): None, ('index', 'end'): None,
    ('rindex', 'start'): None, ('rindex', 'end'): None, ('endswith', 'start'): None, ('endswith', 'end'): None,
    ('AnsiString.__init__', 's'): '', ('AnsiStr.__new__', 's'): '',
}
for _h in ('cursor_up_str', 'cursor_down_str', 'cursor_forward_str', 'cursor_backward_str', 'cursor_next_line_str', 'cursor_previous_line_str'):
    BY_FUNC[(_h, 'n')] = 1
REQUIRED = {('partition', 'sep'), ('rpartition', 'sep'), ('ParsedAnsiControlSequenceString.__init__', 's'), ('cursor_horizontal_absolute_str', 'n'), ('cursor_position_str', 'row'), ('cursor_position_str', 'column'),
            ('erase_in_display_str', 'n'), ('erase_in_line_str', 'n'), ('scroll_up_str', 'n'), ('scroll_down_str', 'n')}


@rule('T8', 'signature-defaults: defaults of the public API equal the documented ones / str\'s; twins agree', floor=120)
def T8(m, R):
    F = get_folder(m)
    pub = []
    for cname in ('AnsiString', 'AnsiStr'):
        for n, f in m.public_methods(cname).items():
            pub.append(f)
    for n, f in m.funcs.items():
        if f.cls is None and f.mod.name in ('ansi_string', 'ansi_parsing') and not n.startswith('_'):
            pub.append(f)
    pub.append(m.fn('ParsedAnsiControlSequenceString.__init__'))
    for cname in ('_AnsiControlFn', 'AnsiFormat'):
        for n, f in m.cls(cname).methods.items():
            if re.match(r'^(?:(fg|bg|ul|dul)_)?(rgb|color256|colour256)$', n):
                pub.append(f)
    for f in pub:
        for p in f.own_params() + f.kwonly:
            key = (f.qual, p) if ((f.qual, p) in BY_FUNC or (f.qual, p) in REQUIRED) else (f.name, p)
            d = f.defaults.get(p)
            cons = '%s(%s=)' % (f.qual, p)
            if key in REQUIRED:
                R.check(d is None, f, d or f.node, '%s is required' % p, '%s now defaults to %s (documented: required)' % (p, norm(d)), construct=cons)
                continue
            if key in BY_FUNC:
                want = BY_FUNC[key]
            elif p in BY_NAME:
                want = BY_NAME[p]
            elif p == 'component':
                want = 'COMPONENT'
            else:
                continue
            if d is None:
                if f.cls == 'AnsiStr' and p not in (m.funcs.get('AnsiString.' + f.name).defaults if m.has('AnsiString.' + f.name) else {}):
                    continue
                if f.name in ('_strip', '_split') or (f.name, p) in (('__format__', 'format_spec'),):
                    continue
                R.viol(f, f.node, 'parameter %s lost its default (documented %r)' % (p, want), construct=cons)
                continue
            if want == 'COMPONENT':
                try:
                    ref = F.fold(d)
                except Unfoldable:
                    ref = None
                R.check(isinstance(ref, EnumRef) and ref.name == 'FOREGROUND', f, d, 'default component FOREGROUND',
                        'default component is %s' % norm(d), construct=cons)
                continue
            got = const_val(d, '<non-constant>')
            if want is NEG:
                ok = isinstance(got, int) and not isinstance(got, bool) and got < 0
                R.check(ok, f, d, '%s defaults to a negative value (no limit)' % p, '%s defaults to %r; a non-negative default limits the operation' % (p, got), construct=cons)
            else:
                ok = got == want and type(got) is type(want)
                R.check(ok, f, d, '%s=%r' % (p, want), '%s defaults to %s, documented %r' % (p, norm(d), want), construct=cons)
    # twins: shared parameters have equal defaults
    S, A = m.cls('AnsiStr'), m.cls('AnsiString')
    for n, sf in S.methods.items():
        tw = A.methods.get(n)
        if tw is None:
            continue
        for p in sf.own_params() + sf.kwonly:
            if p in tw.defaults or p in sf.defaults:
                a, b = norm(tw.defaults.get(p)), norm(sf.defaults.get(p))
                va, vb = const_val(tw.defaults.get(p), None), const_val(sf.defaults.get(p), None)
                if BY_NAME.get(p) is NEG and isinstance(va, int) and isinstance(vb, int) and va < 0 and vb < 0:
                    a = b      # every negative value means "no limit"
                R.check(a == b, sf, sf.defaults.get(p) or sf.node, 'twin default %s=%s' % (p, b), 'AnsiStr.%s(%s=%s) but AnsiString has %s' % (n, p, b, a),
                        construct='twin default %s(%s=)' % (n, p))

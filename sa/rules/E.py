"""E rules: effects, ownership, aliasing (provenance analysis with summaries)."""
import ast
import re

from ..model import AnalysisError, norm, short, call_name, const_val, is_name, names_in
from ..report import rule
from ..heap import get_heap, is_fresh, IMM
from ..shapes import bind_call
from ..cfg import CFG, paths
from .P import _parents, _path_text

MEMO_ATTRS = {'_valid', '_parsable'}     # write-once memo of a pure predicate on an (otherwise immutable) setting; rule P16


def _fmt(ref):
    if ref[0] == 'TUPLE':
        return 'tuple'
    return ref[0] + ('.' + '.'.join(ref[1]) if ref[1] else '')


def _nonlocal_writes(a, roots=None):
    out = []
    for r, node, desc in a.writes:
        if is_fresh(r) or r[0] in ('Imm', 'TUPLE') or r[0].startswith('Glob'):
            continue
        if r[1] and r[1][-1] in MEMO_ATTRS:
            continue
        if roots is not None and not any(r[0] == x or (x.endswith(':') and r[0].startswith(x)) for x in roots):
            continue
        out.append((r, node, desc))
    return out


def _mutable(H, a, ref):
    k = H.kind_of(ref, a)
    return not (k in ('imm', 'str', 'tuple', 'setting') or ref[0] in ('Imm',))


@rule('E1', 'wrapped-frozen: no AnsiStr method writes through the wrapped AnsiString or lets it escape; __new__ stores the object '
            'whose rendering is the payload', floor=60)
def E1(m, R):
    H = get_heap(m)
    ro = m.roles
    S = m.cls('AnsiStr')
    for name, f in S.methods.items():
        if name == '__new__':
            continue
        a = H.analyse(f.qual)
        cons = 'AnsiStr.%s frozen' % name
        ws = _nonlocal_writes(a, ['Self'])
        if ws:
            r, node, desc = ws[0]
            R.viol(f, node, 'writes %s (%s): an AnsiStr and the AnsiString it wraps must never change after construction' % (_fmt(r), desc),
                   construct=cons, witness=['L%d %s: %s' % (getattr(n, 'lineno', 0), _fmt(r), d) for r, n, d in ws[:6]])
            continue
        esc = []
        for refs, node in a.returns:
            for r in refs:
                if r[0] == 'Self' and r[1] and r[1][0] == ro.WRAPPED and _mutable(H, a, r):
                    esc.append((r, node))
        if esc:
            R.viol(f, esc[0][1], 'returns %s: a mutable reference into the wrapped AnsiString escapes' % _fmt(esc[0][0]), construct=cons)
            continue
        R.ok(f, f.node, 'no write through the receiver, nothing mutable of the wrapped object returned', construct=cons)
    # __new__
    f = m.fn('AnsiStr.__new__')
    cons = 'AnsiStr.__new__ payload'
    cfg = CFG(f.node, f.body)
    rets = [n for n in f.walk() if isinstance(n, ast.Return)]
    problems = []
    news = {}
    for n in f.walk():
        if isinstance(n, ast.Assign) and isinstance(n.value, ast.Call) and norm(n.value.func) == 'super().__new__' and isinstance(n.targets[0], ast.Name):
            news[n] = n.targets[0].id
    if not news:
        raise AnalysisError('anchor vanished: super().__new__ in AnsiStr.__new__')
    for st, inst in news.items():
        payload = st.value.args[1] if len(st.value.args) > 1 else None
        # the wrapped assignment that follows in the same block
        blk = None
        par = st._parent
        for fld in ('body', 'orelse'):
            L = getattr(par, fld, None)
            if isinstance(L, list) and st in L:
                blk = L
        nxt = blk[blk.index(st) + 1:] if blk else []
        w = next((x for x in nxt if isinstance(x, ast.Assign) and norm(x.targets[0]) == '%s.%s' % (inst, ro.WRAPPED)), None)
        if w is None:
            problems.append('an instance is created at L%d without its wrapped AnsiString being set in the same block' % st.lineno)
            continue
        def pair_ok(pv, wvs):
            # str.__new__(cls, X) renders X itself, so X and str(X) are the same payload
            pvx = re.match(r'^str\((.+)\)$', pv).group(1) if (pv and re.match(r'^str\((.+)\)$', pv)) else pv
            return any(pvx == wv or (pvx is not None and re.match(r'^\w+$', pvx) and wv == '%s.%s' % (pvx, ro.WRAPPED)) for wv in wvs)
        pv = norm(payload) if payload is not None else None
        wv = norm(w.value)
        ok = pair_ok(pv, [wv])
        if not ok and (isinstance(payload, ast.Name) or isinstance(w.value, ast.Name)):
            # payload and / or wrapped object named first, possibly per branch: along every path to the creation, what the names were last bound to
            from ..cfg import paths as _paths, default_transfer as _dt

            def transfer(node, env):
                _dt(node, env)
                x = node.stmt
                if node.kind == 'stmt' and isinstance(x, ast.Assign) and len(x.targets) == 1 and isinstance(x.targets[0], ast.Name):
                    env['$' + x.targets[0].id] = x.value
            target_nd = next((nd for nd in cfg.nodes if nd.stmt is st), None)
            try:
                pp = _paths(cfg, cfg.entry, lambda x: x is target_nd, transfer=transfer, max_visits=1, limit=20000) if target_nd is not None else []
            except Exception:
                pp = []
            reached = [(p_, e_) for p_, e_ in pp if p_ and p_[-1] is target_nd]

            def resolve(e_, env, depth=4):
                out = [norm(e_)]
                cur = e_
                for _k in range(depth):
                    if isinstance(cur, ast.Name) and ('$' + cur.id) in env:
                        cur = env['$' + cur.id]
                        out.append(norm(cur))
                    else:
                        break
                return out
            ok = bool(reached)
            for p_, env in reached:
                pvs = resolve(payload, env)
                wvs = resolve(w.value, env)
                if not any(pair_ok(x_, wvs) for x_ in pvs):
                    ok = False
                    pv, wv = pvs[-1], wvs[-1]
                    break
        if not ok:
            problems.append('payload %s but wrapped object %s: the str payload is not the rendering of the wrapped object' % (pv, wv))
    # every return returns an instance created above
    for r in rets:
        if norm(r.value) not in set(news.values()):
            problems.append('returns %s' % norm(r.value))
    R.check(not problems, f, f.node, 'payload = str(X), wrapped = X on every path', '; '.join(problems), construct=cons)
    # provenance of X: fresh, or the wrapped object of another AnsiStr
    a = H.analyse('AnsiStr.__new__')
    cons = 'AnsiStr.__new__ wrapped provenance'
    bad = []
    for base, attr, vals, node in a.attr_stores:
        if attr == ro.WRAPPED and isinstance(node, ast.Attribute) and any(H.kind_of(b, a) == 'obj:AnsiStr' for b in base):
            for v in vals:
                if is_fresh(v) or v == IMM:
                    continue
                if v[0].startswith('Arg:') and v[1] == (ro.WRAPPED,):
                    continue      # shared between two frozen AnsiStr
                bad.append((v, node))
    R.check(not bad, f, bad[0][1] if bad else f.node, 'the wrapped object is fresh or another AnsiStr\'s (frozen) wrapped object',
            'the wrapped object may be %s: the caller keeps a mutable reference to it' % (_fmt(bad[0][0]) if bad else ''), construct=cons)
    # the private iterators over a wrapped string only read it
    for cname in ('_AnsiStrCharIterator',):
        C = m.classes.get(cname)
        if C is None:
            continue
        for name, f2 in C.methods.items():
            a = H.analyse(f2.qual)
            ws = [w for w in _nonlocal_writes(a) if not (w[0][0] == 'Self' and len(w[0][1]) == 1)]
            R.check(not ws, f2, ws[0][1] if ws else f2.node, '%s.%s only reads the wrapped string' % (cname, name),
                    'writes %s' % (_fmt(ws[0][0]) if ws else ''), construct='%s.%s frozen' % (cname, name))


@rule('E2', 'inplace-discipline: inplace=False writes nothing to the receiver and returns a fresh object; inplace=True returns the receiver', floor=34)
def E2(m, R):
    H = get_heap(m)
    A = m.cls('AnsiString')
    from ..inline import KNOWN_PRIVATE
    for name, f in A.methods.items():
        if 'inplace' not in f.own_params() + f.kwonly:
            continue
        if name.startswith('_') and not name.startswith('__') and ('AnsiString', name) not in KNOWN_PRIVATE:
            continue        # a newly extracted private helper: its code is judged where it was inlined (the public methods that call it)
        for ip in (False, True):
            a = H.analyse(f.qual, {'inplace': ip})
            cons = 'AnsiString.%s inplace=%s' % (name, ip)
            if not ip:
                ws = _nonlocal_writes(a, ['Self'])
                if ws:
                    r, node, desc = ws[0]
                    R.viol(f, node, 'with inplace=False the receiver is written: %s (%s)' % (_fmt(r), desc), construct=cons,
                           witness=['L%d %s: %s' % (getattr(n, 'lineno', 0), _fmt(r), d) for r, n, d in ws[:6]])
                    continue
                bad = []
                for refs, node in a.returns:
                    for r in refs:
                        if r == IMM and len(refs) > 1:
                            continue
                        if not is_fresh(r):
                            bad.append((r, node))
                if bad:
                    r, node = bad[0]
                    R.viol(f, node, 'with inplace=False `%s` may return %s instead of a new object: the caller\'s later mutation of the result changes the source'
                           % (short(node), _fmt(r)), construct=cons)
                    continue
                R.ok(f, f.node, 'inplace=False: no write rooted at the receiver; every return value is freshly allocated', construct=cons)
            else:
                bad = []
                for refs, node in a.returns:
                    for r in refs:
                        if r != ('Self', ()) and not (r == IMM and len(refs) > 1):
                            bad.append((r, node))
                if bad:
                    r, node = bad[0]
                    R.viol(f, node, 'with inplace=True `%s` may return %s, not the receiver' % (short(node), _fmt(r)), construct=cons)
                else:
                    R.ok(f, f.node, 'inplace=True: every return is the receiver', construct=cons)


PURE = ['count', 'find', 'rfind', 'index', 'rindex', 'endswith', 'isalnum', 'isalpha', 'isascii', 'isdecimal', 'isdigit', 'isidentifier',
        'islower', 'isnumeric', 'isprintable', 'isspace', 'istitle', 'isupper', '__len__', '__contains__', '__eq__', '__str__', '__repr__',
        '__format__', 'encode', '__getitem__', '__iter__', '__add__', 'join', 'copy', 'partition', 'rpartition', 'split', 'rsplit', '_split',
        'splitlines', 'find_settings', 'ansi_settings_at', 'settings_at', 'is_formatting_valid', 'is_formatting_parsable', 'is_optimizable',
        'base_str']
RETURNS_STRINGS = {'__getitem__', '__add__', 'join', 'copy', 'partition', 'rpartition', 'split', 'rsplit', '_split', 'splitlines'}


def _cache_key_problem(w):
    """w = (ref, node, desc) of a store into a module / class level container.  None when the stored entry is keyed on every parameter its function reads;
    otherwise what is missing (a string)."""
    node = w[1]
    stn = node
    while stn is not None and not isinstance(stn, ast.stmt):
        stn = getattr(stn, '_parent', None)
    fn_ = stn
    while fn_ is not None and not isinstance(fn_, ast.FunctionDef):
        fn_ = getattr(fn_, '_parent', None)
    if not (isinstance(stn, ast.Assign) and len(stn.targets) == 1 and isinstance(stn.targets[0], ast.Subscript)) or fn_ is None:
        return 'a run-time filled store: what it holds depends on earlier calls'
    key = stn.targets[0].slice
    a_ = fn_.args
    params = [x.arg for x in a_.posonlyargs + a_.args + a_.kwonlyargs if x.arg not in ('self', 'cls')]
    read = {n.id for n in ast.walk(fn_) if isinstance(n, ast.Name) and isinstance(n.ctx, ast.Load) and n.id in params}
    in_key = {n.id for n in ast.walk(key) if isinstance(n, ast.Name)}
    missing = sorted(read - in_key)
    if missing:
        return 'the entry is keyed on %s only, the result also depends on %s: a second call with a different %s gets the first call\'s answer' % (
            norm(key), ', '.join(missing), missing[0])
    return None


@rule('E3', 'pure-methods: queries, renderers, slicing, concatenation, copy, split family write neither receiver nor arguments; their '
            'AnsiString results are fresh', floor=44)
def E3(m, R):
    H = get_heap(m)
    ro = m.roles
    todo = [('AnsiString.' + n, [None]) for n in PURE] + [('AnsiString.to_str', [{'format_spec': 'x'}, {'format_spec': None}]),
                                                            ('settings_to_dict', [None]), ('parse_graphic_sequence', [None])]
    for qual, flagsets in todo:
        f = m.fn(qual)
        for flags in flagsets:
            a = H.analyse(qual, flags)
            cons = '%s pure%s' % (qual, '' if not flags else ' [format_spec %s]' % ('given' if flags.get('format_spec') else 'empty'))
            ws = _nonlocal_writes(a)
            if qual == 'parse_graphic_sequence':
                ws = [w for w in ws if not w[0][0].startswith('Arg:')]   # argument writes are rule E4's
            # a write into a module / class level store is a cache: harmless for the result only if its key tells apart everything the result depends on
            kept = []
            for w in ws:
                why = _cache_key_problem(w) if w[0][0].startswith('Store:') else ''
                if why is None:
                    continue            # keyed on every parameter the function reads
                kept.append((w[0], w[1], w[2] + ('; ' + why if why else '')))
            ws = kept
            if ws:
                r, node, desc = ws[0]
                R.viol(f, node, 'writes %s (%s)' % (_fmt(r), desc), construct=cons,
                       witness=['L%d %s: %s' % (getattr(n, 'lineno', 0), _fmt(r), d) for r, n, d in ws[:6]])
                continue
            if f.name in RETURNS_STRINGS:
                bad = []
                for refs, node in a.returns:
                    for r in refs:
                        rs = [r]
                        if is_fresh(r) and not r[1] and H.kind_of(r, a).startswith('list'):
                            rs = list(a.elems.get(r[0], ()))
                        for x in rs:
                            if x[0] == 'TUPLE':
                                continue
                            if not is_fresh(x) and x != IMM:
                                bad.append((x, node))
                if bad:
                    R.viol(f, bad[0][1], 'may return %s rather than a new object' % _fmt(bad[0][0]), construct=cons)
                    continue
            R.ok(f, f.node, 'no write rooted at the receiver or an argument', construct=cons)


E4_PAIRS = [
    ('AnsiString.__iadd__', 'value'), ('AnsiString.__add__', 'value'), ('AnsiString.join', 'args'), ('AnsiString.replace', 'new'),
    ('AnsiString.apply_formatting', 'settings'), ('AnsiString.remove_formatting', 'settings'), ('AnsiString.find_settings', 'settings'),
    ('AnsiString.format_matching', 'format'), ('AnsiString.unformat_matching', 'format'), ('AnsiString.apply_formatting_for_match', 'settings'),
    ('AnsiString.__init__', 's'), ('AnsiString.__init__', 'settings'), ('AnsiStr.__new__', 's'), ('AnsiStr.__new__', 'settings'),
    ('AnsiString.__contains__', 'value'), ('AnsiString.__eq__', 'value'),
    ('settings_to_dict', 'settings'), ('settings_to_dict', 'old_settings_dict'), ('parse_graphic_sequence', 'sequence'),
]


@rule('E4', 'arg-immutability: no write through an argument (right operand, replacement, settings, source of a copy), also through callees; '
            'a binary mutator reads its operand only through a snapshot once it writes', floor=18)
def E4(m, R):
    H = get_heap(m)
    ro = m.roles
    pairs = list(E4_PAIRS) + [('%s.%s' % (ro.POINT, ro.SCRUB), 'settings'), ('%s.%s' % (ro.POINT, ro.SCRUB), 'parsed_ids')]
    for qual, p in pairs:
        f = m.fn(qual)
        if p not in f.params + f.kwonly + [f.vararg]:
            raise AnalysisError('anchor vanished: parameter %s of %s' % (p, qual))
        worst = []
        for flags in ([{'inplace': False}, {'inplace': True}] if 'inplace' in f.params else [None]):
            a = H.analyse(qual, flags)
            worst += _nonlocal_writes(a, ['Arg:' + p])
        cons = '%s(%s) untouched' % (qual, p)
        if worst:
            r, node, desc = worst[0]
            R.viol(f, node, 'writes through the argument: %s (%s)' % (_fmt(r), desc), construct=cons,
                   witness=sorted({'L%d %s: %s' % (getattr(n, 'lineno', 0), _fmt(r), d) for r, n, d in worst})[:6])
        else:
            R.ok(f, f.node, 'no write is rooted at argument %s, directly or through a callee' % p, construct=cons)
    # snapshot clause for __iadd__: after the first write to the receiver nothing mutable rooted at the operand is touched
    f = m.fn('AnsiString.__iadd__')
    v = f.own_params()[0]
    a = H.analyse(f.qual)
    cons = '__iadd__ operand snapshot'
    first_write = None
    for r, node, desc in sorted(a.writes, key=lambda w: getattr(w[1], 'lineno', 0)):
        if r[0] == 'Self':
            first_write = getattr(node, 'lineno', 0)
            break
    late = []
    for refs, node in a.evaluated:
        ln = getattr(node, 'lineno', 0)
        if first_write is None or ln <= first_write:
            continue
        for r in refs:
            if r[0] == 'Arg:' + v and r[1] and r[1][0] == ro.TABLE and _mutable(H, a, r):
                late.append((r, node))
    if late:
        r, node = late[0]
        R.viol(f, node, 'after the receiver has been written (L%d) the operand\'s own table is still read (%s = %s): when the operand is the receiver '
                        'itself (a += a) the loop reads what it is modifying' % (first_write, short(node), _fmt(r)), construct=cons)
    else:
        R.ok(f, f.node, 'the operand\'s points are snapshotted into fresh objects before the first write to the receiver', construct=cons)


@rule('E5', 'list-ownership: every point is constructed with fresh lists; marker lists / tables assigned to a point or string are fresh or '
            'transferred from a dying local', floor=10)
def E5(m, R):
    H = get_heap(m)
    ro = m.roles
    n_sites = 0
    for f in m.funcs.values():
        if not any(isinstance(n, ast.Call) and call_name(n) == ro.POINT for n in f.walk()) and \
                not any(isinstance(n, ast.Attribute) and n.attr in (ro.START, ro.STOP, ro.TABLE) and isinstance(n.ctx, ast.Store) for n in f.walk()):
            continue
        if f.cls == ro.POINT and f.name == '__init__':
            continue
        a = H.analyse(f.qual)
        seen_sites = set()
        for call, cls, brefs, bound in a.ctor_sites:
            if cls != ro.POINT or id(call) in seen_sites:
                continue
            seen_sites.add(id(call))
            n_sites += 1
            for p, refs in brefs.items():
                bad = [r for r in refs if not is_fresh(r) and r != IMM and r[0] != 'TUPLE']
                cons = '%s: %s(%s=%s)' % (f.qual, ro.POINT, p, re.sub(r'\s+', ' ', norm(bound[p]))[:50])
                if bad:
                    R.viol(f, call, 'the new point receives the list %s by reference (%s): source and copy share one marker list, so changing '
                                    'either string changes the other' % (norm(bound[p]), _fmt(bad[0])), construct=cons)
                else:
                    R.ok(f, call, 'argument %s is a freshly allocated list' % p, construct=cons)
        # attribute stores of START / STOP / TABLE
        for base, attr, vals, node in a.attr_stores:
            if attr not in (ro.START, ro.STOP, ro.TABLE) or not isinstance(node, ast.Attribute) or id(node) in seen_sites:
                continue
            seen_sites.add(id(node))
            if attr == ro.TABLE:
                # a fresh table filled with another string's points: the two strings share every point (dict(x.TABLE), x.TABLE.copy(), {**x.TABLE})
                shared = [e for v in vals if is_fresh(v) and not v[1] for e in a.elems.get(v[0], ())
                          if not is_fresh(e) and e != IMM and e[0] not in ('TUPLE', 'Imm')]
                if shared:
                    stn0 = node
                    while not isinstance(stn0, ast.stmt):
                        stn0 = stn0._parent
                    n_sites += 1
                    R.viol(f, stn0, '%s is a new table but its points are those of %s: a point changed through one string (a marker inserted at an existing '
                                    'position) changes the other string as well' % (norm(node), _fmt(shared[0])),
                           construct='%s: %s' % (f.qual, re.sub(r'\s+', ' ', norm(stn0))[:70]))
                    continue
            if f.name == '__init__' and f.cls in ('AnsiString', ro.ITERATOR):
                if all(is_fresh(v) or v == IMM for v in vals):
                    continue
            stn = node
            while not isinstance(stn, ast.stmt):
                stn = stn._parent
            cons = '%s: %s' % (f.qual, re.sub(r'\s+', ' ', norm(stn))[:70])
            bad = [v for v in vals if not is_fresh(v) and v != IMM and v[0] != 'TUPLE']
            n_sites += 1
            if bad:
                R.viol(f, stn, '%s is assigned %s, which is reachable from another object as well' % (norm(node), _fmt(bad[0])), construct=cons)
                continue
            # a fresh object's table handed over: the donor must be a local that is not returned afterwards on that path
            if attr == ro.TABLE and isinstance(stn, ast.Assign) and isinstance(stn.value, ast.Attribute) and isinstance(stn.value.value, ast.Name):
                donor = stn.value.value.id
                blk = stn._parent
                later = []
                for fld in ('body', 'orelse'):
                    L = getattr(blk, fld, None)
                    if isinstance(L, list) and stn in L:
                        later = L[L.index(stn) + 1:]
                leaked = [x for x in later if isinstance(x, ast.Return) and donor in names_in(x)]
                if leaked:
                    R.viol(f, stn, 'the table of %s is handed to the receiver and %s is returned as well: two strings share one table' % (donor, donor), construct=cons)
                    continue
            R.ok(f, stn, 'assigned a fresh list / table', construct=cons)
    # one list, one owner, also inside one string: a local list handed to a point (constructor argument / START / STOP store) by its bare
    # name is given away; reaching a second hand-over of the same name without a rebinding in between puts one list into two places
    from ..cfg import CFG
    f = m.fn('AnsiString.__getitem__')
    cfg = CFG(f.node, f.body)

    def handovers(holder):
        out = []
        if holder is None:
            return out
        for x in ast.walk(holder):
            if isinstance(x, ast.Call) and call_name(x) == ro.POINT:
                for a_ in list(x.args) + [k.value for k in x.keywords]:
                    if isinstance(a_, ast.Name):
                        out.append((a_.id, x))
            elif isinstance(x, ast.Assign) and isinstance(x.value, ast.Name) and any(isinstance(t_, ast.Attribute) and t_.attr in (ro.START, ro.STOP) for t_ in x.targets):
                out.append((x.value.id, x))
        return out

    def rebinds(nd, name_):
        st_ = nd.stmt
        if nd.kind in ('test', 'loop'):
            return isinstance(st_, ast.For) and name_ in names_in(st_.target)
        return isinstance(st_, (ast.Assign, ast.AnnAssign, ast.AugAssign)) and any(
            isinstance(t_, ast.Name) and t_.id == name_ for t_ in (st_.targets if isinstance(st_, ast.Assign) else [st_.target]))
    twice = None
    n_give = 0
    for nd in cfg.nodes:
        if nd.kind != 'stmt':
            continue
        for name_, call_ in handovers(nd.stmt):
            n_give += 1
            # forward search, remembering the outcome of each test passed (a path that needs one test both ways is not a path)
            start_conds = []
            ch_, par_ = nd.stmt, getattr(nd.stmt, '_parent', None)
            while par_ is not None and par_ is not f.node:
                if isinstance(par_, ast.If):
                    start_conds.append((norm(par_.test), any(ch_ is b_ for b_ in par_.body)))
                ch_, par_ = par_, getattr(par_, '_parent', None)
            stack = [(nx_, frozenset(start_conds)) for _l, nx_ in nd.succ]
            seen = set()
            while stack and twice is None:
                cur, conds = stack.pop()
                if (cur.id, conds) in seen or len(seen) > 20000:
                    continue
                seen.add((cur.id, conds))
                if cur.kind == 'stmt' and any(n2 == name_ for n2, _c in handovers(cur.stmt)):
                    twice = (name_, call_, cur)
                    break
                if rebinds(cur, name_):
                    continue
                for lab, nx_ in cur.succ:
                    c2 = conds
                    if cur.kind == 'test' and isinstance(lab, bool):
                        t_ = norm(cur.test)
                        if (t_, not lab) in conds:
                            continue
                        c2 = conds | {(t_, lab)}
                    stack.append((nx_, c2))
            if twice:
                break
        if twice:
            break
    if twice:
        R.viol(f, twice[2].stmt, 'the list %s is handed to a point at L%d (%s) and, without having been rebound, again at L%d (%s): two marker lists of the result are one '
                                 'object, so an in-place change of one (+=, insert_settings, a seam merge that deletes from the end list) changes the other'
               % (twice[0], twice[1].lineno, short(twice[1]), twice[2].line, short(twice[2].stmt)), construct='AnsiString.__getitem__: one list, one owner')
    else:
        R.ok(f, f.node, 'no local list is handed to two places of the result (%d hand-overs by bare name followed)' % n_give,
             construct='AnsiString.__getitem__: one list, one owner')
    # the iterator's active list is its own
    it = m.cls(ro.ITERATOR)
    a = H.analyse('%s.__init__' % ro.ITERATOR)
    ok = True
    for base, attr, vals, node in a.attr_stores:
        if attr == ro.ACTIVE and not all(is_fresh(v) for v in vals):
            ok = False
    f = it.methods['__init__']
    R.check(ok, f, f.node, 'the iterator\'s active list is a fresh list', construct='%s active list' % ro.ITERATOR)
    nx = it.methods['__next__']
    aliasing = [n for n in nx.walk() if isinstance(n, ast.Assign) and norm(n.targets[0]) == 'self.' + ro.ACTIVE and
                not isinstance(n.value, (ast.List, ast.Call, ast.BinOp, ast.ListComp))]
    R.check(not aliasing, nx, aliasing[0] if aliasing else nx.node, 'the active list is only extended / pruned, never rebound to a table list',
            construct='%s active rebinding' % ro.ITERATOR)


@rule('E6', 'fresh-markers: every setting apply_formatting inserts is allocated during that call', floor=3)
def E6(m, R):
    H = get_heap(m)
    ro = m.roles
    f = m.fn('AnsiString.apply_formatting')
    scrubq = '%s.%s' % (ro.POINT, ro.SCRUB)
    sc = m.fn(scrubq)
    calls = [n for n in f.walk() if isinstance(n, ast.Call) and call_name(n) == ro.SCRUB]
    cons = 'apply_formatting scrub flag'
    if not calls:
        raise AnalysisError('anchor vanished: scrub call in apply_formatting')
    b, _ = bind_call(calls[0], sc)
    mu = b.get('make_unique')
    R.check(mu is not None and const_val(mu, None) is True, f, calls[0], 'settings are scrubbed with make_unique=True',
            'settings are scrubbed with make_unique=%s: the very AnsiSetting objects the caller passed become markers, so two ranges formatted with '
            'the same object end each other' % (norm(mu) if mu is not None else 'default False'), construct=cons)
    # under make_unique=True no element of the result is rooted at an argument
    a = H.analyse(scrubq, {'make_unique': True})
    bad = []
    for refs, node in a.returns:
        for r in refs:
            if is_fresh(r):
                for el in a.elems.get(r[0], ()):
                    if not is_fresh(el) and el != IMM and el[0] != 'TUPLE':
                        bad.append((el, node))
    R.check(not bad, sc, sc.node, 'with make_unique=True every returned setting is freshly allocated (own code + callees\' summaries)',
            'with make_unique=True the result may contain %s, an object owned by the caller' % (_fmt(bad[0][0]) if bad else ''), construct='scrub result freshness')
    # what is inserted is the scrub result
    res = None
    for n in f.walk():
        if isinstance(n, ast.Assign) and n.value is calls[0]:
            res = norm(n.targets[0])
    ins = [n for n in f.walk() if isinstance(n, ast.Call) and call_name(n) == 'insert_settings']
    ok = res is not None and sum(1 for c in ins if len(c.args) >= 2 and norm(c.args[1]) == res) >= 2
    R.check(ok, f, ins[0] if ins else f.node, 'the scrubbed list is what is inserted as start and as stop markers', construct='apply_formatting inserts scrub result')
    # no function on the way from the caller's spelling to the inserted objects is memoised: a cache hands the same objects to every call
    chain = [sc]
    seen = {sc.qual}
    frontier = [sc]
    for _ in range(4):
        nxt = []
        for g in frontier:
            for n in g.walk():
                if isinstance(n, ast.Call):
                    nm = call_name(n)
                    for q in ('%s.%s' % (ro.POINT, nm), nm, 'AnsiSetting.%s' % nm, '_AnsiControlFn.%s' % nm):
                        h = m.funcs.get(q)
                        if h is not None and h.qual not in seen:
                            seen.add(h.qual)
                            nxt.append(h)
                            chain.append(h)
        frontier = nxt
    memo = [(g, d) for g in chain for d in g.decorators if re.search(r'(^|\.)(lru_cache|cache|cached_property|memoize|memoise)\b', d)]
    R.check(not memo, memo[0][0] if memo else sc, (memo[0][0] if memo else sc).node,
            'none of the %d functions that turn the caller\'s spelling into settings is memoised' % len(chain),
            '%s is decorated with %s: for equal arguments it returns the very objects it returned before, so two ranges formatted with the same spelling share their '
            'markers (make_unique is defeated) and the end of one range ends the other' % (memo[0][0].qual if memo else '', memo[0][1] if memo else ''),
            construct='scrub chain not memoised')


@rule('E7', 'text-untouched: apply / remove / *_matching / clear_formatting never write the text; clear_formatting empties the table', floor=6)
def E7(m, R):
    H = get_heap(m)
    ro = m.roles
    for name in ('apply_formatting', 'remove_formatting', 'format_matching', 'unformat_matching', 'apply_formatting_for_match', 'clear_formatting'):
        f = m.fn('AnsiString.' + name)
        a = H.analyse(f.qual)
        ws = [w for w in _nonlocal_writes(a, ['Self']) if w[0][1] and w[0][1][0] == ro.TEXT]
        R.check(not ws, f, ws[0][1] if ws else f.node, '%s never writes the base text' % name,
                '%s writes the base text (%s)' % (name, ws[0][2] if ws else ''), construct=name + ' text untouched')
    f = m.fn('AnsiString.clear_formatting')
    ok = any(isinstance(n, ast.Assign) and norm(n.targets[0]) == '%s.%s' % (f.self_name, ro.TABLE) and norm(n.value) in ('{}', 'dict()') for n in f.body) or \
        any(isinstance(n, ast.Expr) and norm(n.value) == '%s.%s.clear()' % (f.self_name, ro.TABLE) for n in f.body)
    R.check(ok, f, f.node, 'clear_formatting leaves an empty table', construct='clear_formatting empties')


# ----------------------------------------------------------------------------------------------------------------------
def _is_marker(H, a, ref, depth=0):
    """ref denotes a setting object that lives in some string's START / STOP list (or the iterator's active list)."""
    ro = H.ro
    if ref[0] in ('TUPLE', 'Imm'):
        return False
    root, path = ref
    if root.startswith('Fresh:iterlist'):
        return False
    if path and path[-1] == '[*]' and len(path) >= 2 and path[-2] in (ro.START, ro.STOP):
        return True
    if path and path[-1] == '**':
        return False
    return False


def _marker_list(H, a, ref, depth=0):
    ro = H.ro
    if ref[0] in ('TUPLE', 'Imm'):
        return False
    root, path = ref
    if path and path[-1] in (ro.START, ro.STOP):
        return True
    if root.startswith('Fresh:iterlist') and not path:
        return True
    if is_fresh(ref) and not path and depth < 3:
        els = a.elems.get(root, ())
        return any(_is_marker(H, a, e) for e in els)
    return False


@rule('F8', 'identity-discipline: markers are matched by identity; value equality between two marker-provenance operands is allowed only at '
            'the three declared sites', floor=4)
def F8(m, R):
    H = get_heap(m)
    ro = m.roles
    funcs = [f for f in m.funcs.values() if f.cls == 'AnsiString' or f.cls == ro.ITERATOR]
    n = 0
    for f in funcs:
        if f.name in ('__eq__',):
            continue       # documented value equality of two strings' settings
        sites = [x for x in f.walk() if (isinstance(x, ast.Compare) and len(x.ops) == 1 and isinstance(x.ops[0], (ast.In, ast.NotIn, ast.Eq, ast.NotEq)))
                 or (isinstance(x, ast.Call) and isinstance(x.func, ast.Attribute) and x.func.attr in ('index', 'remove', 'count') and len(x.args) == 1)]
        if not sites:
            continue
        a = H.analyse(f.qual)
        refs_of = {}
        for refs, node in a.evaluated:
            refs_of.setdefault(id(node), set()).update(refs)
        for x in sites:
            if isinstance(x, ast.Compare):
                l, r = x.left, x.comparators[0]
                op = x.ops[0]
                lrefs, rrefs = refs_of.get(id(l), set()), refs_of.get(id(r), set())
                if isinstance(op, (ast.In, ast.NotIn)):
                    hit = any(_is_marker(H, a, e) for e in lrefs) and any(_marker_list(H, a, e) for e in rrefs)
                    what = 'membership test `%s`' % short(x)
                else:
                    both_lists = any(_marker_list(H, a, e) for e in lrefs) and any(_marker_list(H, a, e) for e in rrefs)
                    both_elems = any(_is_marker(H, a, e) for e in lrefs) and any(_is_marker(H, a, e) for e in rrefs)
                    hit = both_lists or both_elems
                    what = 'comparison `%s`' % short(x)
            else:
                lrefs = refs_of.get(id(x.args[0]), set())
                rrefs = refs_of.get(id(x.func.value), set())
                hit = any(_is_marker(H, a, e) for e in lrefs) and any(_marker_list(H, a, e) for e in rrefs)
                what = 'list.%s `%s`' % (x.func.attr, short(x))
            if not hit:
                continue
            n += 1
            cons = '%s: %s' % (f.name, re.sub(r'\s+', ' ', norm(x))[:80])
            # declared sites (DESIGN 2.4)
            def roots(refs):
                out = set()
                for e in refs:
                    if is_fresh(e) and not e[1]:
                        out |= {y[0] for y in a.elems.get(e[0], ()) if y[0] not in ('TUPLE', 'Imm')}
                        for (fr, attr), vals in a.fields.items():
                            pass
                    else:
                        out.add(e[0])
                return out
            if f.name == '__iadd__' and isinstance(x, ast.Compare) and isinstance(x.ops[0], (ast.Eq, ast.NotEq)) and \
                    'Self' in (roots(lrefs) | roots(rrefs)) and any(isinstance(sd, ast.Subscript) and isinstance(sd.slice, ast.Slice) for sd in (x.left, x.comparators[0])):
                R.ok(f, x, 'declared seam merge: stop markers of the receiver are compared by value with start markers of the other operand', construct=cons)
                continue
            if f.name == '__iadd__' and isinstance(x, ast.Compare) and isinstance(x.ops[0], ast.Eq):
                # a further conjunct of the declared seam-merge test (the receiver's active settings compared with the start markers of the other operand)
                host = next((p for p in _parents(x) if isinstance(p, ast.If)), None)
                if host is not None and any(x is y for y in ast.walk(host.test)) and any(
                        isinstance(c, ast.Compare) and c is not x and isinstance(c.ops[0], ast.Eq) and
                        any(isinstance(sd, ast.Subscript) and isinstance(sd.slice, ast.Slice) and norm(sd.value).endswith('.' + ro.STOP) for sd in (c.left, c.comparators[0]))
                        for c in ast.walk(host.test)):
                    R.ok(f, x, 'declared seam merge: a further conjunct of the merge test compares markers of the receiver by value with start markers of the other operand',
                         construct=cons)
                    continue
            if f.name == 'to_str' and isinstance(x, ast.Compare) and isinstance(x.ops[0], (ast.Eq, ast.NotEq)) and \
                    any(isinstance(p, (ast.ListComp, ast.If)) for p in _parents(x)) and 'dict' in norm(x):
                R.ok(f, x, 'declared: the optimiser compares the rendered value of two effective states', construct=cons)
                continue
            R.viol(f, x, '%s matches a marker of this string against other markers by *value*: two equal settings that overlap are '
                         'confused with each other (the wrong one is kept open / restarted)' % what, construct=cons)
    # IDFIND helpers compare with `is`
    A = m.cls('AnsiString')
    for nme in ro.IDFIND:
        f = A.methods.get(nme)
        if f is None:
            raise AnalysisError('anchor vanished: %s' % nme)
        cmps = [x for x in f.walk() if isinstance(x, ast.Compare)]
        ok = bool(cmps) and all(isinstance(c.ops[0], ast.Is) for c in cmps)
        R.check(ok, f, cmps[0] if cmps else f.node, '%s matches by identity (`is`)' % nme,
                '%s compares with %s: equal but distinct settings are taken for each other' % (nme, [type(c.ops[0]).__name__ for c in cmps]),
                construct='%s identity' % nme)
    # the iterator removes by identity
    nx = m.fn('%s.__next__' % ro.ITERATOR)
    from ..shapes import with_helpers
    uses = [x for g_ in with_helpers(m, nx, 1) for x in g_.walk() if isinstance(x, ast.Call) and call_name(x) == ro.IDFIND1]
    if not uses:
        # the search written out in the iterator (or a helper of it): every comparison that guards the deletion from the active list is `is`
        act = 'self.' + ro.ACTIVE
        hosts = list(with_helpers(m, nx, 1))
        dels = []
        for g_ in hosts:
            from ..shapes import local_aliases as _la, canon as _cn
            al_ = _la(g_)
            for x in g_.walk():
                if isinstance(x, ast.Delete) and any(isinstance(t_, ast.Subscript) and _cn(t_.value, al_) == act for t_ in x.targets):
                    guards = [p_.test for p_ in _parents(x) if isinstance(p_, ast.If)]
                    cmps = [c_ for t_ in guards for c_ in ast.walk(t_) if isinstance(c_, ast.Compare)]
                    dels.append((g_, x, cmps))
        if dels and all(cmps and all(isinstance(c_.ops[0], (ast.Is, ast.IsNot)) for c_ in cmps) for _g, _x, cmps in dels):
            R.ok(nx, dels[0][1], 'the iterator finds the marker to stop by identity (search written out with `is`)', construct='iterator identity')
        elif dels and any(any(isinstance(c_.ops[0], (ast.Eq, ast.NotEq, ast.In, ast.NotIn)) for c_ in cmps) for _g, _x, cmps in dels):
            R.viol(dels[0][0], dels[0][1], 'the iterator deletes the first active setting that compares equal (==): of two equal settings that overlap, the wrong one is stopped',
                   construct='iterator identity')
        else:
            R.undecided(nx, nx.node, 'how the iterator finds the marker to stop was not recognised', construct='iterator identity')
    else:
        R.ok(nx, uses[0], 'the iterator finds the marker to stop by identity', construct='iterator identity')

"""P18 pad key map, P24 restart completeness, P8 loop variants, E8 validate-before-mutate, E9 constructor settings, and friends."""
import ast
import re

from ..model import AnalysisError, norm, short, call_name, const_val, flatten_add, is_attr, is_name, names_in
from ..report import rule
from ..cfg import CFG, paths, PathExplosion, default_transfer
from ..finite import eval_guard, flag_valuation, order_valuation, run_block, Undecided, cmp_regions, merge_valuations
from ..shapes import bind_call, subst, inplace_switch
from ..heap import get_heap, is_fresh, IMM
from .P import _parents, _path_text


# ----------------------------------------------------------------------------------------------------------------------
class Sym:
    """Linear form over named symbols with integer coefficients."""

    def __init__(self, terms=None, c=0):
        self.t = {k: v for k, v in (terms or {}).items() if v}
        self.c = c

    def __add__(self, o):
        t = dict(self.t)
        for k, v in o.t.items():
            t[k] = t.get(k, 0) + v
        return Sym(t, self.c + o.c)

    def __sub__(self, o):
        t = dict(self.t)
        for k, v in o.t.items():
            t[k] = t.get(k, 0) - v
        return Sym(t, self.c - o.c)

    def key(self):
        return (tuple(sorted(self.t.items())), self.c)

    def __eq__(self, o):
        return isinstance(o, Sym) and self.key() == o.key()

    def __hash__(self):
        return hash(self.key())

    def __repr__(self):
        parts = [('%s' % k if v == 1 else '-%s' % k if v == -1 else '%d*%s' % (v, k)) for k, v in sorted(self.t.items())]
        if self.c or not parts:
            parts.append(str(self.c))
        return ' + '.join(parts).replace('+ -', '- ')


def _sym_eval(e, env):
    t = norm(e)
    if t in env:
        return env[t]
    if isinstance(e, ast.Constant) and isinstance(e.value, int):
        return Sym(c=e.value)
    if isinstance(e, ast.Name):
        if e.id in env:
            return env[e.id]
        return Sym({e.id: 1})
    if isinstance(e, ast.BinOp) and isinstance(e.op, (ast.Add, ast.Sub)):
        a, b = _sym_eval(e.left, env), _sym_eval(e.right, env)
        return a + b if isinstance(e.op, ast.Add) else a - b
    raise Undecided('expression %s' % t)


@rule('P18', 'pad-keymap: the key relocations of ljust / rjust / center compose to 0->0, k->k+left, end->new end when extending and '
             'k->k+left otherwise', floor=6)
def P18(m, R):
    ro = m.roles
    TEXT, TABLE = ro.TEXT, ro.TABLE
    # summarise the shift helper: k -> k + n for every key, except 0 when keep_origin
    sh = m.fn('AnsiString._shift_settings_idx')
    num, keep = sh.own_params()[:2]
    lp = next((n for n in sh.walk() if isinstance(n, ast.For)), None)
    cons = 'shift helper'
    if lp is None:
        raise AnalysisError('anchor vanished: loop of _shift_settings_idx')
    k = norm(lp.target)
    problems = []
    it = norm(lp.iter)
    if not re.match(r'^sorted\(self\.%s(\.keys\(\))?, reverse=True\)$' % TABLE, it):
        problems.append('keys are visited as %s; moving keys upwards must visit them in descending order or a moved point overwrites one not yet moved' % it)
    guard = lp.body[0] if len(lp.body) == 1 and isinstance(lp.body[0], ast.If) else None
    if guard is None:
        problems.append('loop body is not the guarded re-keying')
    else:
        tt = {}
        for kp in (True, False):
            for zero in (True, False):
                tt[(kp, zero)] = eval_guard(guard.test, flag_valuation({keep: kp}, {'%s != 0' % k: not zero, '%s == 0' % k: zero}))
        if tt != {(True, True): False, (True, False): True, (False, True): True, (False, False): True}:
            problems.append('a key is moved for (keep_origin, key==0) in %s; only (True, True) may stay' % sorted(kk for kk, v in tt.items() if v))
        env = {}
        mv = None
        for s_ in guard.body:
            if isinstance(s_, ast.Assign) and isinstance(s_.targets[0], ast.Name):
                env[s_.targets[0].id] = s_.value
            elif isinstance(s_, ast.Assign) and isinstance(s_.targets[0], ast.Subscript):
                mv = s_
        okmv = False
        if mv is not None and norm(mv.targets[0].value) == 'self.' + TABLE and norm(mv.value) == 'self.%s.pop(%s)' % (TABLE, k):
            key = subst(mv.targets[0].slice, env)
            # key + num, optionally clamped from below by a bound <= 0 (num is never negative here)
            if call_name(key) == 'max' and len(key.args) == 2:
                consts = [const_val(a, None) for a in key.args]
                others = [a for a, c in zip(key.args, consts) if c is None]
                cs = [c for c in consts if c is not None]
                if len(others) == 1 and len(cs) == 1 and cs[0] <= 0:
                    key = others[0]
            okmv = norm(key) in ('%s + %s' % (k, num), '%s + %s' % (num, k))
        if not okmv:
            problems.append('re-keying is %s, expected table[key + num] = table.pop(key)' % [norm(s_) for s_ in guard.body])
    neg = next((n for n in sh.body if isinstance(n, ast.If) and any(isinstance(x, ast.Raise) for x in n.body)), None)
    if neg is not None:
        from ..finite import int_eval
        try:
            tt = {v: bool(int_eval(neg.test, {num: v})) for v in (-2, -1, 0, 1, 2)}
        except Undecided:
            tt = None
        if tt is not None and (tt[0] or tt[1] or tt[2]):
            problems.append('the helper rejects the count %s (guard %s): a shift by 0 is what center() asks for when only one fill character is added on the right'
                            % ([v for v in (0, 1, 2) if tt[v]], short(neg.test)))
    R.check(not problems, sh, lp, 'shift maps k -> k + num (descending), keeping 0 iff keep_origin', '; '.join(problems), construct=cons)
    for name in ('ljust', 'rjust', 'center'):
        f = m.fn('AnsiString.' + name)
        width, fill = f.own_params()[:2]
        var, rest, _ = inplace_switch(f.body[1:], f.self_name)
        if var is None:
            R.undecided(f, f.node, 'in-place switch not recognised', construct=name + ' key map')
            continue
        txt = '%s.%s' % (var, TEXT)
        tbl = '%s.%s' % (var, TABLE)
        act = next((s for s in rest if isinstance(s, ast.If) and not is_name(s.test, 'inplace')), None)
        pre = {}
        for s in rest:
            if isinstance(s, ast.Assign) and isinstance(s.targets[0], ast.Name):
                pre[s.targets[0].id] = s
        if act is None:
            R.undecided(f, f.node, 'padding block not found', construct=name + ' key map')
            continue
        for extend in (True, False):
            cons = '%s key map extend=%s' % (name, extend)
            env = {'len(%s)' % txt: Sym({'old_len': 1})}
            old_len_name = next((nme for nme, s in pre.items() if norm(s.value) == 'len(%s)' % txt), None)
            if old_len_name:
                env[old_len_name] = Sym({'old_len': 1})
            num_name = next((nme for nme, s in pre.items() if norm(s.value) in ('%s - %s' % (width, old_len_name), '%s - len(%s)' % (width, txt))), None)
            if num_name:
                env[num_name] = Sym({'num': 1})
            keys = {'origin': Sym(c=0), 'interior': Sym({'k': 1}), 'end': Sym({'old_len': 1})}
            left = Sym(c=0)
            newlen = None
            problems = []
            try:
                stmts = []

                def collect(block):
                    for s in block:
                        if isinstance(s, ast.If):
                            v = eval_guard(s.test, flag_valuation({'extend_formatting': extend}))
                            if v is True:
                                collect(s.body)
                            elif v is False:
                                collect(s.orelse)
                            elif isinstance(s.test, ast.BoolOp) and isinstance(s.test.op, ast.And) and not s.orelse:
                                # flag conjuncts decided, the rest stays as the condition
                                rest_ = [c for c in s.test.values if eval_guard(c, flag_valuation({'extend_formatting': extend})) is not True]
                                if any(eval_guard(c, flag_valuation({'extend_formatting': extend})) is False for c in s.test.values):
                                    continue
                                if len(rest_) == 1:
                                    stmts.append(ast.If(test=rest_[0], body=s.body, orelse=[]))
                                else:
                                    stmts.append(s)
                            else:
                                stmts.append(s)
                        else:
                            stmts.append(s)
                collect(act.body)
                outcomes = []

                def zero(sym_name, state):
                    def z(v):
                        if isinstance(v, Sym):
                            t_ = dict(v.t)
                            t_.pop(sym_name, None)
                            return Sym(t_, v.c)
                        return v
                    return {'env': {k_: z(v_) for k_, v_ in state['env'].items()}, 'keys': {k_: z(v_) for k_, v_ in state['keys'].items()},
                            'left': z(state['left']), 'newlen': z(state['newlen']), 'problems': list(state['problems']),
                            'region': state['region'] + ['%s = 0' % sym_name], 'zeroed': state['zeroed'] | {sym_name}}

                def run_stmts(stmts, state):
                    env = state['env']
                    keys = state['keys']
                    for i_, s in enumerate(stmts):
                        if isinstance(s, ast.If):
                            fv_ = eval_guard(s.test, flag_valuation({'extend_formatting': extend}))
                            if fv_ is not None:
                                st2_ = {'env': dict(env), 'keys': dict(keys), 'left': state['left'], 'newlen': state['newlen'], 'problems': list(state['problems']),
                                        'region': list(state['region']), 'zeroed': set(state['zeroed'])}
                                run_stmts((s.body if fv_ else s.orelse) + stmts[i_ + 1:], st2_)
                                return
                        if isinstance(s, ast.If) and isinstance(s.test, ast.Compare) and len(s.test.ops) == 1 and isinstance(const_val(s.test.comparators[0], None), int) and \
                                not (isinstance(s.test.ops[0], ast.In)):
                            # a guard on a count that is >= 0 by construction: positive / zero regions
                            try:
                                v_ = _sym_eval(s.test.left, env)
                            except Undecided:
                                v_ = None
                            k0 = const_val(s.test.comparators[0])
                            if v_ is not None and len(v_.t) == 1 and v_.c == 0 and list(v_.t.values()) == [1]:
                                sym_name = list(v_.t)[0]
                                op_ = s.test.ops[0]
                                pos_true = {ast.Gt: k0 <= 0, ast.GtE: k0 <= 1, ast.NotEq: k0 == 0, ast.Eq: False if k0 == 0 else None, ast.LtE: False if k0 == 0 else None,
                                            ast.Lt: False if k0 <= 1 else None}.get(type(op_))
                                zero_true = {ast.Gt: 0 > k0, ast.GtE: 0 >= k0, ast.NotEq: 0 != k0, ast.Eq: 0 == k0, ast.LtE: 0 <= k0, ast.Lt: 0 < k0}.get(type(op_))
                                if pos_true is None:
                                    raise Undecided('guard %s' % short(s.test))
                                rest_ = stmts[i_ + 1:]
                                st_pos = {'env': dict(env), 'keys': dict(keys), 'left': state['left'], 'newlen': state['newlen'], 'problems': list(state['problems']),
                                          'region': state['region'] + ['%s > 0' % sym_name], 'zeroed': set(state['zeroed'])}
                                run_stmts((s.body if pos_true else s.orelse) + rest_, st_pos)
                                st_zero = zero(sym_name, state)
                                run_stmts((s.body if zero_true else s.orelse) + rest_, st_zero)
                                return
                        if isinstance(s, ast.Assign) and isinstance(s.targets[0], ast.Name):
                            nme = s.targets[0].id
                            tv = norm(s.value).replace(' ', '')
                            nn = num_name or 'num'
                            if tv in ('math.floor(%s/2)' % nn, 'math.floor((%s)/2)' % nn, '%s//2' % nn, '(%s)//2' % nn, 'int(%s/2)' % nn, 'int((%s)/2)' % nn):
                                env[nme] = Sym({'left': 1})
                            else:
                                env[nme] = _sym_eval(s.value, env)
                            if nme != num_name and 'right' not in nme and env[nme] == Sym({'left': 1}):
                                pass
                        elif (isinstance(s, ast.Assign) and norm(s.targets[0]) == txt) or (isinstance(s, ast.AugAssign) and norm(s.target) == txt):
                            val = s.value if isinstance(s, ast.Assign) else ast.BinOp(left=s.target, op=ast.Add(), right=s.value)
                            total = Sym(c=0)
                            before_text = Sym(c=0)
                            seen_text = False
                            for p in flatten_add(val):
                                if norm(p) == txt:
                                    total = total + Sym({'old_len': 1})
                                    seen_text = True
                                elif isinstance(p, ast.BinOp) and isinstance(p.op, ast.Mult):
                                    cnt = p.right if norm(p.left) == fill else p.left
                                    c = _sym_eval(cnt, env)
                                    total = total + c
                                    if not seen_text:
                                        before_text = before_text + c
                                else:
                                    raise Undecided('text part %s' % norm(p))
                            state['newlen'] = total
                            state['left'] = before_text
                            env['len(%s)' % txt] = state['newlen']
                        elif isinstance(s, ast.If) and isinstance(s.test, ast.Compare) and isinstance(s.test.ops[0], ast.In) and norm(s.test.comparators[0]) == tbl:
                            # if B in table: table[A] = table.pop(B)
                            B = _sym_eval(s.test.left, env)
                            mv = [x for x in s.body if isinstance(x, ast.Assign) and isinstance(x.targets[0], ast.Subscript) and norm(x.targets[0].value) == tbl]
                            if len(mv) != 1 or call_name(mv[0].value) != 'pop' or norm(mv[0].value.args[0]) != norm(s.test.left):
                                raise Undecided('relocation %s' % short(s))
                            A = _sym_eval(mv[0].targets[0].slice, env)
                            hit = [c for c, kk in keys.items() if kk == B]
                            if not hit:
                                state['problems'].append('the point looked up under key %r is none of origin / interior / end at that moment (end is at %r): '
                                                'the end marker is not found, or an interior point is moved instead' % (B, keys['end']))
                            for c in hit:
                                keys[c] = A
                        elif isinstance(s, ast.Expr) and isinstance(s.value, ast.Call) and call_name(s.value) == '_shift_settings_idx':
                            b, _ = bind_call(s.value, sh)
                            n = _sym_eval(b[num], env)
                            kp = b.get(keep)
                            kpv = eval_guard(kp, flag_valuation({'extend_formatting': extend})) if kp is not None else None
                            if kpv is None:
                                raise Undecided('keep_origin argument %s' % norm(kp))
                            for c in keys:
                                if c == 'origin' and kpv and keys[c] == Sym(c=0):
                                    continue
                                keys[c] = keys[c] + n
                        elif isinstance(s, ast.Expr) and isinstance(s.value, ast.Constant):
                            continue
                        else:
                            raise Undecided('statement %s' % short(s))

                    outcomes.append(state)
                run_stmts(stmts, {'env': env, 'keys': keys, 'left': left, 'newlen': newlen, 'problems': problems, 'region': [], 'zeroed': set()})
            except Undecided as e:
                R.undecided(f, act, str(e), construct=cons)
                continue
            if not outcomes or any(o_['newlen'] is None for o_ in outcomes):
                R.undecided(f, act, 'text assembly not found', construct=cons)
                continue
            allp = []
            desc_ = None
            for o_ in outcomes:
                keys, left, newlen = o_['keys'], o_['left'], o_['newlen']
                pr_ = list(o_['problems'])
                want = {'interior': Sym({'k': 1}) + left}
                if extend:
                    want['origin'] = Sym(c=0)
                    want['end'] = newlen
                else:
                    want['origin'] = left
                    want['end'] = Sym({'old_len': 1}) + left
                # with a symbol zeroed the old length may have been written in terms of it: compare modulo the zeroed symbols
                for c in ('origin', 'interior', 'end'):
                    if keys[c] != want[c]:
                        pr_.append('%s point ends at key %r, expected %r' % (c, keys[c], want[c]))
                if pr_:
                    allp.append(('when %s: ' % ' and '.join(o_['region']) if o_['region'] else '') + '; '.join(pr_))
                if desc_ is None:
                    desc_ = 'origin -> %r, k -> %r, end -> %r (new length %r)' % (want['origin'], want['interior'], want['end'], newlen)
            R.check(not allp, f, act, desc_ + (' in all %d regions' % len(outcomes) if len(outcomes) > 1 else ''), ' | '.join(allp[:2]), construct=cons)


@rule('P24', 'restart-completeness: when already-active settings are restarted at a point, the whole continuing set is restarted and it '
             'lands below the point\'s own starters', floor=2)
def P24(m, R):
    ro = m.roles
    # (a) apply_formatting, topmost=False
    f = m.fn('AnsiString.apply_formatting')
    cons = 'apply_formatting restart'
    blks = [n for n in f.body if isinstance(n, ast.If) and eval_guard(n.test, flag_valuation({'topmost': False})) is True
            and eval_guard(n.test, flag_valuation({'topmost': True})) is False]
    # (the block that does the restart; a block under the same flag that only prepares a list comes first in some layouts)
    blk = next((n for n in blks if any(isinstance(x, ast.Call) and call_name(x) in ('insert_settings', 'extend') for x in ast.walk(n))), blks[0] if blks else None)
    if blk is None:
        R.viol(f, f.node, 'topmost=False has no restart block: continuing settings would stay below the new ones', construct=cons)
    else:
        from ..shapes import local_aliases, canon
        al = local_aliases(f)
        problems = []
        acc = None
        filt = None       # the selection condition of the restart list
        src_ok = None
        # form 1: acc = []; for s in ansi_settings_at(start): if <cond>: acc.append(s)
        for s_ in blk.body:
            if isinstance(s_, ast.Assign) and isinstance(s_.value, ast.List) and not s_.value.elts:
                acc = norm(s_.targets[0])
        lp = next((s_ for s_ in blk.body if isinstance(s_, ast.For)), None)
        if acc is not None and lp is not None:
            it = subst(lp.iter, {k: v for k, v in al.items()})
            srcs = {norm(x.targets[0]): x.value for x in blk.body if isinstance(x, ast.Assign) and call_name(x.value) == 'ansi_settings_at'}
            itv = srcs.get(norm(lp.iter), lp.iter)
            src_ok = call_name(itv) == 'ansi_settings_at' and [norm(a) for a in itv.args] == ['start']
            g = lp.body[0] if len(lp.body) == 1 and isinstance(lp.body[0], ast.If) else None
            if g is not None and any(call_name(x) == 'append' and norm(x.func.value) == acc for x in ast.walk(g) if isinstance(x, ast.Call)):
                filt = (g.test, norm(lp.target))
        else:
            # form 2: acc = [s for s in ansi_settings_at(start) if <cond>]
            for s_ in blk.body:
                if isinstance(s_, ast.Assign) and isinstance(s_.value, ast.ListComp) and len(s_.value.generators) == 1:
                    g0 = s_.value.generators[0]
                    itv = g0.iter
                    srcs = {norm(x.targets[0]): x.value for x in blk.body if isinstance(x, ast.Assign) and call_name(x.value) == 'ansi_settings_at'}
                    itv = srcs.get(norm(itv), itv)
                    if call_name(itv) == 'ansi_settings_at' and norm(s_.value.elt) == norm(g0.target) and len(g0.ifs) == 1:
                        acc = norm(s_.targets[0])
                        src_ok = [norm(a) for a in itv.args] == ['start']
                        filt = (g0.ifs[0], norm(g0.target))
        direct = None
        if acc is None or filt is None:
            # form 3: the list is the unfiltered result of one ansi_settings_at(..) call
            # the list handed to insert_settings(False, ..) in the block, wherever it was bound (also before the block, under the same flag)
            used = [x.args[1].id for x in ast.walk(blk) if isinstance(x, ast.Call) and call_name(x) == 'insert_settings' and len(x.args) >= 2 and
                    const_val(x.args[0], None) is False and isinstance(x.args[1], ast.Name)]
            cand = [s_ for s_ in f.walk() if isinstance(s_, ast.Assign) and isinstance(s_.targets[0], ast.Name) and s_.targets[0].id in used and
                    call_name(s_.value) == 'ansi_settings_at' and is_name(getattr(s_.value.func, 'value', None), f.self_name) and len(s_.value.args) == 1]
            if len(cand) == 1:
                nm = cand[0].targets[0].id
                others = [x for x in f.walk() if isinstance(x, (ast.Assign, ast.AugAssign)) and x is not cand[0] and
                          is_name(x.targets[0] if isinstance(x, ast.Assign) else x.target, nm) and
                          not (isinstance(x, ast.Assign) and isinstance(x.value, (ast.List, ast.Tuple)) and not x.value.elts)]
                mut = [x for x in f.walk() if isinstance(x, ast.Call) and isinstance(x.func, ast.Attribute) and is_name(x.func.value, nm) and
                       x.func.attr in ('remove', 'pop', 'clear', 'append', 'extend', 'insert')] + \
                    [x for x in f.walk() if isinstance(x, ast.Delete) and any(nm in names_in(t_) for t_ in x.targets)]
                restarted = any(isinstance(x, ast.Call) and call_name(x) == 'insert_settings' and len(x.args) >= 2 and is_name(x.args[1], nm) for x in ast.walk(blk))
                if not others and not mut and restarted:
                    direct = (cand[0], canon(cand[0].value.args[0], al))
        if direct is not None and direct[1] in ('start', 'start - 1'):
            if direct[1] == 'start':
                why = 'every setting active at start, including the ones that start at this very point: those are stopped and started a second time here'
            else:
                why = ('every setting active on the character before start, including the ones that stop at start: those are stopped a second time and started again, '
                       'so they stay active after their range (and the stop list holds an entry that cannot be removed: the self-check raises)')
            R.viol(f, direct[0], 'the settings restarted for topmost=False are %s, unfiltered -- %s' % (short(direct[0].value), why), construct=cons)
        elif acc is None or filt is None:
            R.undecided(f, blk, 'restart accumulation not recognised', construct=cons)
        else:
            if not src_ok:
                problems.append('continuing settings are not taken from ansi_settings_at(start)')
            t = canon(filt[0], al)
            want = '__class__.%s(%s, %s.%s[start].%s) < 0' % (ro.IDFIND1, filt[1], f.self_name, ro.TABLE, ro.START)
            if isinstance(filt[0], ast.BoolOp):
                problems.append('restart filter %s selects a subset of the continuing settings' % short(filt[0]))
            elif t != want and not (('.%s' % ro.START) in t and ' not in ' in t):
                t2 = re.sub(r'%s\._\w+\(start\)' % re.escape(f.self_name), '%s.%s[start]' % (f.self_name, ro.TABLE), t)
                if t2 != want:
                    problems.append('restart filter is %s, expected: not among the starters of this point (by identity)' % short(filt[0]))
            use = next((s_ for s_ in blk.body if isinstance(s_, ast.If) and norm(s_.test) == acc), None)
            stmts = use.body if use is not None else list(blk.body)
            stop_ok = False
            start_how = None
            new_list = next((norm(n.targets[0]) for n in f.walk() if isinstance(n, ast.Assign) and call_name(n.value) == ro.SCRUB), None)
            local_env = {}
            for s_ in stmts:
                if isinstance(s_, ast.Assign) and isinstance(s_.targets[0], ast.Name):
                    local_env[s_.targets[0].id] = s_.value
                if isinstance(s_, ast.Expr) and call_name(s_.value) == 'insert_settings':
                    a = [norm(x) for x in s_.value.args]
                    kw = {k.arg: norm(k.value) for k in s_.value.keywords}
                    if a[:2] == ['False', acc]:
                        stop_ok = True
                    elif a[:2] == ['True', acc]:
                        tm = a[2] if len(a) > 2 else kw.get('topmost', 'True')
                        start_how = 'append-on-top' if tm == 'True' else 'prepend-below-new'
                elif isinstance(s_, ast.Assign) and isinstance(s_.targets[0], ast.Subscript) and canon(s_.targets[0].value, al).endswith('.' + ro.START) and norm(s_.value) == acc:
                    sl = s_.targets[0].slice
                    if isinstance(sl, ast.Slice):
                        lo = canon(subst(sl.lower, local_env), al) if sl.lower is not None else None
                        hi = canon(subst(sl.upper, local_env), al) if sl.upper is not None else None
                        if lo == hi and lo == 'len(%s)' % new_list:
                            start_how = 'slice-insert-above-new'
                        else:
                            start_how = 'slice %s:%s' % (lo, hi)
                elif isinstance(s_, ast.Expr) and call_name(s_.value) == 'extend' and canon(s_.value.func.value, al).endswith('.' + ro.STOP) and norm(s_.value.args[0]) == acc:
                    stop_ok = True
            if not stop_ok:
                problems.append('the restarted settings are not stopped at this point first')
            if start_how == 'append-on-top':
                problems.append('the restarted settings are appended on top of this point\'s START list: they override settings that *start* here '
                                'although those had precedence before')
            elif start_how == 'prepend-below-new':
                problems.append('the restarted settings are inserted below the new settings, which then override them')
            elif start_how is None:
                problems.append('the continuing settings are stopped here but never restarted')
            elif start_how != 'slice-insert-above-new':
                if start_how.startswith('slice'):
                    problems.append('the restarted settings are inserted at %s, expected directly above the new settings (position len(new settings))' % start_how)
            R.check(not problems, f, blk, 'all continuing settings are stopped and re-inserted directly above the new ones, below this point\'s starters',
                    '; '.join(problems), construct=cons)
    # (b) remove_formatting at idx == end
    f = m.fn('AnsiString.remove_formatting')
    cons = 'remove_formatting restart'
    loop = next((n for n in f.walk() if isinstance(n, ast.For) and call_name(n.iter) == ro.ITERATOR), None)
    if loop is None:
        raise AnalysisError('anchor vanished: scan loop of remove_formatting')
    idx, point, active = [norm(x) for x in loop.target.elts]
    # the statements that run for idx == end and not for an interior point, whatever the if / elif shape
    Ltxt = 'len(%s.%s)' % (f.self_name, ro.TEXT)
    extra = {'end != %s' % Ltxt: True, 'end == %s' % Ltxt: False, 'end < %s' % Ltxt: True}
    for n_ in f.body:
        if isinstance(n_, ast.Assign) and isinstance(n_.value, ast.List) and not n_.value.elts and isinstance(n_.targets[0], ast.Name):
            extra[n_.targets[0].id] = True
            extra['not ' + n_.targets[0].id] = False
    ran = {}
    try:
        for region, rank in (('inside', 2), ('=end', 3)):
            got = []
            run_block(loop.body, merge_valuations(order_valuation({idx: rank, 'start': 1, 'end': 3}), flag_valuation({}, extra)), got.append)
            ran[region] = got
    except Undecided as ex:
        R.undecided(f, loop, 'scan not interpreted: %s' % ex, construct=cons)
        return
    end_stmts = [s_ for s_ in ran['=end'] if not any(s_ is t_ for t_ in ran['inside'])]
    if not end_stmts:
        R.viol(f, loop, 'nothing is restarted at the end of the range: the removed settings stay off beyond it', construct=cons)
        return
    endblk = end_stmts[0]
    problems = []
    start_writes = []
    stop_ext = []
    for n in ast.walk(ast.Module(body=end_stmts, type_ignores=[])):
        if isinstance(n, ast.AugAssign) and norm(n.target) == '%s.%s' % (point, ro.START):
            start_writes.append(('augment', norm(n.value), n))
        elif isinstance(n, ast.Assign) and norm(n.targets[0]) == '%s.%s' % (point, ro.START):
            start_writes.append(('rebind', norm(n.value), n))
        elif isinstance(n, ast.Call) and call_name(n) in ('extend', 'insert_settings') and ro.START in norm(n) and 'True' in norm(n):
            start_writes.append(('augment', norm(n), n))
        elif isinstance(n, ast.Call) and call_name(n) == 'extend' and norm(n.func.value) == '%s.%s' % (point, ro.START):
            start_writes.append(('augment', norm(n.args[0]), n))
        elif isinstance(n, ast.Call) and call_name(n) == 'extend' and norm(n.func.value) == '%s.%s' % (point, ro.STOP):
            stop_ext.append(n)
    if not start_writes:
        problems.append('nothing is restarted at the end of the range: the removed settings stay off beyond it')
    for kind, val, n in start_writes:
        if kind == 'augment':
            problems.append('the removed settings are appended to this point\'s START list (%s): they come back *above* every setting that continues '
                            'through or starts at the end of the range, so the characters after the range change their displayed style' % short(n))
        elif kind == 'rebind':
            if val not in ('list(%s)' % active, '%s.copy()' % active, '%s[:]' % active):
                problems.append('START is rebound to %s, expected a copy of the full active list (original order)' % val)
            if not stop_ext:
                problems.append('START is rebound to the full active list but the continuing settings are not stopped here first')
            else:
                c = stop_ext[0].args[0]
                ok = isinstance(c, ast.ListComp) and norm(c.generators[0].iter) == active and norm(c.elt) == norm(c.generators[0].target)
                if not ok:
                    problems.append('the stop list is extended with %s, expected every continuing setting of the active list' % short(c))
                else:
                    # continuing = active, minus what starts at this very point, minus what was removed (both by identity)
                    tv = norm(c.generators[0].target)
                    excl = []
                    for cond in c.generators[0].ifs:
                        for part in (cond.values if isinstance(cond, ast.BoolOp) and isinstance(cond.op, ast.And) else [cond]):
                            mm = re.match(r'^__class__\.%s\(%s, (.+)\) < 0$' % (re.escape(ro.IDFIND1), re.escape(tv)), norm(part))
                            excl.append(mm.group(1) if mm else '?' + norm(part))
                    acc_names = {norm(x.func.value) for x in ast.walk(f.node) if isinstance(x, ast.Call) and call_name(x) == 'append' and isinstance(x.func.value, ast.Name)}
                    want_first = '%s.%s' % (point, ro.START)
                    if want_first not in excl:
                        problems.append('settings that start at this very point are stopped here as well (exclusions: %s)' % excl)
                    rest = [e for e in excl if e != want_first]
                    if len(rest) != 1 or rest[0] not in acc_names:
                        problems.append('the stop list must leave out exactly the point\'s own starters and the removed settings (exclusions: %s)' % excl)
    R.check(not problems, f, endblk, 'at the end of the range every continuing setting is stopped and the full active list restarted in its original order',
            '; '.join(problems), construct=cons)


# ----------------------------------------------------------------------------------------------------------------------
def _while_progress(R, f, lp, cfg, cons, measure_var, measure_len, extra=None):
    """On every path head -> head the measure len(measure_len) - measure_var strictly decreases."""
    from ..shapes import local_aliases, canon
    al = local_aliases(f)
    head = cfg.loop_of[lp]
    first = [n for l, n in head.succ if l is True]

    def lin_of(e, env, c, sym):
        """the position e relative to the cursor at the loop head, in the (constant, symbolic terms) form of the measure: the cursor or a second
        cursor, plus / minus constants and canonical length terms; None when e is not of that form"""
        terms = []

        def walk(x, sg):
            if isinstance(x, ast.BinOp) and isinstance(x.op, (ast.Add, ast.Sub)):
                return walk(x.left, sg) and walk(x.right, sg if isinstance(x.op, ast.Add) else -sg)
            terms.append((sg, x))
            return True
        walk(e, 1)
        base = None
        nc, nsym = 0, ()
        for sg, x in terms:
            if isinstance(x, ast.Name) and (x.id == measure_var or x.id in env.get('#aux', {})) and sg == 1 and base is None:
                base = (c, sym) if x.id == measure_var else env['#aux'][x.id]
            elif isinstance(const_val(x, None), int) and not isinstance(const_val(x, None), bool):
                nc -= sg * const_val(x)
            elif isinstance(x, ast.Call) and call_name(x) == 'len':
                nsym += ((-sg, canon(x, al)),)
            else:
                return None
        if base is None:
            return None
        return base[0] + nc, base[1] + nsym

    def transfer(node, env):
        default_transfer(node, env)
        st = node.stmt
        if node.kind != 'stmt' or st is None:
            return
        d = env.get('#d', (0, ()))      # (constant delta, symbolic terms)
        c, sym = d
        if isinstance(st, ast.AugAssign) and norm(st.target) == measure_var and isinstance(st.op, (ast.Add, ast.Sub)):
            sign = -1 if isinstance(st.op, ast.Add) else 1
            k = const_val(st.value, None)
            if isinstance(k, int):
                c += sign * k
                if k > 1:
                    env['#skip'] = (k, st.lineno)
            else:
                sym += ((sign, canon(st.value, al)),)
        elif isinstance(st, ast.Assign) and len(st.targets) == 1 and isinstance(st.targets[0], ast.Name) and \
                lin_of(st.value, env, c, sym) is not None and (norm(st.targets[0]) == measure_var or measure_var in names_in(st.value) or
                                                               any(x_ in env.get('#aux', {}) for x_ in names_in(st.value))):
            # a position written as another position plus an offset: a second cursor (`end = i + k ... i = end + 1`)
            nc, nsym = lin_of(st.value, env, c, sym)
            if norm(st.targets[0]) == measure_var:
                c, sym = nc, nsym
            else:
                aux = dict(env.get('#aux', {}))
                aux[st.targets[0].id] = (nc, nsym)
                env['#aux'] = aux
        elif isinstance(st, ast.AugAssign) and isinstance(st.target, ast.Name) and st.target.id in env.get('#aux', {}) and isinstance(st.op, (ast.Add, ast.Sub)):
            aux = dict(env['#aux'])
            ac, asym = aux[st.target.id]
            sign = -1 if isinstance(st.op, ast.Add) else 1
            k = const_val(st.value, None)
            if isinstance(k, int):
                ac += sign * k
            else:
                asym += ((sign, canon(st.value, al)),)
            aux[st.target.id] = (ac, asym)
            env['#aux'] = aux
        elif isinstance(st, ast.Assign) and norm(st.targets[0]) == measure_var:
            sym += ((0, 'assigned ' + norm(st.value)),)
        elif isinstance(st, ast.Delete) and any(isinstance(t, ast.Subscript) and norm(t.value) == measure_len for t in st.targets):
            c -= 1
        elif isinstance(st, ast.Assign) and isinstance(st.targets[0], ast.Subscript) and norm(st.targets[0].value) == measure_len and \
                isinstance(st.targets[0].slice, ast.Slice) and norm(st.targets[0].slice.lower) == norm(st.targets[0].slice.upper):
            sym += ((1, 'len(%s)' % norm(st.value)),)
            env['#inserted'] = norm(st.value)
            env['#inserted_c'] = canon(ast.Call(func=ast.Name(id='len', ctx=ast.Load()), args=[st.value], keywords=[]), al)
        elif isinstance(st, ast.Assign) and isinstance(st.value, ast.List) and not st.value.elts and isinstance(st.targets[0], ast.Name):
            env['#reset'] = env.get('#reset', ()) + (st.targets[0].id,)
        elif isinstance(st, ast.Expr) and isinstance(st.value, ast.Call) and isinstance(st.value.func, ast.Attribute) and \
                norm(st.value.func.value) == measure_len and st.value.func.attr in ('append', 'insert', 'extend'):
            sym += ((1, 'grows by ' + st.value.func.attr),)
        env['#d'] = (c, sym)
    ps = paths(cfg, first[0], lambda nd: nd is head, transfer=transfer, max_visits=2, limit=300000)
    bad = []
    n = 0
    for p, env in ps:
        if p[-1] is not head:
            continue
        n += 1
        c, sym = env.get('#d', (0, ()))
        # symbolic terms must cancel pairwise or be non-positive
        bal = {}
        other = []
        for sg, t in sym:
            if sg == 0 or t.startswith('grows'):
                other.append(t)
            else:
                bal[t] = bal.get(t, 0) + sg
        resid = {t: v for t, v in bal.items() if v}
        # elements inserted from a consumed run (the run accumulator is emptied on the same path) are never runs again:
        # the number of pending run elements is the decreasing quantity there, the index still moves forward
        if env.get('#inserted') and env.get('#reset') and c < 0:
            resid = {t: v for t, v in resid.items() if t != 'len(%s)' % env['#inserted']}
        nonpos = all(v < 0 and (extra or {}).get(t, 'pos') in ('pos', 'nonneg') for t, v in resid.items())
        strictly = c < 0 or any(v < 0 and (extra or {}).get(t) == 'pos' for t, v in resid.items())
        if env.get('#skip'):
            other = other + ['steps over %d elements at once (L%d): elements are skipped unseen' % env['#skip']]
        if env.get('#inserted'):
            # after a run was put back at the cursor, the cursor moves past exactly what was inserted
            adv = [t for sg, t in sym if sg == -1 and t.startswith('len(')]
            want_ = [env.get('#inserted_c'), 'len(%s)' % env['#inserted']]
            if adv and not all(t in want_ for t in adv):
                other = other + ['after %s is inserted at the cursor the cursor advances by %s, not by the number of elements inserted: the elements that follow are '
                                 'skipped unseen (or seen twice)' % (env['#inserted'], ', '.join(adv))]
        if other or not nonpos or not strictly:
            bad.append((p, c, resid, other))
    return n, bad


@rule('P8', 'loop-variant: every while loop makes progress on every path; no container is changed while it is iterated; index deletions '
            'run in descending order; the recursive scrubber is guarded', floor=6)
def P8(m, R):
    ro = m.roles
    # (1) tokenizer loops
    f = m.fn('ParsedAnsiControlSequenceString.__init__')
    s = f.own_params()[0]
    cfg = CFG(f.node, f.body)
    for lp in [n for n in f.walk() if isinstance(n, ast.While)]:
        t = lp.test
        first = t.values[0] if isinstance(t, ast.BoolOp) else t
        cons = 'tokenizer while L-%s' % ('outer' if lp in f.body else 'inner')
        from ..shapes import local_aliases, canon
        if not (isinstance(first, ast.Compare) and canon(first.comparators[0], local_aliases(f)) == 'len(%s)' % s):
            R.undecided(f, lp, 'loop condition %s' % short(t), construct=cons)
            continue
        n, bad = _while_progress(R, f, lp, cfg, cons, norm(first.left), s,
                                 extra={'len(ansi_control_sequence_introducer)': 'pos'})
        R.check(not bad and n > 0, f, lp, 'the cursor strictly advances on all %d paths through the body' % n,
                'a path through the body does not advance the cursor (delta %s %s %s)' % ((bad[0][1], bad[0][2], bad[0][3]) if bad else ('', '', '')),
                construct=cons, witness=_path_text(bad[0][0], 12) if bad else None)
    # (2) scrubber integer-run loop (in the scrubber or in a private helper it calls)
    from ..shapes import with_helpers
    f0 = m.fn('%s.%s' % (ro.POINT, ro.SCRUB))
    hosts = [g_ for g_ in with_helpers(m, f0, 1) if any(isinstance(n, ast.While) for n in g_.walk())]
    f = hosts[0] if hosts else f0
    cfg = CFG(f.node, f.body)
    for lp in [n for n in f.walk() if isinstance(n, ast.While)]:
        t = lp.test
        cons = 'scrubber while'
        if not (isinstance(t, ast.Compare) and isinstance(t.ops[0], ast.Lt) and call_name(t.comparators[0]) == 'len'):
            R.undecided(f, lp, 'loop condition %s' % short(t), construct=cons)
            continue
        L = norm(t.comparators[0].args[0])
        n, bad = _while_progress(R, f, lp, cfg, cons, norm(t.left), L)
        R.check(not bad and n > 0, f, lp, 'len(%s) - %s strictly decreases on all %d paths' % (L, norm(t.left), n),
                'a path leaves len(%s) - %s unchanged or larger (delta %s %s %s)' % ((L, norm(t.left)) + ((bad[0][1], bad[0][2], bad[0][3]) if bad else ('', '', ''))),
                construct=cons, witness=_path_text(bad[0][0], 12) if bad else None)
    # (3) replace: the search restarts beyond the replacement and never at the same match
    f = m.fn('AnsiString.replace')
    old, new = f.own_params()[:2]
    lp = next((n for n in f.walk() if isinstance(n, ast.While)), None)
    cons = 'replace while'
    if lp is None:
        raise AnalysisError('anchor vanished: replace loop')
    nxt = [n for n in ast.walk(lp) if isinstance(n, ast.Assign) and isinstance(n.value, ast.Call) and call_name(n.value) == 'find']
    if len(nxt) != 1 or lp.body[-1] is not nxt[0]:
        R.viol(f, lp, 'the next search is not the last statement of every iteration', construct=cons)
    else:
        c = nxt[0].value
        idx = norm(nxt[0].targets[0])
        problems = []
        if [norm(a) for a in c.args[:1]] != [old] or len(c.args) != 2:
            problems.append('searches %s' % short(c))
        else:
            parts = flatten_add(c.args[1])
            texts = [norm(p) for p in parts]
            if idx not in texts or 'len(%s)' % new not in texts:
                problems.append('search restarts at %s, expected %s + len(%s) (+1 for an empty pattern)' % (norm(c.args[1]), idx, new))
            rest = [p for p in parts if norm(p) not in (idx, 'len(%s)' % new)]
            for region, truth in (('non-empty pattern', True), ('empty pattern', False)):
                delta = 0
                for p in rest:
                    v = p
                    while isinstance(v, ast.IfExp):
                        tv = eval_guard(v.test, flag_valuation({old: truth}, {'not ' + old: not truth, 'len(%s) == 0' % old: not truth, 'len(%s) > 0' % old: truth}))
                        if tv is None:
                            problems.append('extra advance %s not decided' % norm(p))
                            v = None
                            break
                        v = v.body if tv else v.orelse
                    if v is None:
                        continue
                    k = const_val(v, None)
                    if not isinstance(k, int):
                        problems.append('extra advance %s is not a constant' % norm(p))
                    else:
                        delta += k
                min_old = 1 if truth else 0
                if min_old + delta < 1:
                    problems.append('%s: the search restarts at %s + len(%s) + %d: the same empty match is found again at the same place forever' % (region, idx, new, delta))
                if truth and delta != 0:
                    problems.append('%s: %d characters after each replacement are skipped (str.replace does not skip any)' % (region, delta))
                if not truth and delta != 1:
                    problems.append('%s: advance %d; str.replace puts one replacement between every two characters (advance 1)' % (region, delta))
        R.check(not problems, f, nxt[0], 'next search starts at idx + len(new), one further when the pattern is empty', '; '.join(problems), construct=cons)
    # (4) containers are not changed while they are iterated
    n_loops = 0
    bad = []
    for g in m.funcs.values():
        for lp in [n for n in g.walk() if isinstance(n, ast.For)]:
            it = lp.iter
            base = None
            if isinstance(it, (ast.Name, ast.Attribute)):
                base = norm(it)
            elif isinstance(it, ast.Call) and call_name(it) in ('items', 'keys', 'values') and isinstance(it.func, ast.Attribute):
                base = norm(it.func.value)
            elif isinstance(it, ast.Call) and call_name(it) == 'enumerate' and it.args and isinstance(it.args[0], (ast.Name, ast.Attribute)):
                base = norm(it.args[0])
            if base is None:
                continue
            n_loops += 1
            for x in ast.walk(ast.Module(body=lp.body, type_ignores=[])):
                hit = None
                if isinstance(x, ast.Delete) and any(isinstance(t, ast.Subscript) and norm(t.value) == base for t in x.targets):
                    hit = x
                elif isinstance(x, ast.Call) and isinstance(x.func, ast.Attribute) and norm(x.func.value) == base and \
                        x.func.attr in ('append', 'extend', 'insert', 'pop', 'remove', 'clear', 'update', 'popitem'):
                    hit = x
                elif isinstance(x, ast.AugAssign) and norm(x.target) == base:
                    hit = x
                elif isinstance(x, ast.Assign) and isinstance(it, ast.Call) and call_name(it) in ('items', 'keys', 'values') and \
                        any(isinstance(t, ast.Subscript) and norm(t.value) == base and norm(t.slice) != norm(lp.target if not isinstance(lp.target, ast.Tuple) else lp.target.elts[0])
                            for t in x.targets):
                    hit = x
                if hit is not None:
                    # a loop that leaves right after the change is fine (break / return follows in the same block)
                    blk = hit
                    while not isinstance(blk, ast.stmt):
                        blk = blk._parent
                    par = blk._parent
                    follow = None
                    for fld in ('body', 'orelse'):
                        Ls = getattr(par, fld, None)
                        if isinstance(Ls, list) and blk in Ls:
                            follow = Ls[Ls.index(blk) + 1:]
                    if follow and isinstance(follow[-1], (ast.Break, ast.Return)):
                        continue
                    bad.append((g, lp, hit, base))
    for g, lp, hit, base in bad:
        R.viol(g, hit, '%s is changed (%s) while `for %s in %s` iterates it: elements are skipped / RuntimeError' % (base, short(hit), norm(lp.target), norm(lp.iter)),
               construct='mutation during iteration: %s' % g.qual)
    if not bad:
        f = m.fn('AnsiString.remove_formatting')
        R.ok(f, f.node, 'none of the %d for-loops over a live list / dict changes that container in its body' % n_loops, construct='mutation during iteration')
    # (5) deletions by index run in descending index order
    n_del = 0
    for g in m.funcs.values():
        for lp in [n for n in g.walk() if isinstance(n, ast.For)]:
            tg = [norm(x) for x in (lp.target.elts if isinstance(lp.target, ast.Tuple) else [lp.target])]
            dels = [x for x in ast.walk(ast.Module(body=lp.body, type_ignores=[])) if isinstance(x, ast.Delete) and
                    any(isinstance(t, ast.Subscript) and norm(t.slice) in tg and not norm(t.value).endswith('.' + ro.TABLE) for t in x.targets)]
            if not dels:
                continue
            # positions, not dictionary keys: the loop walks range(len(L)) / search results (index pairs)
            inner = lp.iter.args[0] if (call_name(lp.iter) == 'reversed' and lp.iter.args) else lp.iter
            if not (call_name(inner) == 'range' or isinstance(inner, ast.Name)):
                continue
            n_del += 1
            it = norm(lp.iter)
            cons = 'index deletion order: %s %s' % (g.qual, re.sub(r'\s+', ' ', norm(dels[0]))[:50])
            ok = it.startswith('reversed(') or 'reverse=True' in it
            # leaving the loop right after the deletion is fine as well
            blk = dels[0]._parent
            follow = None
            for fld in ('body', 'orelse'):
                Ls = getattr(blk, fld, None)
                if isinstance(Ls, list) and dels[0] in Ls:
                    follow = Ls[Ls.index(dels[0]) + 1:]
            if follow and isinstance(follow[-1], (ast.Break, ast.Return)):
                ok = True
            R.check(ok, g, dels[0], 'indices are deleted in descending order (%s)' % it,
                    'elements are deleted by index while walking %s in ascending order: every deletion shifts the indices still to come' % it, construct=cons)
            # walking search results in reverse deletes in descending order only if the search lists them in ascending order of that index
            if call_name(lp.iter) == 'reversed' and isinstance(inner, ast.Name) and isinstance(lp.target, ast.Tuple):
                src = [x for x in g.walk() if isinstance(x, ast.Assign) and is_name(x.targets[0], inner.id)]
                if len(src) == 1 and call_name(src[0].value) == ro.IDFINDN:
                    pos = next((i_ for i_, t_ in enumerate(tg) if any(isinstance(t, ast.Subscript) and norm(t.slice) == t_ for d_ in dels for t in d_.targets)), None)
                    h = m.fn('AnsiString.' + ro.IDFINDN)
                    cons2 = 'search result order: %s' % ro.IDFINDN
                    outer_idx, elt = None, None
                    rets = [x for x in h.walk() if isinstance(x, ast.Return) and x.value is not None]
                    comp = rets[0].value if len(rets) == 1 and isinstance(rets[0].value, ast.ListComp) else None
                    if comp is None and len(rets) == 1 and isinstance(rets[0].value, ast.Name):
                        # result = [] ... nested loops ... result.append((i, j))
                        acc_ = rets[0].value.id
                        loops_ = [x for x in h.body if isinstance(x, ast.For)]
                        apps = [x for x in h.walk() if isinstance(x, ast.Call) and call_name(x) == 'append' and is_name(x.func.value, acc_) and x.args]
                        if len(loops_) == 1 and len(apps) == 1 and isinstance(apps[0].args[0], ast.Tuple):
                            o_ = loops_[0]
                            if call_name(o_.iter) == 'enumerate' and isinstance(o_.target, ast.Tuple) and isinstance(o_.target.elts[0], ast.Name):
                                outer_idx = o_.target.elts[0].id
                            elt = apps[0].args[0]
                    elif comp is not None and isinstance(comp.elt, ast.Tuple):
                        g0 = comp.generators[0]
                        if call_name(g0.iter) == 'enumerate' and isinstance(g0.target, ast.Tuple) and isinstance(g0.target.elts[0], ast.Name):
                            outer_idx = g0.target.elts[0].id
                        elt = comp.elt
                    sorted_ = len(rets) == 1 and call_name(rets[0].value) == 'sorted' and not rets[0].value.keywords
                    if sorted_ and pos == 0:
                        R.ok(h, rets[0], 'the pairs are returned sorted (by their first component)', construct=cons2)
                    elif pos is None or elt is None or outer_idx is None or pos >= len(elt.elts):
                        R.undecided(h, h.node, 'order of the pairs returned by %s not recognised' % ro.IDFINDN, construct=cons2)
                    else:
                        R.check(is_name(elt.elts[pos], outer_idx), h, elt,
                                'the pairs come out in ascending order of component %d, the index %s deletes by while walking them in reverse' % (pos, g.qual),
                                'the pairs come out ordered by %s, not by component %d (%s): %s walks them in reverse and deletes by that component, which needs it '
                                'ascending -- a deletion shifts the entries still to be deleted (wrong setting re-targeted, or IndexError)' % (
                                    outer_idx, pos, norm(elt.elts[pos]), g.qual), construct=cons2)
    # (6) recursion guard of the scrubber
    f = m.fn('%s.%s' % (ro.POINT, ro.SCRUB))
    rec = [n for n in f.walk() if isinstance(n, ast.Call) and call_name(n) == ro.SCRUB]
    cons = 'scrubber recursion guard'
    if not rec:
        R.ok(f, f.node, 'the scrubber does not recurse', construct=cons)
    else:
        cfg = CFG(f.node, f.body)
        stn = rec[0]
        while not isinstance(stn, ast.stmt):
            stn = stn._parent
        node = cfg.node_of(stn)
        guards = [n for n in f.walk() if isinstance(n, ast.If) and 'id(' in norm(n.test) and ' in ' in norm(n.test) and any(isinstance(x, ast.Raise) for x in n.body)]
        ok = False
        if guards and node is not None:
            gnode = next((nd for nd in cfg.nodes if nd.kind == 'test' and nd.stmt is guards[0]), None)
            ok = gnode is not None and cfg.dominates(gnode, node)
            # the id recorded is the id of the list being unpacked, and the recursive call passes the id list on
            passed = rec[0].args[2] if len(rec[0].args) >= 3 else next((k.value for k in rec[0].keywords if k.arg == (f.params[2] if len(f.params) > 2 else 'parsed_ids')), None)
            passes = isinstance(passed, ast.Name)
            pv = passed.id if passes else None
            # the id of the list being unpacked goes into that variable: V.append(id(..)), V = <expr with id(..)>, V += [id(..)]
            records = any((isinstance(x, ast.Call) and call_name(x) in ('append', 'add') and isinstance(x.func, ast.Attribute) and is_name(x.func.value, pv) and 'id(' in norm(x)) or
                          (isinstance(x, ast.Assign) and is_name(x.targets[0], pv) and 'id(' in norm(x.value)) or
                          (isinstance(x, ast.AugAssign) and is_name(x.target, pv) and 'id(' in norm(x.value)) for x in f.walk())
            tested = pv is not None and pv in names_in(guards[0].test)
            ok = ok and passes and records and tested
        R.check(ok, f, rec[0], 'the recursive call is dominated by the "list contains itself" test; ids are recorded and passed down',
                'the recursion on nested lists is not protected against a list that contains itself (unbounded recursion)', construct=cons)


# ----------------------------------------------------------------------------------------------------------------------
MUTATORS = ['apply_formatting', 'remove_formatting', 'ljust', 'rjust', 'center', '__iadd__', 'assign_str', 'clip', 'replace']


@rule('E8', 'validate-before-mutate: every operation that can raise on a documented-type argument happens before the first write to the receiver', floor=9)
def E8(m, R):
    H = get_heap(m)
    ro = m.roles
    for name in MUTATORS:
        f = m.fn('AnsiString.' + name)
        flags = {'inplace': True} if 'inplace' in f.params else None
        a = H.analyse(f.qual, flags)
        cfg = CFG(f.node, f.body)
        cons = name + ' validates first'
        obj_names = {f.self_name}
        # write nodes: statements that contain a write rooted at Self
        wnodes = {}
        for r, node, desc in a.writes:
            if r[0] != 'Self':
                continue
            st = node
            while not isinstance(st, ast.stmt):
                st = getattr(st, '_parent', None)
                if st is None:
                    break
            if st is None:
                continue
            nd = cfg.node_of(st)
            if nd is None:
                # statement inside a compound kept whole? find enclosing stmt with a node
                p = st
                while p is not None and cfg.node_of(p) is None:
                    p = getattr(p, '_parent', None)
                nd = cfg.node_of(p) if p is not None else None
            if nd is not None:
                wnodes[nd.id] = (nd, desc)
        # raise-capable nodes
        rnodes = []
        for nd in cfg.nodes:
            st = nd.stmt if nd.kind in ('stmt', 'return') else (nd.test if nd.kind in ('test', 'loop') else None)
            if nd.kind == 'raise':
                rnodes.append((nd, 'raise %s' % (call_name(nd.stmt.exc) or '')))
                continue
            if st is None:
                continue
            scan = st if nd.kind in ('stmt', 'return') else st
            for x in ast.walk(scan):
                if not isinstance(x, ast.Call):
                    continue
                cn = call_name(x)
                if cn == ro.SCRUB:
                    rnodes.append((nd, 'the settings scrubber (ValueError / TypeError on a bad setting)'))
                elif cn == 'int' and isinstance(x.func, ast.Name):
                    rnodes.append((nd, 'int() (ValueError)'))
                elif False:
                    pass
                elif cn == '_shift_settings_idx':
                    # named exception (DESIGN 2.4): raises only for a negative count; here the count is num or floor(num/2) under `num > 0`
                    arg = norm(x.args[0]) if x.args else ''
                    guarded = False
                    from ..finite import int_eval
                    for p in _parents(x):
                        if isinstance(p, ast.If) and isinstance(p.test, ast.Compare) and isinstance(p.test.left, ast.Name):
                            nm = p.test.left.id
                            try:
                                # the guard holds for no negative value of the count it tests
                                guarded = guarded or not any(int_eval(p.test, {nm: v}) for v in (-3, -2, -1))
                            except Undecided:
                                pass
                    if not guarded:
                        rnodes.append((nd, '_shift_settings_idx (ValueError for a negative count) outside a `num > 0` guard'))
        # building the fill text (str * int) raises OverflowError / MemoryError for a huge width -- the same error str raises
        fillp = f.own_params()[1] if name in ('ljust', 'rjust', 'center') else None
        if fillp:
            for nd in cfg.nodes:
                if nd.kind != 'stmt' or nd.stmt is None:
                    continue
                if any(isinstance(x, ast.BinOp) and isinstance(x.op, ast.Mult) and (norm(x.left) == fillp or norm(x.right) == fillp) for x in ast.walk(nd.stmt)):
                    rnodes.append((nd, 'building the fill text (OverflowError / MemoryError for a huge width)'))
        bad = []
        for wid, (wn, desc) in wnodes.items():
            reach = cfg.reachable_from(wn)
            for rn, what in rnodes:
                if rn.id in reach and rn.id != wn.id:
                    bad.append((wn, rn, what, desc))
                elif rn.id == wn.id and rn.kind == 'loop':
                    pass
        if bad:
            wn, rn, what, desc = sorted(bad, key=lambda b: (b[0].line, b[1].line))[0]
            R.viol(f, rn.stmt if rn.stmt is not None else f.node,
                   'L%d may raise through %s after the receiver was already changed at L%d (%s): a failing call leaves the string modified'
                   % (rn.line, what, wn.line, wn.text()), construct=cons, witness=['L%d %s' % (wn.line, wn.text()), 'L%d %s' % (rn.line, rn.text())])
        else:
            R.ok(f, f.node, '%d raise-capable operations, none reachable from any of the %d writes to the receiver' % (len(rnodes), len(wnodes)), construct=cons)


# ----------------------------------------------------------------------------------------------------------------------
@rule('E9', 'ctor-settings-used: on every path of AnsiStr.__new__ on which settings may be given they reach the wrapped object', floor=2)
def E9(m, R):
    ro = m.roles
    f = m.fn('AnsiStr.__new__')
    settings = f.vararg
    if settings is None:
        raise AnalysisError('anchor vanished: *settings of AnsiStr.__new__')
    cfg = CFG(f.node, f.body)

    def transfer(node, env):
        default_transfer(node, env)
        st = node.stmt
        if node.kind == 'stmt' and isinstance(st, ast.Assign) and isinstance(st.targets[0], ast.Name):
            d = dict(env.get('#def', ()))
            uses = settings in names_in(st.value)
            v0 = st.value
            if uses and isinstance(v0, ast.Call) and call_name(v0) == 'AnsiString':
                # AnsiString(<source>, *settings): the source first, the settings starred after it
                shape_ok = len(v0.args) == 2 and isinstance(v0.args[1], ast.Starred) and norm(v0.args[1].value) == settings and not isinstance(v0.args[0], ast.Starred)
                if not shape_ok:
                    env['#badshape'] = norm(v0)
            # x = y : inherits
            if isinstance(st.value, ast.Name) and st.value.id in d:
                uses = d[st.value.id]
            d[st.targets[0].id] = uses
            env['#def'] = tuple(sorted(d.items()))
        elif node.kind == 'stmt' and isinstance(st, ast.Expr) and isinstance(st.value, ast.Call) and isinstance(st.value.func, ast.Attribute) \
                and isinstance(st.value.func.value, ast.Name) and settings in names_in(st.value) and st.value.func.attr == 'apply_formatting':
            d = dict(env.get('#def', ()))
            d[st.value.func.value.id] = True
            env['#def'] = tuple(sorted(d.items()))
        elif node.kind == 'stmt' and isinstance(st, ast.Assign) and isinstance(st.targets[0], ast.Attribute) and st.targets[0].attr == ro.WRAPPED:
            d = dict(env.get('#def', ()))
            v = st.value
            ok = settings in names_in(v) or (isinstance(v, ast.Name) and d.get(v.id, False))
            env['#wrapped'] = (ok, norm(v), st.lineno)
    ps = paths(cfg, cfg.entry, lambda nd: nd.kind == 'return', transfer=transfer, max_visits=1)
    by_branch = {}
    for p, env in ps:
        if p[-1].kind != 'return':
            continue
        # `A and settings` decided false on a path on which A is (later) decided true: the settings are empty on that path (the parameters
        # are never rebound)
        if env.get(settings) is None and not any(isinstance(x, ast.Name) and isinstance(x.ctx, ast.Store) and x.id in (settings, f.params[1] if len(f.params) > 1 else '')
                                                 for x in f.walk()):
            for nd in p:
                if nd.kind == 'test' and isinstance(nd.test, ast.BoolOp) and isinstance(nd.test.op, ast.And) and env.get(norm(nd.test)) is False:
                    unknown = [c_ for c_ in nd.test.values if env.get(norm(c_)) is not True]
                    if len(unknown) == 1 and norm(unknown[0]) == settings:
                        env = dict(env)
                        env[settings] = False
        may_have = env.get(settings) is not False
        w = env.get('#wrapped')
        kinds = [norm(nd.test.args[1]) for nd in p if nd.kind == 'test' and call_name(nd.test) == 'isinstance' and env.get(norm(nd.test)) is True]
        key = (kinds[-1] if kinds else '?', 'settings given' if env.get(settings) is True else 'settings unknown' if may_have else 'no settings')
        by_branch.setdefault(key, []).append((p, may_have, w))
    for key, items in sorted(by_branch.items()):
        cons = 'AnsiStr(%s source, %s)' % key
        bad = [(p, w) for p, may, w in items if may and (w is None or not w[0])]
        shape = [e for p, e in ps if p[-1].kind == 'return' and e.get('#badshape')]
        if shape and not bad:
            R.viol(f, f.node, 'the wrapped object is built by %s: source and settings are not passed as (source, *settings)' % shape[0]['#badshape'], construct=cons)
            continue
        if bad:
            p, w = bad[0]
            R.viol(f, p[-1].stmt, 'with a %s source and settings given, the wrapped object is %s: the settings never reach it and are silently dropped'
                   % (key[0], w[1] if w else 'never set'), construct=cons, witness=_path_text(p, 10))
        else:
            R.ok(f, f.node, 'the settings flow into the wrapped object (or none were given)', construct=cons)

"""P rules: path, ordering and typestate rules (part 1)."""
import ast
import re

from ..model import AnalysisError, norm, short, call_name, const_val, flatten_add, is_attr, is_name, names_in
from ..report import rule
from ..consteval import get_folder, Unfoldable, EnumRef
from ..cfg import CFG, paths, PathExplosion
from ..finite import eval_guard, flag_valuation, order_valuation, run_block, Undecided, cmp_regions


def _parents(n):
    while getattr(n, '_parent', None) is not None:
        n = n._parent
        yield n


def _path_text(path, limit=14):
    out = []
    for n in path:
        if n.kind in ('stmt', 'test', 'loop', 'return', 'raise', 'break', 'continue'):
            out.append('L%d %s' % (n.line, n.text()))
    if len(out) > limit:
        out = ['...'] + out[-limit:]
    return out


# ----------------------------------------------------------------------------------------------------------------------
@rule('P22', 'property-call: no call expression whose callee resolves to a @property', floor=10)
def P22(m, R):
    props = {}
    methods = set()
    for c in m.classes.values():
        for n, f in c.methods.items():
            if f.is_property:
                props.setdefault(n, []).append(c.name)
            else:
                methods.add((c.name, n))
    method_names = {n for _, n in methods}
    sites = {}
    for f in m.funcs.values():
        for n in f.walk():
            if isinstance(n, ast.Call) and isinstance(n.func, ast.Attribute) and n.func.attr in props:
                sites.setdefault(n.func.attr, []).append((f, n))
    for pname, owners in sorted(props.items()):
        bad = []
        for f, call in sites.get(pname, []):
            recv = call.func.value
            if is_name(recv, f.self_name) and f.cls is not None:
                # resolve through the receiver's own class
                if f.cls in owners:
                    bad.append((f, call, 'self.%s is a property of %s' % (pname, f.cls)))
                continue
            if pname not in method_names:
                bad.append((f, call, '.%s is a property of %s and no class has a method of that name' % (pname, '/'.join(owners))))
        for f, call, why in bad:
            R.viol(f, call, 'calls a property: %s (the property value is not callable: TypeError)' % why, construct='call of property %s' % pname)
        if not bad:
            anchor = m.classes[owners[0]].methods[pname]
            R.ok(anchor, anchor.node, 'property %s is never called (%d attribute-call sites of that name inspected)' % (pname, len(sites.get(pname, []))),
                 construct='call of property %s' % pname)


# ----------------------------------------------------------------------------------------------------------------------
def _seq_attrs(m):
    """(attribute holding the parameter bytes, attribute holding the final byte) of the recorded control sequence class."""
    c = m.cls('AnsiControlSequence')
    init = c.methods.get('__init__')
    if init is None:
        raise AnalysisError('anchor vanished: AnsiControlSequence.__init__')
    ps = init.own_params()
    got = {}
    for n in init.walk():
        if isinstance(n, ast.Assign) and isinstance(n.targets[0], ast.Attribute) and isinstance(n.value, ast.Name) and n.value.id in ps:
            got[n.value.id] = n.targets[0].attr
    if len(ps) < 2:
        raise AnalysisError('AnsiControlSequence constructor lost a parameter')
    return got.get(ps[0]), got.get(ps[1])


@rule('P1', 'emit-order: formatted_str emits CSI, parameters, terminator of each recorded sequence contiguously and in order', floor=2)
def P1(m, R):
    F = get_folder(m)
    f = m.fn('ParsedAnsiControlSequenceString.formatted_str')
    seq_attr, term_attr = _seq_attrs(m)
    ctor = m.fn('AnsiControlSequence.__init__')
    R.check(seq_attr is not None and term_attr is not None, ctor, ctor.node, 'a recorded sequence keeps its parameter bytes and its final byte',
            'the recorded sequence does not keep %s: it cannot be re-inserted' % ('its final byte' if term_attr is None else 'its parameter bytes'),
            construct='recorded sequence components')
    if seq_attr is None or term_attr is None:
        return
    text_attr = None
    uf = m.fn('ParsedAnsiControlSequenceString.unformatted_str')
    for n in uf.walk():
        if isinstance(n, ast.Return) and isinstance(n.value, ast.Attribute):
            text_attr = n.value.attr
    text_attr = text_attr or '_s'
    inner = None
    for n in f.walk():
        if isinstance(n, ast.For) and any(isinstance(p, ast.For) for p in _parents(n)):
            inner = n
    if inner is None:
        loops = [n for n in f.walk() if isinstance(n, ast.For)]
        if not loops:
            raise AnalysisError('formatted_str has no loop over the recorded sequences')
        inner = loops[-1]
    v = norm(inner.target)
    out_var = None
    rets = [n for n in f.walk() if isinstance(n, ast.Return)]
    if rets and isinstance(rets[-1].value, ast.Name):
        out_var = rets[-1].value.id
    if out_var is None:
        R.undecided(f, f.node, 'output accumulator not found', construct='emit order')
        return

    def classify(p, local):
        t = norm(p)
        if isinstance(p, ast.Subscript) and norm(p.value) == 'self.' + text_attr and isinstance(p.slice, ast.Slice):
            return 'TEXT'
        if t == '%s.%s' % (v, seq_attr):
            return 'SEQ'
        if t == '%s.%s' % (v, term_attr):
            return 'TERM'
        if isinstance(p, ast.Name) and p.id in local:
            return local[p.id]
        try:
            val = F.fold(p)
            if val == '\x1b[':
                return 'CSI'
            if val == '':
                return 'EMPTY'
        except Unfoldable:
            pass
        return 'OTHER:' + t

    # carried locals: a local assigned from v.terminator holds the *previous* iteration's terminator at the next one
    carried = {}
    for n in ast.walk(inner):
        if isinstance(n, ast.Assign) and isinstance(n.targets[0], ast.Name):
            tv = norm(n.value)
            if tv == '%s.%s' % (v, term_attr):
                carried[n.targets[0].id] = 'PREV-TERM'
            elif tv == '%s.%s' % (v, seq_attr):
                carried[n.targets[0].id] = 'PREV-SEQ'
    atoms = []
    for st in inner.body:
        if isinstance(st, ast.AugAssign) and is_name(st.target, out_var) and isinstance(st.op, ast.Add):
            for p in flatten_add(st.value):
                atoms.append((classify(p, carried), st))
        elif isinstance(st, (ast.If, ast.For, ast.While, ast.Try)):
            if any(isinstance(x, ast.AugAssign) and is_name(x.target, out_var) for x in ast.walk(st)):
                R.undecided(f, st, 'emission under control flow inside the per-sequence loop', construct='emit order')
                return
    kinds = [a for a, _ in atoms if a != 'EMPTY']
    core = [k for k in kinds if k in ('CSI', 'SEQ', 'TERM')]
    problems = []
    if 'SEQ' not in kinds:
        problems.append('the parameter bytes of a recorded sequence are never emitted')
    if 'TERM' not in kinds:
        if any(k == 'PREV-TERM' for k in kinds):
            problems.append('the final byte is saved and emitted in the *next* iteration, after that iteration\'s text chunk: '
                            'the sequence stays open across a text slice')
        else:
            problems.append('the final byte of a recorded sequence is never emitted inside its iteration')
    if core != ['CSI', 'SEQ', 'TERM'] and not problems:
        problems.append('emission order is %s, expected CSI, parameters, final byte' % core)
    if not problems:
        i, j = kinds.index('CSI'), kinds.index('TERM')
        if j - i != 2:
            problems.append('%s emitted between CSI and the final byte' % kinds[i + 1:j])
        if 'TEXT' in kinds[i:]:
            problems.append('a text slice is emitted after the sequence inside the same iteration')
    R.check(not problems, f, inner, 'per recorded sequence: [text up to its position] CSI params final', '; '.join(problems),
            construct='emit order', witness=['emitted per iteration: %s' % kinds])
    # after the loops: nothing but the remaining text
    tail = []
    outer = next((p for p in _parents(inner) if isinstance(p, ast.For)), inner)
    body = f.body
    after = body[body.index(outer) + 1:] if outer in body else []
    for st in after:
        if isinstance(st, ast.AugAssign) and is_name(st.target, out_var):
            for p in flatten_add(st.value):
                tail.append(classify(p, carried))
    tail = [t for t in tail if t != 'EMPTY']
    R.check(tail == ['TEXT'], f, after[0] if after else f.node, 'after the last sequence only the remaining text is appended',
            'after the loop %s is appended (a final byte here belongs to a sequence emitted before the last text chunk)' % tail, construct='emit tail')


# ----------------------------------------------------------------------------------------------------------------------
@rule('P10', 'lookahead-cursor: the prefix matcher inside the scan of parse_graphic_sequence looks at the items from the cursor on', floor=1)
def P10(m, R):
    f = m.fn('parse_graphic_sequence')
    found = False
    for lp in [n for n in f.walk() if isinstance(n, ast.For)]:
        if call_name(lp.iter) != 'enumerate' or not isinstance(lp.target, ast.Tuple):
            continue
        idx = norm(lp.target.elts[0])
        items = norm(lp.iter.args[0])
        for n in ast.walk(lp):
            if isinstance(n, ast.Call) and call_name(n) == 'seq_starts_with_fn' and n.args:
                found = True
                a = n.args[0]
                t = norm(a)
                if idx not in names_in(a):
                    R.viol(f, n, 'the matcher is given %s: it always looks at the head of the whole list, not at the items from the cursor '
                                 '%s on -- a colour group after another code is not recognised' % (t, idx), construct='lookahead argument')
                elif isinstance(a, ast.Subscript) and norm(a.value) == items and isinstance(a.slice, ast.Slice) and norm(a.slice.lower) == idx \
                        and a.slice.step is None:
                    R.ok(f, n, 'matcher looks at %s' % t, construct='lookahead argument')
                else:
                    R.viol(f, n, 'the matcher is given %s, not the suffix %s[%s:]' % (t, items, idx), construct='lookahead argument')
    if not found:
        raise AnalysisError('anchor vanished: prefix-matcher call inside the scan of parse_graphic_sequence')


# ----------------------------------------------------------------------------------------------------------------------
@rule('P15', 'neg-zero-bound: a negated length used as a slice / clip bound is guarded by non-emptiness', floor=1)
def P15(m, R):
    n_sites = 0
    for f in m.funcs.values():
        sites = []
        for n in f.walk():
            if isinstance(n, ast.UnaryOp) and isinstance(n.op, ast.USub) and call_name(n.operand) == 'len' and n.operand.args \
                    and isinstance(n.operand.args[0], ast.Name):
                par = n._parent
                is_bound = isinstance(par, ast.Slice) or (isinstance(par, ast.keyword) and par.arg in ('end', 'start', 'stop')) or \
                    (isinstance(par, ast.Call) and call_name(par) == 'clip')
                if is_bound:
                    sites.append(n)
        if not sites:
            continue
        cfg = CFG(f.node, f.body)
        for s in sites:
            n_sites += 1
            x = s.operand.args[0].id
            stn = s
            while not isinstance(stn, ast.stmt):
                stn = stn._parent
            node = cfg.node_of(stn)
            if node is None:
                R.undecided(f, s, 'statement not in CFG', construct='-len(%s) bound' % x)
                continue
            try:
                ps = paths(cfg, cfg.entry, lambda nd: nd is node, max_visits=1)
            except PathExplosion as e:
                R.undecided(f, s, str(e), construct='-len(%s) bound' % x)
                continue
            bad = [(p, e) for p, e in ps if p[-1] is node and e.get(x) is not True]
            if bad:
                R.viol(f, s, '-len(%s) is 0 for an empty %s, which as a bound means "from/to the start", not "nothing to cut"; '
                             'no guard on this path establishes that %s is non-empty' % (x, x, x), construct='-len(%s) bound' % x,
                       witness=_path_text(bad[0][0]))
            else:
                R.ok(f, s, '-len(%s) is reached only with %s non-empty (%d paths)' % (x, x, len(ps)), construct='-len(%s) bound' % x)
    if n_sites == 0:
        # the idiom disappeared: nothing to guard; keep one discharged obligation naming what was looked for
        f = m.fn('AnsiString.removesuffix')
        R.ok(f, f.node, 'no negated length is used as a bound anywhere in the package', construct='-len bound')


# ----------------------------------------------------------------------------------------------------------------------
@rule('P14', 'piece-offsets: symbolic interpretation of the offset loops of _split / splitlines -- piece k is the slice [c_k, c_k + len(piece_k)) with '
             'c_(k+1) = c_k + len(piece_k) + len(sep); with a separator given no offset is re-derived by find()', floor=3)
def P14(m, R):
    from .pieces import interpret
    from .P_more import Sym
    from ..finite import Undecided
    for name, scenarios in (('_split', (('sep given', True, None), ('sep None', False, None))),
                            ('splitlines', (('keepends=False', False, False), ('keepends=True', False, True)))):
        f = m.fn('AnsiString.' + name)
        for label, sep_given, keep in scenarios:
            cons = '%s offsets [%s]' % (name, label)
            try:
                res = interpret(m, f, sep_given, {f.own_params()[0]: keep} if keep is not None else None)
            except Undecided as e:
                R.undecided(f, f.node, 'offset loop not interpreted: %s' % e, construct=cons)
                continue
            if res.get('table_scans') and not sep_given:
                st_, tab, _k = res['table_scans'][0]
                # skipping blanks finds the piece only if no piece begins with a blank; rsplit's first piece does when maxsplit runs out
                rflag = f.own_params()[2] if name == '_split' and len(f.own_params()) > 2 else None
                if rflag is not None:
                    guards_, ch_, par_ = [], st_, getattr(st_, '_parent', None)
                    while par_ is not None and par_ is not f.node:
                        if isinstance(par_, ast.If):
                            guards_.append(par_.test)
                        ch_, par_ = par_, getattr(par_, '_parent', None)
                    if not any(rflag in names_in(g_) for g_ in guards_):
                        R.viol(f, st_, 'the start of a piece is found by skipping blanks (%s), for rsplit too (%s is not consulted): when maxsplit runs out, the first piece of '
                                       'str.rsplit keeps its leading blanks -- "  a b c".rsplit(None, 0) is ["  a b c"] -- and is then cut from the wrong offset'
                               % (short(st_), rflag), construct=cons)
                        continue
                    R.undecided(f, st_, 'blank-skipping gap scan under a condition on %s: not decided' % rflag, construct=cons)
                    continue
                if tab != 'isspace':
                    try:
                        from ..consteval import get_folder, Unfoldable
                        tv_ = get_folder(m).fold(tab)
                    except Exception:
                        tv_ = None
                    if isinstance(tv_, str):
                        pyws = [chr(c_) for c_ in range(0x3001) if chr(c_).isspace()]       # what str.split() / str.strip() treat as whitespace
                        missing = [c_ for c_ in pyws if c_ not in tv_]
                        if missing:
                            R.viol(f, st_, 'the gap before a piece is skipped by scanning for the %d characters of %s; str.%s() also separates on %d other characters '
                                           '(%s ...): after such a character every piece is cut from the wrong offset' % (
                                               len(tv_), short(tab), 'split' if name == '_split' else 'splitlines', len(missing),
                                               ', '.join(repr(x) for x in missing[:4])), construct=cons)
                            continue
                    else:
                        R.undecided(f, st_, 'table %s of the gap scan not folded' % short(tab), construct=cons)
                        continue
            (a1, b1), (a2, b2) = res['slices']
            L1, L2, SEP = Sym({'L1': 1}), Sym({'L2': 1}), Sym({'SEP': 1})
            G1, G2 = Sym({'G1': 1}), Sym({'G2': 1})
            problems = []
            if name == '_split' and sep_given:
                if res['used_find']:
                    call = res['used_find'][0][0]
                    R.viol(f, call, 'with a separator given the piece offset is taken from %s: a piece whose text also occurs earlier (inside a separator occurrence, '
                                    'or as an empty piece) is located at the wrong offset and gets the wrong characters\' style' % short(call), construct=cons)
                    continue
                want = [(Sym(c=0), L1), (L1 + SEP, L1 + SEP + L2)]
            else:
                want = [(G1, G1 + L1), (G1 + L1 + G2, G1 + L1 + G2 + L2)]
            got = [(a1, b1), (a2, b2)]
            if keep is True and got == [(Sym(c=0), L1), (L1, L1 + L2)]:
                got = want      # with the line breaks kept the pieces are contiguous: no gap to look for
            if got != want and name == 'splitlines' and keep is False and not res['used_find'] and not (a1.t.get('G1') or a2.t.get('G2')):
                gap = (a2 - b1)
                problems.append('the dropped line break between two pieces is taken to be %r character(s) long: "\\r\\n" is two, so every piece after one is cut from the wrong offset' % gap)
            elif got != want:
                problems.append('pieces 1, 2 are sliced at [%r:%r], [%r:%r]; expected [%r:%r], [%r:%r] (L = piece length, SEP = separator length, G = gap found by find())'
                                % (a1, b1, a2, b2, want[0][0], want[0][1], want[1][0], want[1][1]))
            R.check(not problems, f, res['loop'], 'piece k is self[c_k : c_k + len(piece_k)], c_(k+1) = c_k + len(piece_k)%s' % (' + len(sep)' if sep_given else ' (+ gap)'),
                    '; '.join(problems), construct=cons)


    # every result of _split / splitlines is cut along the pieces str produced: no return is reached without the str call having been made
    from ..cfg import CFG
    for name, meths in (('_split', ('split', 'rsplit')), ('splitlines', ('splitlines',))):
        f = m.fn('AnsiString.' + name)
        cons = '%s returns the str pieces' % name
        cfg = CFG(f.node, f.body)
        txt = '%s.%s' % (f.self_name, m.roles.TEXT)

        def has_call(nd):
            holder = nd.stmt if nd.kind != 'test' else nd.test
            if holder is None:
                return False
            if nd.kind in ('loop', 'test') and nd.test is not None:
                holder = nd.test
            for x in ast.walk(holder):
                if isinstance(x, ast.Call) and isinstance(x.func, ast.Attribute) and x.func.attr in meths and norm(x.func.value) == txt:
                    return True
            return False
        callers = [nd for nd in cfg.nodes if nd.kind in ('stmt', 'return', 'test', 'loop') and has_call(nd)]
        if not callers:
            R.undecided(f, f.node, 'no call of str.%s on the base text found' % '/'.join(meths), construct=cons)
            continue
        # returns reachable from the entry without passing a node that makes the call
        seen, stack, bad = set(), [cfg.entry], None
        while stack:
            nd = stack.pop()
            if nd.id in seen:
                continue
            seen.add(nd.id)
            if nd in callers:
                continue
            if nd.kind == 'return' and nd.stmt is not None and nd.stmt.value is not None and const_val(nd.stmt.value, 0) is not None:
                bad = nd
                break
            for _lab, nx in nd.succ:
                stack.append(nx)
        if bad is None:
            R.ok(f, f.node, 'every return comes after str.%s was applied to the base text' % '/'.join(meths), construct=cons)
            continue
        # a witness needs the arguments: decided for the scenario (sep=None, maxsplit=0), where str.split strips leading blanks and gives [] for a blank text
        from ..finite import eval_guard as _eg
        conds = []
        child, par = bad.stmt, getattr(bad.stmt, '_parent', None)
        while par is not None and par is not f.node:
            if isinstance(par, ast.If):
                conds.append((par.test, any(child is b_ for b_ in par.body)))
            child, par = par, getattr(par, '_parent', None)
        ps = f.own_params()
        sepn = ps[0] if ps else 'sep'
        mxn = ps[1] if len(ps) > 1 else 'maxsplit'

        def val(a_):
            t_ = norm(a_)
            return {'%s == 0' % mxn: True, '%s != 0' % mxn: False, '%s is None' % sepn: True, '%s is not None' % sepn: False, mxn: False, sepn: False,
                    '%s < 0' % mxn: False, '%s > 0' % mxn: False, '%s <= 0' % mxn: True, '%s >= 0' % mxn: True}.get(t_)
        vs = [(_eg(t_, val) if pol else (None if _eg(t_, val) is None else not _eg(t_, val))) for t_, pol in conds]
        rv = bad.stmt.value
        whole = isinstance(rv, ast.List) and len(rv.elts) == 1 and (norm(rv.elts[0]) in (f.self_name, '%s.copy()' % f.self_name))
        if name == '_split' and conds and all(v is True for v in vs) and whole:
            R.viol(f, bad.stmt, 'L%d returns %s without str.%s having been applied, also for sep=None, maxsplit=0: str.split(None, 0) strips leading blanks and returns [] '
                                'for a blank text -- "  a b".split(None, 0) is ["a b"], "".split(None, 0) is []' % (bad.line, short(rv), '/'.join(meths)), construct=cons)
        else:
            R.undecided(f, bad.stmt, 'L%d returns %s without str.%s having been applied to the base text; whether that agrees with str for the arguments that reach it is not decided'
                        % (bad.line, short(rv), '/'.join(meths)), construct=cons)


# ----------------------------------------------------------------------------------------------------------------------
@rule('P13', 'order-preserving: an accumulator that is re-inserted into a START list is filled in list order', floor=1)
def P13(m, R):
    ro = m.roles
    f = m.fn('AnsiString.remove_formatting')
    # accumulators: names that flow into a START list
    into_start = set()
    for n in f.walk():
        if isinstance(n, ast.AugAssign) and isinstance(n.target, ast.Attribute) and n.target.attr == ro.START:
            into_start |= names_in(n.value)
        elif isinstance(n, ast.Assign) and any(isinstance(t, ast.Attribute) and t.attr == ro.START for t in n.targets):
            into_start |= names_in(n.value)
        elif isinstance(n, ast.Assign) and any(isinstance(t, ast.Subscript) and isinstance(t.value, ast.Attribute) and t.value.attr == ro.START for t in n.targets):
            into_start |= names_in(n.value)
        elif isinstance(n, ast.Call) and call_name(n) in ('extend', 'insert_settings') and isinstance(n.func, ast.Attribute):
            if (isinstance(n.func.value, ast.Attribute) and n.func.value.attr == ro.START) or call_name(n) == 'insert_settings':
                for a in n.args:
                    into_start |= names_in(a)
    accs = set()
    fills = []
    for n in f.walk():
        if isinstance(n, ast.Call) and call_name(n) == 'append' and isinstance(n.func.value, ast.Name) and n.func.value.id in into_start:
            accs.add(n.func.value.id)
            fills.append(n)
    bad = []
    for fill in fills:
        lp = next((p for p in _parents(fill) if isinstance(p, ast.For)), None)
        if lp is None:
            continue
        it = norm(lp.iter)
        mm = re.match(r'^reversed\(range\(len\((.+)\)\)\)$', it)
        if mm and mm.group(1).endswith('.' + ro.START) and norm(lp.target) in names_in(fill.args[0]):
            bad.append((fill, lp, mm.group(1)))
    cons = 'restart accumulator order'
    for fill, lp, lst in bad:
        R.viol(f, fill, '%s collects the markers of %s walking it backwards (%s) and is later re-inserted into a START list: '
                        'two settings that started together swap precedence after the removal' % (norm(fill.func.value), lst, norm(lp.iter)),
               construct=cons, witness=['L%d for %s in %s' % (lp.lineno, norm(lp.target), norm(lp.iter)), 'L%d %s' % (fill.lineno, short(fill))])
    if not bad:
        R.ok(f, f.node, 'accumulators re-inserted into START lists (%s) are filled in list order' % (sorted(accs) or 'none'), construct=cons)


# ----------------------------------------------------------------------------------------------------------------------
@rule('P23', 'int-guard: int() on text taken from a setting string is dominated by an ASCII-digit guard', floor=1)
def P23(m, R):
    f = m.fn('AnsiSetting.to_list')
    # (defs nested in to_list count as part of it)
    sites = [n for n in ast.walk(f.node) if isinstance(n, ast.Call) and call_name(n) == 'int' and isinstance(n.func, ast.Name)]
    if not sites:
        # a convert-or-keep helper called by to_list
        for n in f.walk():
            if isinstance(n, ast.Call) and isinstance(n.func, ast.Name) and n.func.id in m.funcs:
                sites += [x for x in m.funcs[n.func.id].walk() if isinstance(x, ast.Call) and call_name(x) == 'int' and isinstance(x.func, ast.Name)]
    if not sites:
        R.ok(f, f.node, 'to_list does not use int() on setting text', construct='int() on setting text')
        return
    for s in sites:
        arg = norm(s.args[0]) if s.args else ''
        guarded = False
        for p in _parents(s):
            if isinstance(p, ast.If):
                t = norm(p.test)
                if arg and (('%s.isdigit()' % arg in t and '%s.isascii()' % arg in t) or re.search(r're\.(full)?match\(.*\[0-9\]', t)):
                    guarded = True
        # a guard earlier in the same block that `continue`s / returns on non-digits
        R.check(guarded, f, s, 'int(%s) only sees ASCII digits' % arg,
                'int(%s) accepts a sign, surrounding blanks, underscores and non-ASCII digits: such a token counts as an integer code and '
                'the setting is reported parsable' % arg, construct='int() on setting text')


# ----------------------------------------------------------------------------------------------------------------------
@rule('P16', 'cache-consistency: in valid / parsable the memo attribute, when defined at a return, equals the returned value', floor=4)
def P16(m, R):
    for pname in ('valid', 'parsable'):
        f = m.fn('AnsiSetting.' + pname)
        memo = None
        for n in f.walk():
            if isinstance(n, ast.Call) and call_name(n) == 'hasattr' and len(n.args) == 2 and isinstance(const_val(n.args[1]), str):
                memo = const_val(n.args[1])
        if memo is None:
            R.ok(f, f.node, '%s is not memoised' % pname, construct='%s memo' % pname)
            continue
        cfg = CFG(f.node, f.body)
        mtxt = 'self.' + memo

        def transfer(node, env, mtxt=mtxt):
            st = node.stmt
            if node.kind == 'stmt' and isinstance(st, ast.Assign) and norm(st.targets[0]) == mtxt:
                v = st.value
                if isinstance(v, ast.Constant) and isinstance(v.value, bool):
                    env['#memo'] = v.value
                else:
                    env['#memo'] = ('expr', norm(v))
        ps = paths(cfg, cfg.entry, lambda nd: nd.kind == 'return', transfer=transfer, max_visits=1, limit=200000)
        seen = set()
        for p, env in ps:
            last = p[-1]
            if last.kind != 'return':
                continue
            key = (last.line, repr(env.get('#memo', 'undef')))
            if key in seen:
                continue
            seen.add(key)
            rv = last.stmt.value
            memo_v = env.get('#memo', 'undef')
            cons = '%s memo at return L-%s [%s]' % (pname, norm(rv), memo_v if not isinstance(memo_v, tuple) else 'expr')
            if memo_v == 'undef':
                R.ok(f, last.stmt, 'memo undefined here (recomputed next time, or this is the memo read itself)', construct=cons)
                continue
            if norm(rv) == mtxt:
                R.ok(f, last.stmt, 'returns the memo itself', construct=cons)
                continue
            c = const_val(rv, None)
            if isinstance(memo_v, bool) and isinstance(c, bool):
                R.check(memo_v == c, f, last.stmt, 'memo %s == returned %s' % (memo_v, c),
                        'returns %s while the memo holds %s: the second read of .%s answers differently from the first' % (c, memo_v, pname),
                        construct=cons, witness=_path_text(p))
            else:
                R.undecided(f, last.stmt, 'memo %r vs returned %s' % (memo_v, norm(rv)), construct=cons)
        # the memo belongs to this property: nothing else stores it (a foreign store is what this property returns from then on)
        m.cls('AnsiSetting')
        foreign, copies = [], []

        def memo_read(v_):
            """`<other>.<memo>` / `getattr(<other>, '<memo>'[, d])`: the flag of another setting"""
            if isinstance(v_, ast.Attribute) and v_.attr == memo:
                return True
            return isinstance(v_, ast.Call) and call_name(v_) == 'getattr' and len(v_.args) >= 2 and const_val(v_.args[1], None) == memo
        for g in m.funcs.values():
            if g is f or (g.cls == 'AnsiSetting' and g.name == pname):
                continue
            for n in g.walk():
                tg = n.targets if isinstance(n, ast.Assign) else [n.target] if isinstance(n, (ast.AugAssign, ast.AnnAssign)) else []
                hit = any(isinstance(t_, ast.Attribute) and t_.attr == memo for t_ in tg)
                v_ = getattr(n, 'value', None) if hit else None
                if isinstance(n, ast.Call) and call_name(n) == 'setattr' and len(n.args) == 3 and const_val(n.args[1], None) == memo:
                    hit, v_ = True, n.args[2]
                if not hit:
                    continue
                if g.qual == 'AnsiSetting.__init__' and v_ is not None and memo_read(v_):
                    copies.append((g, n))       # a copy takes the flag of the setting it copies the text of: same text, same answer
                else:
                    foreign.append((g, n, v_))
        if not foreign:
            R.ok(f, f.node, 'only %s stores its memo %s%s' % (pname, memo, ' (a copy constructed from a setting takes its flag along with its text)' if copies else ''),
                 construct='%s memo owner' % pname)
        else:
            g, n, v_ = foreign[0]
            if v_ is not None and isinstance(const_val(v_, None), bool):
                R.viol(g, n, '%s stores .%s = %r on a setting without consulting %s: %s returns its memo when it is set, so from then on %s is %r for that setting whatever '
                             'its text (%s)' % (g.qual, memo, const_val(v_), pname, pname, pname, const_val(v_),
                                                'for every setting once %s has run' % g.name if g.cls == 'AnsiSetting'
                                                else 'the predicate is bypassed: what it would answer for that text is never asked'),
                       construct='%s memo owner' % pname)
            else:
                R.undecided(g, n, '%s stores the memo %s of %s' % (g.qual, memo, pname), construct='%s memo owner' % pname)


# ----------------------------------------------------------------------------------------------------------------------
@rule('P17', 'for-all-idiom: is_formatting_valid / parsable are conjunctions of .valid / .parsable over every marker', floor=2)
def P17(m, R):
    ro = m.roles
    for name, attr in (('is_formatting_valid', 'valid'), ('is_formatting_parsable', 'parsable')):
        f = m.fn('AnsiString.' + name)
        cons = name
        body = f.body
        problems = []
        if len(body) != 2 or not isinstance(body[0], ast.For) or not isinstance(body[1], ast.Return):
            # all(...) form
            expr = body[0].value if len(body) == 1 and isinstance(body[0], ast.Return) else None
            if expr is not None and call_name(expr) == 'all':
                t = norm(expr)
                ok = ('.%s' % attr) in t and ('.%s' % ro.TABLE) in t and (('.%s' % ro.START) in t or ('.%s' % ro.STOP) in t) and 'not ' not in t
                R.check(ok, f, body[0], 'all(...) over every marker\'s .%s' % attr, 'all() expression is %s' % short(expr), construct=cons)
            else:
                # the verdict memoised on the string itself: a memo on a mutable object is right only if every method that changes the table resets it
                memo = sorted({n.attr for n in f.walk() if isinstance(n, ast.Attribute) and isinstance(n.ctx, ast.Store) and is_name(n.value, f.self_name)
                               and n.attr not in (ro.TABLE, ro.TEXT)})
                stale, stale_foreign = None, False
                if memo:
                    A_ = m.cls('AnsiString')
                    for g in A_.methods.values():
                        if g is f or g.name in ('__init__',):
                            continue
                        writes_table = False
                        for n in g.walk():
                            if isinstance(n, (ast.Subscript, ast.Attribute)) and isinstance(n.ctx, (ast.Store, ast.Del)):
                                x = n.value if isinstance(n, ast.Subscript) else n
                                while isinstance(x, ast.Subscript):
                                    x = x.value
                                if isinstance(x, ast.Attribute) and x.attr == ro.TABLE and is_name(x.value, g.self_name):
                                    writes_table = True
                            if isinstance(n, ast.Call) and isinstance(n.func, ast.Attribute) and n.func.attr in (
                                    'extend', 'append', 'insert', 'pop', 'clear', 'update', 'insert_settings', 'remove') and \
                                    ('%s.%s' % (g.self_name, ro.TABLE)) in norm(n.func.value):
                                writes_table = True
                        resets = any(isinstance(n, ast.Attribute) and isinstance(n.ctx, (ast.Store, ast.Del)) and n.attr in memo and is_name(n.value, g.self_name)
                                     for n in g.walk())
                        if writes_table and not resets:
                            # settings of another string taken over (a.TABLE read for a not self) is the clearest case; a method that only re-keys points is not one
                            foreign = any(isinstance(n, ast.Attribute) and n.attr == ro.TABLE and isinstance(n.value, ast.Name) and n.value.id != g.self_name for n in g.walk())
                            if stale is None or (foreign and not stale_foreign):
                                stale, stale_foreign = g, foreign
                if memo and stale is not None:
                    R.viol(stale, stale.node, '%s keeps its verdict in self.%s, and %s changes the table of settings without resetting it: after that call the stored verdict '
                                              'answers for settings that are no longer (or not yet) there' % (f.qual, memo[0], stale.qual), construct=cons)
                else:
                    R.undecided(f, f.node, 'for-all idiom not recognised', construct=cons)
            continue
        outer = body[0]
        if norm(outer.iter) not in ('%s.%s.values()' % (f.self_name, ro.TABLE),):
            problems.append('outer loop iterates %s, not every point of the table' % norm(outer.iter))
        inner = outer.body[0] if len(outer.body) == 1 and isinstance(outer.body[0], ast.For) else None
        if inner is None:
            problems.append('no inner loop over the markers of a point')
        else:
            if norm(inner.iter) not in ('%s.%s' % (norm(outer.target), ro.START), '%s.%s' % (norm(outer.target), ro.STOP)):
                problems.append('inner loop iterates %s, not the markers of the point' % norm(inner.iter))
            chk = inner.body[0] if len(inner.body) == 1 and isinstance(inner.body[0], ast.If) else None
            if chk is None or norm(chk.test) != 'not %s.%s' % (norm(inner.target), attr):
                problems.append('element test is %s, expected `not %s.%s`' % (short(chk.test) if chk else None, norm(inner.target), attr))
            elif not (len(chk.body) == 1 and isinstance(chk.body[0], ast.Return) and const_val(chk.body[0].value) is False) or chk.orelse:
                problems.append('a failing element does not return False')
        if const_val(body[1].value) is not True:
            problems.append('returns %s after the loops, expected True' % norm(body[1].value))
        R.check(not problems, f, f.node, 'False at the first marker whose .%s is False, True otherwise' % attr, '; '.join(problems), construct=cons)

"""D6 simple wrappers and D7 pad siblings."""
import ast
import re

from ..model import AnalysisError, norm, short, call_name, const_val, flatten_add, is_attr, is_name, names_in
from ..report import rule
from ..shapes import single_return, args_are_params, inplace_switch, attr_writes, bind_call, straight_env, subst
from ..consteval import get_folder, Unfoldable, EnumRef
from ..finite import eval_guard, flag_valuation, order_valuation, run_block, Undecided, cmp_regions, merge_valuations


def _calls(f, name=None, on=None):
    out = []
    for n in f.walk():
        if isinstance(n, ast.Call) and (name is None or call_name(n) == name):
            if on is None or (isinstance(n.func, ast.Attribute) and norm(n.func.value) == on):
                out.append(n)
    return out


def _bound_texts(call, callee):
    bound, problems = bind_call(call, callee)
    return {k: (norm(v) if not isinstance(v, list) else [norm(x) for x in v]) for k, v in bound.items()}, problems


def _expect_call(R, f, ret, expr, callee, want, what, cons, recv=None):
    """expr must be a call to `callee` (Func) binding exactly `want` {param: text}."""
    if not (isinstance(expr, ast.Call) and call_name(expr) == callee.name):
        R.viol(f, ret, '%s: is %s, not a call of %s' % (what, short(expr), callee.name), construct=cons)
        return False
    if recv is not None and not (isinstance(expr.func, ast.Attribute) and norm(expr.func.value) == recv):
        R.viol(f, ret, '%s: receiver is %s, expected %s' % (what, norm(expr.func), recv), construct=cons)
        return False
    got, problems = _bound_texts(expr, callee)
    problems = list(problems)
    for k, v in want.items():
        if got.get(k) != v:
            problems.append('%s=%s, expected %s' % (k, got.get(k), v))
    # an extra argument that spells out the callee's own default changes nothing
    a_ = callee.node.args
    pos_ = list(a_.posonlyargs) + list(a_.args)
    dflt = {p_.arg: norm(d_) for p_, d_ in zip(pos_[len(pos_) - len(a_.defaults):], a_.defaults)}
    dflt.update({p_.arg: norm(d_) for p_, d_ in zip(a_.kwonlyargs, a_.kw_defaults) if d_ is not None})
    for k in got:
        if k not in want and not (k in dflt and got[k] == dflt[k]):
            problems.append('also passes %s=%s' % (k, got[k]))
    R.check(not problems, f, ret, what, '%s: %s' % (what, '; '.join(problems)), construct=cons)
    return not problems


@rule('D6', 'simple-wrappers: thin methods are the documented composition of other methods', floor=40)
def D6(m, R):
    ro = m.roles
    F = get_folder(m)
    TEXT, TABLE = ro.TEXT, ro.TABLE
    A = m.cls('AnsiString')

    def fn(n):
        return m.fn('AnsiString.' + n)

    # zfill -> rjust(width, '0', inplace)
    f = fn('zfill')
    expr, ret = single_return(f)
    if expr is None:
        R.undecided(f, f.node, 'not a single return', construct='zfill')
    else:
        _expect_call(R, f, ret, expr, fn('rjust'), {'width': 'width', 'fillchar': "'0'", 'inplace': 'inplace'},
                     "zfill is rjust(width, '0', inplace)", 'zfill', recv=f.self_name)
    # expandtabs -> replace('\t', ' ' * tabsize, inplace=inplace)
    f = fn('expandtabs')
    expr, ret = single_return(f)
    if expr is None:
        R.undecided(f, f.node, 'not a single return', construct='expandtabs')
    else:
        got, _ = _bound_texts(expr, fn('replace')) if isinstance(expr, ast.Call) and call_name(expr) == 'replace' else ({}, None)
        new = got.get('new', '')
        ok_new = new in ("' ' * tabsize", "tabsize * ' '")
        want = {'old': "'\\t'", 'new': new if ok_new else "' ' * tabsize", 'inplace': 'inplace'}
        _expect_call(R, f, ret, expr, fn('replace'), want, "expandtabs is replace('\\t', ' ' * tabsize, inplace=inplace)", 'expandtabs',
                     recv=f.self_name)
    # strip family
    st = fn('_strip')
    for name, (dl, dr) in (('lstrip', ('True', 'False')), ('rstrip', ('False', 'True')), ('strip', ('True', 'True'))):
        f = fn(name)
        expr, ret = single_return(f)
        if expr is None:
            R.undecided(f, f.node, 'not a single return', construct=name)
            continue
        sps = st.own_params()
        want = {sps[0]: 'chars', sps[1]: 'inplace', sps[2]: dl, sps[3]: dr}
        # defaults of _strip stand for omitted flags
        if isinstance(expr, ast.Call) and call_name(expr) == st.name:
            got, _ = _bound_texts(expr, st)
            for p in (sps[2], sps[3]):
                if p not in got and st.defaults.get(p) is not None:
                    want[p] = want[p] if norm(st.defaults[p]) != want[p] else None
            want = {k: v for k, v in want.items() if v is not None}
        _expect_call(R, f, ret, expr, st, want, '%s is _strip(chars, inplace, left=%s, right=%s)' % (name, dl, dr), name, recv=f.self_name)
    # _strip internals: default set, the two scans, final clip
    f = st
    chars, inplace, do_l, do_r = f.own_params()[:4]
    dflt = [n for n in f.walk() if isinstance(n, ast.If) and norm(n.test) in ('%s is None' % chars, '%s is not None' % chars)]
    ok = bool(dflt) and norm(dflt[0].test) == '%s is None' % chars and \
        any(isinstance(x, ast.Assign) and norm(x) == '%s = WHITESPACE_CHARS' % chars for x in dflt[0].body)
    eff = chars          # the name that holds the set actually stripped
    if not ok and dflt:
        # `E = WHITESPACE_CHARS if chars is None else chars` (after the pre-pass: an if / else assigning E in both branches)
        g_ = dflt[0]
        none_b, some_b = (g_.body, g_.orelse) if norm(g_.test) == '%s is None' % chars else (g_.orelse, g_.body)
        if len(none_b) == 1 and len(some_b) == 1 and all(isinstance(x, ast.Assign) and isinstance(x.targets[0], ast.Name) for x in (none_b[0], some_b[0])) and \
                none_b[0].targets[0].id == some_b[0].targets[0].id and norm(none_b[0].value) == 'WHITESPACE_CHARS' and norm(some_b[0].value) == chars and \
                sum(1 for x in f.walk() if isinstance(x, ast.Name) and x.id == none_b[0].targets[0].id and isinstance(x.ctx, ast.Store)) == 2:
            ok = True
            eff = none_b[0].targets[0].id
    R.check(ok, f, dflt[0] if dflt else f.node, 'chars=None strips the documented whitespace set',
            'chars=None does not select WHITESPACE_CHARS', construct='_strip default set')
    chars = eff
    # the two scans: written in place, or through a private counting helper
    txt = '%s.%s' % (f.self_name, TEXT)
    from ..shapes import local_aliases as _la0, canon as _cn0
    _al0 = _la0(f)

    def scan_of(loop, over=None, among=None):
        """`for c in IT: if c in CH: cnt (+|-)= 1 else: break`  (or `if c not in CH: break` then the step): (IT, CH, counter, step) or None"""
        if isinstance(loop, ast.For) and isinstance(loop.target, ast.Tuple) and len(loop.target.elts) == 2 and all(isinstance(x, ast.Name) for x in loop.target.elts) \
                and call_name(loop.iter) == 'enumerate' and len(loop.iter.args) == 1 and not loop.orelse:
            # `cnt = len(T)` ... `for i, c in enumerate(IT): if c not in CH: cnt = i; break`: the index of the first character to keep, the length of the
            # text when there is none -- the number of leading members of CH, counted upwards
            i_, c_ = (x.id for x in loop.target.elts)
            b_ = loop.body
            if len(b_) == 1 and isinstance(b_[0], ast.If) and not b_[0].orelse and isinstance(b_[0].test, ast.Compare) and len(b_[0].test.ops) == 1 and \
                    isinstance(b_[0].test.ops[0], ast.NotIn) and norm(b_[0].test.left) == c_ and len(b_[0].body) == 2 and isinstance(b_[0].body[1], ast.Break) and \
                    isinstance(b_[0].body[0], ast.Assign) and isinstance(b_[0].body[0].targets[0], ast.Name) and norm(b_[0].body[0].value) == i_:
                cnt_ = b_[0].body[0].targets[0].id
                it_ = norm(loop.iter.args[0])
                base_ = it_[len('reversed('):-1] if it_.startswith('reversed(') else it_[:-len('[::-1]')] if it_.endswith('[::-1]') else it_
                # the default is set by the statement right before the loop
                par_ = getattr(loop, '_parent', None)
                prev_ = None
                for fld_ in ('body', 'orelse'):
                    L_ = getattr(par_, fld_, None)
                    if isinstance(L_, list) and loop in L_ and L_.index(loop) > 0:
                        prev_ = L_[L_.index(loop) - 1]
                if isinstance(prev_, ast.Assign) and is_name(prev_.targets[0], cnt_) and norm(prev_.value) == 'len(%s)' % base_:
                    return (it_, norm(b_[0].test.comparators[0]), cnt_, 1, loop)
            return None
        if not (isinstance(loop, ast.For) and isinstance(loop.target, ast.Name)):
            return None
        c = loop.target.id
        body = loop.body
        cnt = step = ch = None
        if len(body) == 1 and isinstance(body[0], ast.If) and isinstance(body[0].test, ast.Compare) and isinstance(body[0].test.ops[0], ast.In) and \
                norm(body[0].test.left) == c and len(body[0].body) == 1 and isinstance(body[0].body[0], ast.AugAssign) and \
                len(body[0].orelse) == 1 and isinstance(body[0].orelse[0], ast.Break):
            ch = norm(body[0].test.comparators[0])
            inc = body[0].body[0]
        elif len(body) == 2 and isinstance(body[0], ast.If) and isinstance(body[0].test, ast.Compare) and isinstance(body[0].test.ops[0], ast.NotIn) and \
                norm(body[0].test.left) == c and len(body[0].body) == 1 and isinstance(body[0].body[0], ast.Break) and not body[0].orelse and \
                isinstance(body[1], ast.AugAssign):
            ch = norm(body[0].test.comparators[0])
            inc = body[1]
        else:
            return None
        if not (isinstance(inc.target, ast.Name) and const_val(inc.value, None) == 1 and isinstance(inc.op, (ast.Add, ast.Sub))):
            return None
        return (_cn0(loop.iter, _al0) if loop in list(f.walk()) else norm(loop.iter), ch, inc.target.id, 1 if isinstance(inc.op, ast.Add) else -1, loop)
    facts = []        # (what is scanned, membership set, variable holding the count, sign of the count, node)
    odd = []
    for n in f.walk():
        if isinstance(n, ast.For):
            sc = scan_of(n)
            if sc is not None:
                facts.append(sc)
            elif norm(n.iter) in (txt, 'reversed(%s)' % txt, '%s[::-1]' % txt):
                odd.append(n)
    for n in f.walk():
        if isinstance(n, ast.Assign) and isinstance(n.targets[0], ast.Name):
            for c_ in ast.walk(n.value):
                if isinstance(c_, ast.Call) and len(c_.args) == 2 and not c_.keywords:
                    nm = call_name(c_)
                    callee = m.funcs.get('AnsiString.%s' % nm) if nm and nm.startswith('_') else None
                    if callee is None:
                        continue
                    hl = [x for x in callee.body if isinstance(x, ast.For)]
                    hs = scan_of(hl[0]) if len(hl) == 1 else None
                    ps_ = callee.own_params() if not callee.is_static else callee.params
                    rets_ = [x for x in callee.walk() if isinstance(x, ast.Return)]
                    if hs is not None and len(ps_) >= 2 and hs[0] == ps_[0] and hs[1] == ps_[1] and hs[3] == 1 and len(rets_) == 1 and norm(rets_[0].value) == hs[2]:
                        # wrappers between the assigned value and the helper call: `-h(..)`, `X or None`, `X if flag else 0|None`
                        sign, ok_wrap = 1, True
                        for p_ in _parents(c_):
                            if p_ is n:
                                break
                            if isinstance(p_, ast.UnaryOp) and isinstance(p_.op, ast.USub):
                                sign = -sign
                            elif isinstance(p_, ast.BoolOp) and isinstance(p_.op, ast.Or) and len(p_.values) == 2 and const_val(p_.values[1], 0) is None:
                                pass
                            elif isinstance(p_, ast.IfExp) and const_val(p_.orelse, 1) in (0, None) and not any(x is c_ for x in ast.walk(p_.test)):
                                pass
                            else:
                                ok_wrap = False
                        if ok_wrap:
                            facts.append((norm(c_.args[0]), norm(c_.args[1]), n.targets[0].id, sign, n))
    # a counting helper nested in _strip: one parameter (what is scanned), the membership set read from the enclosing scope
    nested = {d_.name: d_ for d_ in f.node.body if isinstance(d_, ast.FunctionDef)}
    for n in f.walk():
        if isinstance(n, ast.Assign) and isinstance(n.targets[0], ast.Name):
            for c_ in ast.walk(n.value):
                if isinstance(c_, ast.Call) and isinstance(c_.func, ast.Name) and c_.func.id in nested and len(c_.args) == 1 and not c_.keywords:
                    d_ = nested[c_.func.id]
                    ps_ = [a_.arg for a_ in d_.args.args]
                    hl = [x for x in d_.body if isinstance(x, ast.For)]
                    hs = scan_of(hl[0]) if len(hl) == 1 else None
                    rets_ = [x for x in ast.walk(d_) if isinstance(x, ast.Return)]
                    if hs is not None and len(ps_) == 1 and hs[0] == ps_[0] and hs[3] == 1 and len(rets_) == 1 and norm(rets_[0].value) == hs[2]:
                        sign, ok_wrap = 1, True
                        for p_ in _parents(c_):
                            if p_ is n:
                                break
                            if isinstance(p_, ast.UnaryOp) and isinstance(p_.op, ast.USub):
                                sign = -sign
                            elif isinstance(p_, ast.BoolOp) and isinstance(p_.op, ast.Or) and len(p_.values) == 2 and const_val(p_.values[1], 0) is None:
                                pass
                            elif isinstance(p_, ast.IfExp) and const_val(p_.orelse, 1) in (0, None) and not any(x is c_ for x in ast.walk(p_.test)):
                                pass
                            else:
                                ok_wrap = False
                        if ok_wrap:
                            facts.append((norm(c_.args[0]), hs[1], n.targets[0].id, sign, n))
    # the count taken as the position of the first character that is not stripped: next((n for n, c in enumerate(SEQ) if c not in SET), len(SEQ))
    from ..shapes import local_aliases as _la_s, canon as _cn_s
    al_s = _la_s(f)
    for n in f.walk():
        if isinstance(n, ast.Assign) and isinstance(n.targets[0], ast.Name):
            for c_ in ast.walk(n.value):
                if not (isinstance(c_, ast.Call) and call_name(c_) == 'next' and len(c_.args) == 2 and isinstance(c_.args[0], ast.GeneratorExp)):
                    continue
                ge = c_.args[0]
                if len(ge.generators) != 1:
                    continue
                g0 = ge.generators[0]
                if not (isinstance(g0.target, ast.Tuple) and len(g0.target.elts) == 2 and all(isinstance(x, ast.Name) for x in g0.target.elts) and
                        call_name(g0.iter) == 'enumerate' and len(g0.iter.args) == 1 and is_name(ge.elt, g0.target.elts[0].id) and len(g0.ifs) == 1):
                    continue
                t_ = g0.ifs[0]
                if not (isinstance(t_, ast.Compare) and len(t_.ops) == 1 and isinstance(t_.ops[0], ast.NotIn) and is_name(t_.left, g0.target.elts[1].id)):
                    continue
                seq_ = _cn_s(g0.iter.args[0], al_s)
                dflt_ = _cn_s(c_.args[1], al_s)
                inner_seq = seq_[len('reversed('):-1] if seq_.startswith('reversed(') else seq_
                if dflt_ != 'len(%s)' % inner_seq:
                    continue
                sign, ok_wrap = 1, True
                for p_ in _parents(c_):
                    if p_ is n:
                        break
                    if isinstance(p_, ast.UnaryOp) and isinstance(p_.op, ast.USub):
                        sign = -sign
                    elif isinstance(p_, ast.BoolOp) and isinstance(p_.op, ast.Or) and len(p_.values) == 2 and const_val(p_.values[1], 0) is None:
                        pass
                    elif isinstance(p_, ast.IfExp) and const_val(p_.orelse, 1) in (0, None) and not any(x is c_ for x in ast.walk(p_.test)):
                        pass
                    else:
                        ok_wrap = False
                if ok_wrap:
                    facts.append((seq_, norm(t_.comparators[0]), n.targets[0].id, sign, n))
    seen = {'fwd': None, 'rev': None}
    for fct in facts:
        if fct[0] == txt:
            seen['fwd'] = fct
        elif fct[0] in ('reversed(%s)' % txt, '%s[::-1]' % txt):
            seen['rev'] = fct
    for kind in ('fwd', 'rev'):
        cons = '_strip %s scan' % kind
        fct = seen[kind]
        if fct is None:
            if odd:
                R.viol(f, odd[0], 'the scan `for %s in %s` does not count the leading characters found in chars one by one and stop at the first other character'
                       % (norm(odd[0].target), norm(odd[0].iter)), construct=cons)
            else:
                R.undecided(f, f.node, 'no %s scan over the base text recognised (in place or through a counting helper)' % ('forward' if kind == 'fwd' else 'reverse'), construct=cons)
            continue
        problems = []
        if fct[1] != chars:
            problems.append('membership is tested against %s, not %s' % (fct[1], chars))
        if kind == 'fwd' and fct[3] != 1:
            problems.append('the left count goes down')
        R.check(not problems, f, fct[4], 'counts leading characters in chars by 1 and stops at the first other character', '; '.join(problems), construct=cons)
    # the counts reach clip(left count, negative right count or None, inplace)
    rets = [n for n in f.walk() if isinstance(n, ast.Return)]
    last = rets[-1] if rets else None
    if last is not None and isinstance(last.value, ast.Call) and seen['fwd'] and seen['rev']:
        lc = seen['fwd'][2]
        # a plain copy of the left count may be what is passed on
        lsame = {lc}
        for _ in range(3):
            for n in f.walk():
                if isinstance(n, ast.Assign) and isinstance(n.targets[0], ast.Name) and isinstance(n.value, ast.Name) and n.value.id in lsame:
                    lsame.add(n.targets[0].id)
        if isinstance(last.value, ast.Call) and last.value.args and isinstance(last.value.args[0], ast.Name) and last.value.args[0].id in lsame:
            lc = last.value.args[0].id
        rv = seen['rev']
        rc = rv[2]
        if rv[3] == 1:
            # counted upwards: the end index must be its negation, taken only when positive
            same = {rc}
            for _ in range(3):
                for n in f.walk():
                    if isinstance(n, ast.Assign) and isinstance(n.targets[0], ast.Name) and isinstance(n.value, ast.Name) and n.value.id in same:
                        same.add(n.targets[0].id)
            neg = [n for n in f.walk() if isinstance(n, ast.Assign) and isinstance(n.targets[0], ast.Name) and isinstance(n.value, ast.UnaryOp) and
                   isinstance(n.value.op, ast.USub) and norm(n.value.operand) in same]
            rc = neg[0].targets[0].id if neg else None
        if rc is None:
            R.undecided(f, last, 'how the right count becomes the end index is not recognised', construct='_strip clip')
        else:
            _expect_call(R, f, last, last.value, fn('clip'), {'start': lc, 'end': rc, 'inplace': inplace},
                         '_strip returns clip(lcount, rcount, inplace)', '_strip clip', recv=f.self_name)
    # each scan runs only when its flag is set
    for kind, flag in (('fwd', do_l), ('rev', do_r)):
        fct = seen[kind]
        if fct is None:
            continue
        node = fct[4]
        g_ok = False
        for p_ in [node] + list(_parents(node)):
            t_ = p_.test if isinstance(p_, (ast.If, ast.IfExp)) else None
            if isinstance(p_, ast.Assign) and isinstance(p_.value, ast.IfExp):
                t_ = p_.value.test
                v_ = eval_guard(t_, flag_valuation({flag: False}))
                if flag in names_in(t_) and v_ is False and any(isinstance(x, ast.Call) for x in ast.walk(p_.value.body)):
                    g_ok = True
                continue
            if t_ is not None and flag in names_in(t_):
                v_ = eval_guard(t_, flag_valuation({flag: False}))
                in_body = isinstance(p_, ast.If) and any(node is x for b_ in p_.body for x in ast.walk(b_))
                if v_ is False and in_body:
                    g_ok = True
        R.check(g_ok, f, node, 'the %s scan runs only when %s is set' % (kind, flag), construct='_strip %s flag' % kind)

    # clip -> self[start:end] (+ transfer in place)
    f = fn('clip')
    subs = [n for n in f.walk() if isinstance(n, ast.Subscript) and is_name(n.value, f.self_name) and isinstance(n.slice, ast.Slice)]
    ok = len(subs) == 1 and norm(subs[0].slice.lower) == 'start' and norm(subs[0].slice.upper) == 'end' and subs[0].slice.step is None
    R.check(ok, f, subs[0] if subs else f.node, 'clip takes self[start:end]', 'clip slices %s' % (short(subs[0]) if subs else 'nothing'), construct='clip slice')
    if ok:
        from ..cfg import CFG
        cfg = CFG(f.node, f.body)
        stn = subs[0]
        while not isinstance(stn, ast.stmt):
            stn = stn._parent
        snode = cfg.node_of(stn)
        rets = [nd for nd in cfg.nodes if nd.kind == 'return']
        bypass = [nd for nd in rets if snode is None or not cfg.dominates(snode, nd)]
        R.check(not bypass, f, bypass[0].stmt if bypass else stn, 'every return of clip comes after the slice was taken',
                'L%d returns without taking self[start:end]: some (start, end) combination is answered with something else than the slice' % (bypass[0].line if bypass else 0),
                construct='clip always slices')
        obj = norm(stn.targets[0]) if isinstance(stn, ast.Assign) else None
        bad = [nd for nd in rets if norm(nd.stmt.value) not in (obj, f.self_name)]
        R.check(not bad, f, bad[0].stmt if bad else stn, 'clip returns the slice (or the receiver after taking over its fields)',
                'clip returns %s' % (norm(bad[0].stmt.value) if bad else ''), construct='clip returns slice')
    # __str__ -> __format__(None) -> to_str(spec)
    f = fn('__str__')
    expr, ret = single_return(f)
    ok = expr is not None and norm(expr) in ('%s.__format__(None)' % f.self_name, '%s.to_str()' % f.self_name, '%s.to_str(None)' % f.self_name,
                                              "%s.__format__('')" % f.self_name, "format(%s)" % f.self_name)
    R.check(ok, f, ret or f.node, '__str__ is the default rendering', '__str__ returns %s' % short(expr), construct='__str__')
    f = fn('__format__')
    expr, ret = single_return(f)
    spec = f.own_params()[0]
    ok = expr is not None and norm(expr) == '%s.to_str(%s)' % (f.self_name, spec)
    R.check(ok, f, ret or f.node, '__format__ is to_str(spec) with default flags', '__format__ returns %s' % short(expr), construct='__format__')
    # __add__ = copy; +=; return
    f = fn('__add__')
    v = f.own_params()[0]
    b = f.body
    ok = len(b) == 3 and isinstance(b[0], ast.Assign) and norm(b[0].value) in ('%s.copy()' % f.self_name, 'AnsiString(%s)' % f.self_name) \
        and isinstance(b[1], ast.AugAssign) and isinstance(b[1].op, ast.Add) and norm(b[1].target) == norm(b[0].targets[0]) and norm(b[1].value) == v \
        and isinstance(b[2], ast.Return) and norm(b[2].value) == norm(b[0].targets[0])
    if not ok and len(b) == 1 and isinstance(b[0], ast.Return) and b[0].value is not None and \
            norm(b[0].value) in ('AnsiString.join(%s, %s)' % (f.self_name, v), '__class__.join(%s, %s)' % (f.self_name, v)):
        ok = True       # join is the left fold of += over a copy of its first argument (its own obligation, `join`): the same three steps
    if ok:
        R.ok(f, f.node, '__add__ is: copy the receiver; copy += value; return the copy', construct='__add__')
    else:
        # what is wrong must be shown: the receiver or the operand written, or the result not the extended copy
        writes_self = any(isinstance(n, ast.AugAssign) and norm(n.target) == f.self_name for n in f.walk())
        shaped = len(b) == 3 and isinstance(b[0], ast.Assign) and isinstance(b[1], ast.AugAssign) and isinstance(b[2], ast.Return)
        if writes_self:
            R.viol(f, f.node, '__add__ applies += to the receiver itself: a + b changes a', construct='__add__')
        elif shaped:
            why = []
            if norm(b[0].value) not in ('%s.copy()' % f.self_name, 'AnsiString(%s)' % f.self_name):
                why.append('works on %s, not on a copy of the receiver' % short(b[0].value))
            if not (isinstance(b[1].op, ast.Add) and norm(b[1].target) == norm(b[0].targets[0]) and norm(b[1].value) == v):
                why.append('does %s instead of <copy> += %s' % (short(b[1]), v))
            if norm(b[2].value) != norm(b[0].targets[0]):
                why.append('returns %s, not the extended copy' % short(b[2].value))
            R.viol(f, f.node, '__add__ ' + '; '.join(why), construct='__add__')
        else:
            R.undecided(f, f.node, '__add__ is not of the form: copy the receiver; copy += value; return the copy', construct='__add__')
    # join
    f = fn('join')
    args = f.vararg
    loops = [n for n in f.walk() if isinstance(n, ast.For)]
    acc = None
    ok_loop = False
    for lp in loops:
        rest_names = {'%s[1:]' % args}
        first_names = {}
        for n_ in f.walk():
            # first, *rest = args
            if isinstance(n_, ast.Assign) and isinstance(n_.targets[0], ast.Tuple) and norm(n_.value) in (args, 'list(%s)' % args) and len(n_.targets[0].elts) == 2 \
                    and isinstance(n_.targets[0].elts[1], ast.Starred):
                rest_names.add(norm(n_.targets[0].elts[1].value))
                first_names[norm(n_.targets[0].elts[0])] = '%s[0]' % args
        # it = iter(args); first = next(it): the iterator then holds args[1:]
        for n_ in f.walk():
            if isinstance(n_, ast.Assign) and isinstance(n_.targets[0], ast.Name) and norm(n_.value) in ('iter(%s)' % args, 'iter(list(%s))' % args):
                it_ = n_.targets[0].id
                nexts = [x for x in f.walk() if isinstance(x, ast.Assign) and isinstance(x.targets[0], ast.Name) and norm(x.value) == 'next(%s)' % it_]
                other = [x for x in f.walk() if isinstance(x, ast.Call) and call_name(x) == 'next' and x.args and is_name(x.args[0], it_)]
                if len(nexts) == 1 and len(other) == 1:
                    rest_names.add(it_)
                    first_names[nexts[0].targets[0].id] = '%s[0]' % args
        if len(lp.body) == 1 and isinstance(lp.body[0], ast.AugAssign) and isinstance(lp.body[0].op, ast.Add) and \
                norm(lp.body[0].value) == norm(lp.target) and norm(lp.iter) in rest_names:
            acc = norm(lp.body[0].target)
            ok_loop = True
    R.check(ok_loop, f, loops[0] if loops else f.node, 'join folds `joint += arg` over args[1:] in order',
            'join loop is not `for arg in args[1:]: joint += arg`', construct='join fold')
    if acc:
        inits = [n for n in f.walk() if isinstance(n, ast.Assign) and norm(n.targets[0]) == acc]
        texts = sorted(norm(n.value) for n in inits)
        firsts = {norm(n.targets[0]): norm(n.value) for n in f.walk() if isinstance(n, ast.Assign) and norm(n.value) == '%s[0]' % args}
        firsts.update(first_names)
        fa = next(iter(firsts), None)
        ok = fa is not None and sorted(['%s.copy()' % fa, 'AnsiString(%s)' % fa]) == texts or texts == ['AnsiString(%s)' % fa] * 1
        R.check(bool(ok), f, inits[0] if inits else f.node, 'join starts from a copy / a new AnsiString of args[0]',
                'join starts from %s' % texts, construct='join init')
        rets = [n for n in f.walk() if isinstance(n, ast.Return) and n.value is not None]
        ok = any(norm(r.value) == acc for r in rets) and any(norm(r.value) == 'AnsiString()' for r in rets)
        R.check(ok, f, rets[-1] if rets else f.node, 'join returns the accumulated string (an empty one without arguments)', construct='join return')
    # copy
    f = fn('copy')
    expr, ret = single_return(f)
    R.check(expr is not None and norm(expr) == 'AnsiString(%s)' % f.self_name, f, ret or f.node, 'copy() is AnsiString(self)',
            'copy() returns %s' % short(expr), construct='copy')
    # __init__ copies every point and the text of the source
    f = fn('__init__')

    def point_copy_of(expr, depth=0):
        """expr builds a table {k: POINT(copy of v.START, copy of v.STOP) for k, v in <src>.items()}: returns the text of <src> or None"""
        if isinstance(expr, ast.DictComp) and len(expr.generators) == 1 and call_name(expr.generators[0].iter) == 'items' and isinstance(expr.generators[0].target, ast.Tuple):
            k_, v_ = [norm(x) for x in expr.generators[0].target.elts]
            if norm(expr.key) == k_ and call_name(expr.value) == ro.POINT and not expr.generators[0].ifs:
                pt = m.fn(ro.POINT + '.__init__')
                b_, _ = _bound_texts(expr.value, pt)
                pps = pt.own_params()
                if _src_of(b_.get(pps[0])) == '%s.%s' % (v_, ro.START) and _src_of(b_.get(pps[1])) == '%s.%s' % (v_, ro.STOP):
                    return norm(expr.generators[0].iter.func.value)
            return None
        if isinstance(expr, ast.Call) and depth < 2 and len(expr.args) == 1 and not expr.keywords:
            nm = call_name(expr)
            callee = m.funcs.get('AnsiString.%s' % nm) or m.funcs.get(nm or '')
            if callee is not None and nm and nm.startswith('_'):
                e2, _ = single_return(callee)
                if e2 is not None:
                    inner = point_copy_of(e2, depth + 1)
                    if inner == callee.params[-1 if callee.is_static or callee.cls is None else 1 if len(callee.params) > 1 else 0]:
                        return norm(expr.args[0])
        return None
    ok = False
    src = None
    loops = [n for n in f.walk() if isinstance(n, ast.For) and call_name(n.iter) == 'items' and norm(n.iter.func.value).endswith('.' + TABLE)]
    for lp in loops:
        if isinstance(lp.target, ast.Tuple) and len(lp.target.elts) == 2:
            k, v = [norm(x) for x in lp.target.elts]
            for s_ in lp.body:
                if isinstance(s_, ast.Assign) and norm(s_.targets[0]) == '%s.%s[%s]' % (f.self_name, TABLE, k) and call_name(s_.value) == ro.POINT:
                    pt = m.fn(ro.POINT + '.__init__')
                    b_, _ = _bound_texts(s_.value, pt)
                    pps = pt.own_params()
                    ok = _src_of(b_.get(pps[0])) == '%s.%s' % (v, ro.START) and _src_of(b_.get(pps[1])) == '%s.%s' % (v, ro.STOP)
                    src = norm(lp.iter.func.value)[:-len(TABLE) - 1]
    anchor = loops[0] if loops else f.node
    if not ok:
        for n in f.walk():
            if isinstance(n, ast.Assign) and norm(n.targets[0]) == '%s.%s' % (f.self_name, TABLE):
                t_ = point_copy_of(n.value)
                if t_ is not None and t_.endswith('.' + TABLE):
                    ok = True
                    src = t_[:-len(TABLE) - 1]
                    anchor = n
    if ok:
        R.ok(f, anchor, 'the copy constructor copies every point: START from START, STOP from STOP, same key', construct='__init__ point copy')
    else:
        swapped = [n for n in f.walk() if isinstance(n, ast.Call) and call_name(n) == ro.POINT and len(n.args) == 2 and
                   _src_of(norm(n.args[0])).endswith('.' + ro.STOP) and _src_of(norm(n.args[1])).endswith('.' + ro.START)]
        if swapped:
            R.viol(f, swapped[0], 'the copy constructor builds points with START and STOP exchanged', construct='__init__ point copy')
        else:
            R.undecided(f, anchor, 'point copy of the copy constructor not recognised', construct='__init__ point copy')
    if src:
        ok = any(isinstance(n, ast.Assign) and norm(n.targets[0]) == '%s.%s' % (f.self_name, TEXT) and norm(n.value) == '%s.%s' % (src, TEXT) for n in f.walk())
        R.check(ok, f, f.node, 'the copy constructor takes the source\'s text', construct='__init__ text copy')
    # the settings given to the constructor are applied as one list: adjacent integers form one multi-code group (38, 5, 100) only inside one
    # call of the scrubber, and a falsy element (the int 0) is a setting of its own only inside a list
    if f.vararg:
        calls_ = [n for n in f.walk() if isinstance(n, ast.Call) and call_name(n) == 'apply_formatting' and is_name(getattr(n.func, 'value', None), f.self_name) and n.args]
        cons_ = '__init__ settings as one list'
        if not calls_:
            R.undecided(f, f.node, 'the constructor does not call apply_formatting', construct=cons_)
        else:
            whole_ = [c for c in calls_ if norm(c.args[0]) in (f.vararg, 'list(%s)' % f.vararg, 'tuple(%s)' % f.vararg)]
            per_elem = [c for c in calls_ if any(isinstance(p_, ast.For) and norm(p_.iter) == f.vararg and norm(p_.target) == norm(c.args[0]) for p_ in _parents(c))]
            if whole_ and not per_elem:
                R.ok(f, whole_[0], 'all positional settings reach apply_formatting together (%s)' % short(whole_[0]), construct=cons_)
            elif per_elem:
                R.viol(f, per_elem[0], 'each positional setting is applied by a call of its own (%s in a loop over %s): AnsiString("x", 38, 5, 100) gives three settings 38, 5, 100 '
                                       'instead of the one group 38;5;100 that the list [38, 5, 100] gives, and AnsiString("x", 0) applies nothing (a falsy setting is ignored)'
                       % (short(per_elem[0]), f.vararg), construct=cons_)
            else:
                R.undecided(f, calls_[0], 'how the positional settings reach apply_formatting is not recognised: %s' % short(calls_[0]), construct=cons_)
    # is_optimizable = is_formatting_parsable
    f = fn('is_optimizable')
    expr, ret = single_return(f)
    R.check(expr is not None and norm(expr) == '%s.is_formatting_parsable()' % f.self_name, f, ret or f.node,
            'is_optimizable is is_formatting_parsable()', 'is_optimizable returns %s' % short(expr), construct='is_optimizable')
    # settings_at
    f = fn('settings_at')
    expr, ret = single_return(f)
    idx = f.own_params()[0]
    ok = False
    if isinstance(expr, ast.Call) and isinstance(expr.func, ast.Attribute) and expr.func.attr == 'join' and len(expr.args) == 1:
        try:
            sepv = F.fold(expr.func.value)
        except Unfoldable:
            sepv = None
        comp = expr.args[0]
        if isinstance(comp, (ast.ListComp, ast.GeneratorExp)) and len(comp.generators) == 1 and not comp.generators[0].ifs:
            g = comp.generators[0]
            ok = sepv == ';' and norm(comp.elt) == 'str(%s)' % norm(g.target) and norm(g.iter) == '%s.ansi_settings_at(%s)' % (f.self_name, idx)
    R.check(ok, f, ret or f.node, "settings_at is ';'.join(str(s) for s in ansi_settings_at(idx))", 'settings_at returns %s' % short(expr), construct='settings_at')
    # encode
    f = fn('encode')
    expr, ret = single_return(f)
    ps = f.own_params()
    R.check(expr is not None and norm(expr) == 'str(%s).encode(%s, %s)' % (f.self_name, ps[0], ps[1]), f, ret or f.node,
            'encode is str(self).encode(encoding, errors)', 'encode returns %s' % short(expr), construct='encode')
    # __iter__ + char iterators
    f = fn('__iter__')
    expr, ret = single_return(f)
    it_ = expr.args[0] if expr is not None and call_name(expr) == 'iter' and len(expr.args) == 1 else expr     # the iterator class is its own iterator
    ok = it_ is not None and call_name(it_) == '_AnsiCharIterator' and [norm(a) for a in it_.args] == [f.self_name] and \
        (it_ is not expr or _returns_self(m.cls('_AnsiCharIterator').methods.get('__iter__')))
    R.check(ok, f, ret or f.node, '__iter__ iterates _AnsiCharIterator(self)', '__iter__ returns %s' % short(expr), construct='__iter__')
    for cname, wrap in (('_AnsiCharIterator', None), ('_AnsiStrCharIterator', 'AnsiStr')):
        C = m.cls(cname)
        init, nx = C.methods.get('__init__'), C.methods.get('__next__')
        if init is None or nx is None:
            raise AnalysisError('anchor vanished: %s.__init__/__next__' % cname)
        cons = cname
        idx_attr = None
        for n in init.walk():
            if isinstance(n, (ast.Assign, ast.AnnAssign)):
                tgt = n.targets[0] if isinstance(n, ast.Assign) else n.target
                if isinstance(tgt, ast.Attribute) and const_val(n.value) is not None and isinstance(const_val(n.value), int):
                    idx_attr = (tgt.attr, const_val(n.value))
        problems = []
        if idx_attr is None:
            R.undecided(init, init.node, 'cursor attribute not found', construct=cons)
            continue
        ia = 'self.' + idx_attr[0]
        b = list(nx.body)
        # a character kept in the iterator and handed out again: every value yielded must be a new slice of the string
        kept = [r_ for r_ in nx.walk() if isinstance(r_, ast.Return) and r_.value is not None and re.match(r'^self\.\w+$', norm(r_.value)) and
                any(isinstance(w_, ast.Attribute) and isinstance(w_.ctx, ast.Store) and norm(w_.value) == norm(r_.value) for w_ in nx.walk())]
        if kept:
            R.viol(nx, kept[0], '__next__ returns %s, an object the iterator keeps and rewrites in place (%s) on later calls: the values already handed out change under '
                                'the caller -- list(s) holds the same object several times' % (norm(kept[0].value), norm(kept[0].value) + '.<field> = ...'), construct=cons)
            continue
        # `if T: return X` then `raise StopIteration` is `if not T: raise StopIteration` then `return X`
        if len(b) >= 2 and isinstance(b[-1], ast.Raise) and isinstance(b[-2], ast.If) and not b[-2].orelse and len(b[-2].body) == 1 and isinstance(b[-2].body[0], ast.Return):
            from ..model import negate
            g_ = ast.copy_location(ast.If(test=negate(b[-2].test), body=[b[-1]], orelse=[]), b[-2])
            ast.fix_missing_locations(g_)
            b = b[:-2] + [g_, b[-2].body[0]]
        # symbolic run of the straight-line body: the cursor c becomes c + 1 before it is used; StopIteration exactly when c + 1 >= len(s);
        # the value is s[c + 1]; the cursor starts at -1
        from .P_more import Sym, _sym_eval
        env = {ia: Sym({'c': 1})}
        guard_seen = False
        ret_seen = False
        k0 = idx_attr[1]        # the n-th call (n = 0, 1, ..) starts with the cursor at k0 + n and must yield s[n] = s[cursor - k0], stopping iff cursor - k0 >= len
        try:
            for st in b:
                if isinstance(st, ast.AugAssign) and isinstance(st.op, (ast.Add, ast.Sub)):
                    d = _sym_eval(st.value, env)
                    cur = _sym_eval(st.target, env)
                    env[norm(st.target)] = cur + d if isinstance(st.op, ast.Add) else cur - d
                elif isinstance(st, ast.Assign) and len(st.targets) == 1 and isinstance(st.targets[0], (ast.Name, ast.Attribute)):
                    env[norm(st.targets[0])] = _sym_eval(st.value, env)
                elif isinstance(st, ast.If) and any(isinstance(y, ast.Raise) for y in st.body) and not st.orelse:
                    t = st.test
                    neg = False
                    while isinstance(t, ast.UnaryOp) and isinstance(t.op, ast.Not):
                        neg, t = not neg, t.operand
                    if not (isinstance(t, ast.Compare) and len(t.ops) == 1):
                        raise Undecided('stop test %s' % short(st.test))
                    l_, r_ = t.left, t.comparators[0]
                    swapped = re.match(r'^len\(self\.\w+\)', norm(l_)) is not None
                    a_, len_ = (r_, l_) if swapped else (l_, r_)
                    # len side may carry a constant: len(s) - 1
                    lt = norm(len_)
                    mm = re.match(r'^len\(self\.\w+\)(?: ([+-]) (\d+))?$', lt)
                    if not mm:
                        raise Undecided('stop test %s' % short(st.test))
                    off = int(mm.group(2) or 0) * (1 if mm.group(1) == '+' else -1)
                    x = _sym_eval(a_, env) - Sym(c=off)           # compared with len(s)
                    regs = cmp_regions(t.ops[0], swapped)
                    if neg:
                        regs = {'<', '=', '>'} - regs
                    # x = c + k: "x in regs of len"; expected: stop iff c + 1 >= len
                    k = (x - Sym({'c': 1}))
                    if k.t:
                        raise Undecided('stop test %s' % short(st.test))
                    shift = k.c + k0          # x = (c - k0) + shift
                    want = {0: {'=', '>'}, -1: None, 1: {'>'}}.get(shift)      # q >= len  <=>  q + 1 > len
                    if want is None or regs != want:
                        problems.append('stops when %s; must stop exactly when the advanced cursor >= len' % short(st.test))
                    if not any(isinstance(y, ast.Raise) and 'StopIteration' in norm(y) for y in st.body):
                        problems.append('the stop is not StopIteration')
                    guard_seen = True
                elif isinstance(st, ast.Return):
                    rv = st.value
                    inner = rv.args[0] if (wrap and call_name(rv) == wrap and len(rv.args) == 1) else rv
                    if wrap and inner is rv:
                        problems.append('characters are not re-wrapped in %s' % wrap)
                    if not (isinstance(inner, ast.Subscript) and re.match(r'^self\.\w+$', norm(inner.value))) or isinstance(inner.slice, ast.Slice):
                        problems.append('yields %s, not the character at the cursor' % short(rv))
                    else:
                        at = _sym_eval(inner.slice, env)
                        if at != Sym({'c': 1}, -k0):
                            problems.append('yields the character at %r (c = cursor before the call, which starts at %d); expected c %+d' % (at, k0, -k0))
                        if env[ia] != Sym({'c': 1}, 1):
                            problems.append('the cursor is %r after a step; expected c + 1' % env[ia])
                        if not guard_seen:
                            problems.append('no StopIteration guard before the character is read')
                    ret_seen = True
                elif isinstance(st, ast.Expr) and isinstance(st.value, ast.Constant):
                    pass
                else:
                    raise Undecided('statement %s' % short(st))
            if not ret_seen:
                problems.append('returns nothing')
        except Undecided as ex:
            R.undecided(nx, nx.node, '__next__ not interpreted: %s' % ex, construct=cons)
            continue
        R.check(not problems, nx, nx.node, 'yields s[0], s[1], ... until len(s)', '; '.join(problems), construct=cons)
    # assign_str
    f = fn('assign_str')
    s = f.own_params()[0]
    cons = 'assign_str'
    selfn = f.self_name
    txt = '%s.%s' % (selfn, TEXT)
    tbl = '%s.%s' % (selfn, TABLE)
    from ..shapes import local_aliases, canon
    aal = local_aliases(f)      # cached lengths: sound here because the text is assigned last (checked below)

    def cn(x):
        return canon(x, aal)
    # the body is run for the three orderings of the new length against the old one (x end point present or not): a longer string moves
    # the point at the old length to the new length, a shorter one clips, nothing else touches the table -- whatever the if / elif shape
    NEWL, OLDL = 'len(%s)' % s, 'len(%s)' % txt
    problems = []
    move_txt = ('%s[%s]' % (tbl, NEWL), '%s.pop(%s)' % (tbl, OLDL))
    try:
        for region, rank in (('>', 2), ('=', 1), ('<', 0)):
            for present in (False, True):
                base = merge_valuations(order_valuation({NEWL: rank, OLDL: 1}),
                                        flag_valuation({}, {'%s in %s' % (OLDL, tbl): present, '%s not in %s' % (OLDL, tbl): not present,
                                                            # the table holds points (elsewhere, when none sits at the old end): the case a test of its
                                                            # mere non-emptiness cannot tell from "a point at the old end"
                                                            tbl: True, 'len(%s) > 0' % tbl: True, 'len(%s) != 0' % tbl: True, 'len(%s) == 0' % tbl: False}))

                def val(atom, base=base):
                    return base(subst(atom, aal))
                did = []

                def visit(st, did=did):
                    if isinstance(st, ast.Assign) and cn(st.targets[0]) == move_txt[0] and cn(st.value) == move_txt[1]:
                        did.append('move')
                    elif isinstance(st, ast.Expr) and isinstance(st.value, ast.Call) and call_name(st.value) == 'clip':
                        got, _ = _bound_texts(st.value, fn('clip'))
                        e_ = got.get('end')
                        if e_ in aal:
                            e_ = cn(aal[e_])
                        if e_ == NEWL and got.get('inplace') == 'True' and got.get('start') in (None, '0', 'None'):
                            did.append('clip')
                        else:
                            did.append('clip?' + short(st.value))
                    elif isinstance(st, ast.Assign) and isinstance(st.targets[0], ast.Name):
                        pass
                    elif isinstance(st, ast.Assign) and cn(st.targets[0]) == txt:
                        did.append('text')
                    elif isinstance(st, ast.Expr) and isinstance(st.value, ast.Constant):
                        pass
                    else:
                        did.append('other:' + short(st))
                run_block(f.body, val, visit)
                acts = [d_ for d_ in did if d_ != 'text']
                if region == '>' and present and acts != ['move']:
                    problems.append('for a longer string with a point at the old end the body does %s; it must move that point to the new end' % acts)
                if region == '>' and not present and acts not in ([], ):
                    problems.append('for a longer string without a point at the old end (formatting stops before the end of the text) the body does %s: '
                                    'nothing may be moved' % acts)
                if region == '<' and acts != ['clip']:
                    problems.append('for a shorter string the body does %s; it must clip(end=len(s), inplace=True)' % acts)
                if region == '=' and any(a_ not in ('move', 'clip') for a_ in acts):
                    problems.append('for a string of the same length the body does %s' % acts)
                if did and did[-1] != 'text' and 'text' in did:
                    problems.append('the text is assigned before the settings are adjusted')
    except Undecided as ex:
        R.undecided(f, f.node, 'assign_str not interpreted: %s' % ex, construct=cons)
        problems = None
    if problems is not None:
        problems = problems[:1]
    assigns = [x for x in f.body if isinstance(x, ast.Assign) and norm(x.targets[0]) == txt]
    if problems is not None:
        if not assigns or norm(assigns[-1].value) != s or f.body.index(assigns[-1]) != len(f.body) - 1:
            problems.append('the text is not assigned last (after the settings were adjusted against the old length)')
        R.check(not problems, f, f.node, 'assign_str: grow moves the end point, shrink clips, then the text is assigned', '; '.join(problems), construct=cons)
    # simplify
    f = fn('simplify')
    cons = 'simplify'
    problems = []
    filt = {}
    for n in f.walk():
        if isinstance(n, ast.Assign) and isinstance(n.targets[0], ast.Attribute) and isinstance(n.value, ast.ListComp):
            a = n.targets[0].attr
            g = n.value.generators[0]
            if isinstance(g.iter, ast.Attribute) and g.iter.attr == a and norm(g.iter.value) == norm(n.targets[0].value) and \
                    norm(n.value.elt) == norm(g.target) and len(g.ifs) == 1:
                filt[a] = norm(g.ifs[0]).replace(norm(g.target), '@')
    if set(filt) != {ro.START, ro.STOP}:
        problems.append('START and STOP lists are not both filtered (%s)' % sorted(filt))
    elif filt[ro.START] != filt[ro.STOP]:
        problems.append('START filtered by %s but STOP by %s: a stop marker would lose its start' % (filt[ro.START], filt[ro.STOP]))
    elif filt[ro.START] != '@.valid':
        problems.append('filter is %s, documented: drop settings that are not valid' % filt[ro.START])
    last = f.body[-1]
    from ..shapes import local_aliases as _la, canon as _cn
    last_txt = _cn(last.value, _la(f)) if isinstance(last, ast.Expr) else ''
    # (a local holding str(self) must be taken after the filtering: it is the statement just before)
    if isinstance(last, ast.Expr) and last_txt != norm(last.value):
        prev = f.body[-2] if len(f.body) >= 2 else None
        if not (isinstance(prev, ast.Assign) and isinstance(prev.targets[0], ast.Name) and prev.targets[0].id in names_in(last.value)):
            last_txt = norm(last.value)
    if not (isinstance(last, ast.Expr) and last_txt in ('%s.set_ansi_str(str(%s))' % (selfn, selfn), '%s.set_ansi_str(%s)' % (selfn, selfn),
                                                         '%s.set_ansi_str(%s.to_str())' % (selfn, selfn))):
        problems.append('does not finish by re-parsing its own default rendering (%s)' % short(last))
    R.check(not problems, f, f.node, 'simplify filters START and STOP by .valid, then re-parses str(self)', '; '.join(problems), construct=cons)
    # partition / rpartition: the tuple returned when the separator is found / absent (any control-flow shape)
    for name, finder in (('partition', 'find'), ('rpartition', 'rfind')):
        f = fn(name)
        sep = f.own_params()[0]
        selfn = f.self_name
        cons = name
        problems = []
        search = next((n for n in f.body if isinstance(n, ast.Assign) and isinstance(n.targets[0], ast.Name) and isinstance(n.value, ast.Call) and
                       call_name(n.value) in ('find', 'rfind', 'index', 'rindex')), None)
        if search is None:
            R.undecided(f, f.node, 'no search of the separator', construct=cons)
            continue
        idx = search.targets[0].id
        sc = search.value
        if sc.func.attr != finder or norm(sc.func.value) != '%s.%s' % (selfn, TEXT) or [norm(a) for a in sc.args] != [sep]:
            problems.append('searches with %s, expected %s.%s.%s(%s)' % (short(sc), selfn, TEXT, finder, sep))
        rest = f.body[f.body.index(search) + 1:]
        outcome = {}
        try:
            for label, rank in (('found', 0), ('absent', -1)):
                env = {}
                got = []

                def visit(st):
                    if isinstance(st, ast.Assign) and isinstance(st.targets[0], ast.Name):
                        env[st.targets[0].id] = subst(st.value, env)
                    elif isinstance(st, ast.Return):
                        got.append(subst(st.value, env) if st.value is not None else None)
                out = run_block(rest, order_valuation({idx: rank}), visit)
                outcome[label] = got[-1] if got else None
        except Undecided as e:
            R.undecided(f, f.node, 'found / absent split not decided: %s' % e, construct=cons)
            continue
        L = 'len(%s)' % sep
        fr = outcome.get('found')
        if isinstance(fr, (ast.Tuple, ast.List)) and len(fr.elts) == 3:
            parts = [norm(x) for x in fr.elts]
            want = [('%s[0:%s]' % (selfn, idx), '%s[:%s]' % (selfn, idx)),
                    ('%s[%s:%s + %s]' % (selfn, idx, idx, L),),
                    ('%s[%s + %s:]' % (selfn, idx, L),)]
            for got_, w in zip(parts, want):
                if got_ not in w:
                    problems.append('piece %s, expected %s' % (got_, w[0]))
        else:
            problems.append('separator found: returns %s, expected the three slices' % (short(fr) if fr is not None else None))
        ar = outcome.get('absent')
        if not isinstance(ar, (ast.Tuple, ast.List)) or \
                [norm(x) for x in ar.elts] not in (['%s.copy()' % selfn, 'AnsiString()', 'AnsiString()'], ['AnsiString(%s)' % selfn, 'AnsiString()', 'AnsiString()']):
            problems.append('separator absent: returns %s, documented (copy, empty, empty)' % (short(ar) if ar is not None else None))
        R.check(not problems, f, f.node, '%s: TEXT.%s(sep); (s[0:i], s[i:i+len(sep)], s[i+len(sep):]) or (copy, "", "")' % (name, finder),
                '; '.join(problems), construct=cons)
    # removeprefix / removesuffix
    for name, test, want in (('removeprefix', 'startswith', {'start': 'len(%s)', 'inplace': 'inplace'}),
                             ('removesuffix', 'endswith', {'end': '-len(%s)', 'inplace': 'inplace'})):
        f = fn(name)
        p = f.own_params()[0]
        selfn = f.self_name
        cons = name
        problems = []
        tests = [n for n in f.walk() if isinstance(n, ast.Call) and call_name(n) in ('startswith', 'endswith')]
        if not tests or tests[0].func.attr != test or norm(tests[0].func.value) != '%s.%s' % (selfn, TEXT) or [norm(a) for a in tests[0].args] != [p]:
            problems.append('tests %s, expected %s.%s.%s(%s)' % (short(tests[0]) if tests else None, selfn, TEXT, test, p))
        clips = [n for n in f.walk() if isinstance(n, ast.Call) and call_name(n) == 'clip']
        if len(clips) != 1:
            problems.append('%d clip calls' % len(clips))
        else:
            got, _ = _bound_texts(clips[0], fn('clip'))
            w = {k: (v % p if '%s' in v else v) for k, v in want.items()}
            got = {k: v for k, v in got.items() if v not in ('None',)}
            if got != w:
                problems.append('clips with %s, expected %s' % (got, w))
        R.check(not problems, f, f.node, '%s: if TEXT.%s(x) clip(%s)' % (name, test, want), '; '.join(problems), construct=cons)
    # _split / splitlines: which str method produces the pieces, with which arguments (the offsets are rule P14's)
    for name in ('_split', 'splitlines'):
        f = fn(name)
        selfn = f.self_name
        cons = name + ' pieces'
        problems = []
        ps = f.own_params()
        splitcalls = [n for n in f.walk() if isinstance(n, ast.Call) and call_name(n) in ('split', 'rsplit', 'splitlines') and
                      isinstance(n.func, ast.Attribute) and norm(n.func.value) == '%s.%s' % (selfn, TEXT)]
        if name == '_split':
            kinds = sorted(c.func.attr for c in splitcalls)
            if kinds != ['rsplit', 'split']:
                problems.append('text split by %s, expected str.split and str.rsplit' % kinds)
            for c in splitcalls:
                if [norm(a) for a in c.args] != ps[:2] or c.keywords:
                    problems.append('%s called with (%s), expected (%s)' % (c.func.attr, ', '.join(norm(a) for a in c.args), ', '.join(ps[:2])))
            # r selects rsplit: an if statement or a conditional expression on r
            sel = None
            for n in f.walk():
                if isinstance(n, (ast.If, ast.IfExp)) and ps[2] in names_in(n.test):
                    v = eval_guard(n.test, flag_valuation({ps[2]: True}))
                    arm = (n.body if v else n.orelse)
                    arm = arm if isinstance(arm, list) else [arm]
                    sel = [c.func.attr for c in splitcalls if any(c is x for a_ in arm for x in ast.walk(a_))]
                    if v is None:
                        sel = None
                    break
            if sel != ['rsplit']:
                problems.append('r=True selects %s, expected str.rsplit' % sel)
        else:
            if len(splitcalls) != 1 or splitcalls[0].func.attr != 'splitlines' or [norm(a) for a in splitcalls[0].args] != ps[:1]:
                problems.append('text not split by str.splitlines(%s)' % ps[0])
        R.check(not problems, f, f.node, '%s: the pieces come from the same str method with the caller\'s arguments' % name, '; '.join(problems), construct=cons)
    for name, r in (('split', 'False'), ('rsplit', 'True')):
        f = fn(name)
        expr, ret = single_return(f)
        if expr is None:
            R.undecided(f, f.node, 'not a single return', construct=name)
            continue
        sp = fn('_split')
        sps = sp.own_params()
        _expect_call(R, f, ret, expr, sp, {sps[0]: f.own_params()[0], sps[1]: f.own_params()[1], sps[2]: r}, '%s is _split(sep, maxsplit, %s)' % (name, r), name,
                     recv=f.self_name)
    # replace: the three replacement forms, the rebuild, the search
    f = fn('replace')
    old, new, count, inplace = f.own_params()[:4]
    selfn = f.self_name
    loops = [n for n in f.walk() if isinstance(n, ast.While)]
    if len(loops) != 1:
        R.undecided(f, f.node, '%d while loops in replace' % len(loops), construct='replace')
    else:
        lp = loops[0]
        # working object
        rebuild = [n for n in ast.walk(lp) if isinstance(n, ast.Assign) and isinstance(n.value, ast.BinOp) and len(flatten_add(n.value)) == 3]
        problems = []
        if len(rebuild) != 1:
            problems.append('no unique `obj = obj[:idx] + replacement + obj[idx+len(old):]`')
        else:
            rb = rebuild[0]
            obj = norm(rb.targets[0])
            a, b_, c = flatten_add(rb.value)
            idxs = None
            if isinstance(a, ast.Subscript) and isinstance(a.slice, ast.Slice) and norm(a.value) == obj and a.slice.lower is None:
                idxs = norm(a.slice.upper)
            if idxs is None:
                problems.append('head is %s, expected %s[:idx]' % (short(a), obj))
            else:
                if not (isinstance(c, ast.Subscript) and norm(c.value) == obj and isinstance(c.slice, ast.Slice) and c.slice.upper is None and
                        norm(c.slice.lower) in ('%s + len(%s)' % (idxs, old), 'len(%s) + %s' % (old, idxs))):
                    problems.append('tail is %s, expected %s[%s + len(%s):]' % (short(c), obj, idxs, old))
                repl = norm(b_)
                # replacement forms
                forms = {}
                for n in ast.walk(lp):
                    if isinstance(n, ast.Assign) and norm(n.targets[0]) == repl:
                        forms[norm(n.value)] = n
                chain = next((n for n in lp.body if isinstance(n, ast.If) and any(isinstance(x, ast.Assign) and norm(x.targets[0]) == repl for x in ast.walk(n))), None)
                arms = {}
                cur = chain
                while cur is not None:
                    t = cur.test
                    key = None
                    if call_name(t) == 'isinstance' and norm(t.args[0]) == new:
                        key = norm(t.args[1])
                    val = next((norm(x.value) for x in cur.body if isinstance(x, ast.Assign) and norm(x.targets[0]) == repl), None)
                    arms[key] = val
                    if len(cur.orelse) == 1 and isinstance(cur.orelse[0], ast.If):
                        cur = cur.orelse[0]
                    else:
                        arms['<else>'] = next((norm(x.value) for x in cur.orelse if isinstance(x, ast.Assign) and norm(x.targets[0]) == repl), None)
                        cur = None
                want_str = 'AnsiString(%s, %s.ansi_settings_at(%s))' % (new, obj, idxs)
                if arms.get('str') != want_str:
                    problems.append('plain-str replacement is %s, expected %s (settings of the first matched character)' % (arms.get('str'), want_str))
                if 'AnsiStr' in arms:
                    if arms['AnsiStr'] not in ('AnsiString(%s)' % new, '%s.%s.copy()' % (new, ro.WRAPPED)):
                        problems.append('AnsiStr replacement is %s, expected a converted copy' % arms['AnsiStr'])
                    ks = list(arms)
                    if 'str' in ks and ks.index('AnsiStr') > ks.index('str'):
                        problems.append('isinstance(new, str) is tested before AnsiStr (an AnsiStr is a str: its settings would be lost)')
                elif arms.get('<else>') not in (new, 'AnsiString(%s)' % new):
                    problems.append('no arm converts an AnsiStr replacement')
                if arms.get('<else>') not in (new, 'AnsiString(%s)' % new, '%s.copy()' % new):
                    problems.append('AnsiString replacement arm is %s' % arms.get('<else>'))
            # search: first find(old) from 0; next from idx + len(new) (+1 iff old empty)
            finds = [n for n in f.walk() if isinstance(n, ast.Assign) and isinstance(n.value, ast.Call) and call_name(n.value) == 'find']
            first = [n for n in finds if n not in list(ast.walk(lp))]
            if len(first) != 1 or [norm(a_) for a_ in first[0].value.args] != [old] or not norm(first[0].value.func.value).endswith('.' + TEXT):
                problems.append('initial search is %s, expected TEXT.find(%s)' % ([short(n) for n in first], old))
        R.check(not problems, f, lp, 'replace: obj = obj[:idx] + repl + obj[idx+len(old):] with the three replacement forms', '; '.join(problems), construct='replace rebuild')
        # the text changes only through the rebuild (slices + concatenation carry the settings along); the one other write is the
        # in-place hand-over `self.TEXT = obj.TEXT; self.TABLE = obj.TABLE` of the rebuilt object
        work = norm(rebuild[0].targets[0]) if len(rebuild) == 1 else None
        raw, transfer = [], {}
        for n in f.walk():
            tg = n.targets[0] if isinstance(n, ast.Assign) else n.target if isinstance(n, ast.AugAssign) else None
            if isinstance(tg, ast.Attribute) and tg.attr in (TEXT, TABLE):
                if isinstance(n, ast.Assign) and is_name(tg.value, selfn) and work is not None and norm(n.value) == '%s.%s' % (work, tg.attr):
                    transfer[tg.attr] = n
                elif tg.attr == TEXT:
                    raw.append(n)
        R.check(not raw, f, raw[0] if raw else lp, 'the text is only ever changed by rebuilding the string from slices',
                '`%s` rewrites the text directly: the settings stay where they were, so replaced characters keep the settings of the old ones' % (short(raw[0]) if raw else ''),
                construct='replace raw text write')
        # in-place hand-over, by paths: with inplace=True every return is the receiver after both assignments; with inplace=False none is reached
        from ..cfg import CFG, paths, PathExplosion
        cfg_ = CFG(f.node, f.body)
        problems = []
        try:
            for flag in (True, False):
                for pth, _e in paths(cfg_, cfg_.entry, None, env0={inplace: flag}, max_visits=1, limit=100000):
                    if pth[-1].kind != 'exit':
                        continue
                    done = {a for a, n_ in transfer.items() if any(nd.stmt is n_ for nd in pth)}
                    ret = next((nd for nd in reversed(pth) if nd.kind == 'return'), None)
                    if flag:
                        if ret is not None and is_name(ret.stmt.value, selfn) and done != {TEXT, TABLE} and work != selfn:
                            # returning the receiver untouched is right only when nothing was replaced: the working object is still the receiver's copy
                            touched = any(nd.stmt is rebuild[0] for nd in pth) if len(rebuild) == 1 else True
                            if touched:
                                problems.append('with inplace=True a path returns the receiver without taking over %s of the rebuilt object' % sorted({TEXT, TABLE} - done))
                        if ret is not None and not is_name(ret.stmt.value, selfn) and any(nd.stmt is rebuild[0] for nd in pth if len(rebuild) == 1):
                            problems.append('with inplace=True a path returns %s instead of the receiver' % norm(ret.stmt.value))
                    elif done:
                        problems.append('with inplace=False the receiver takes over %s' % sorted(done))
                    if problems:
                        break
                if problems:
                    break
        except PathExplosion:
            problems = None
        if problems is None:
            R.undecided(f, f.node, 'too many paths through replace', construct='replace inplace')
        else:
            R.check(not problems, f, f.node, 'in place: the receiver takes over text and table of the rebuilt object and is returned', '; '.join(problems[:1]),
                    construct='replace inplace')
    # SCRUB: integer runs -> parse_graphic_sequence(run, True) at both sites; name lookup normalisation
    P = m.cls(ro.POINT)
    f = m.fn('%s.%s' % (ro.POINT, ro.SCRUB))
    pgs = m.fn('parse_graphic_sequence')
    from ..shapes import with_helpers
    calls = [c for g_ in with_helpers(m, f, 1) if g_.name != '_scrub_ansi_format_string' for c in _calls(g_, 'parse_graphic_sequence')]
    ok = len(calls) >= 1
    from .P_more2 import erroneous_polarity
    pol = erroneous_polarity(m)
    keep = 'True' if pol is None else str(pol)      # the value of the flag under which unknown codes are kept (the parameter may have the opposite sense)
    for c in calls:
        got, _ = _bound_texts(c, pgs)
        gv = got.get(pgs.params[1])
        if gv is None and pgs.defaults.get(pgs.params[1]) is not None:
            gv = norm(pgs.defaults.get(pgs.params[1]))
        if gv != keep:
            ok = False
    R.check(ok, f, calls[0] if calls else f.node, 'integer runs are parsed with %s=%s (unknown codes kept verbatim)' % (pgs.params[1], keep),
            'an integer run is parsed with %s=%s, under which parse_graphic_sequence drops what it cannot determine: unknown codes given as integers vanish silently' % (
                pgs.params[1], [_bound_texts(c, pgs)[0].get(pgs.params[1]) for c in calls]), construct='scrub int runs')
    fs = m.fn('%s._scrub_ansi_format_string' % ro.POINT)
    look = [n for n in fs.walk() if isinstance(n, ast.Subscript) and is_name(n.value, 'AnsiFormat')]
    ok = False
    if look:
        e = look[0].slice
        ops = []
        while isinstance(e, ast.Call) and isinstance(e.func, ast.Attribute):
            ops.append((e.func.attr, tuple(const_val(a) for a in e.args)))
            e = e.func.value
        ok = ('upper', ()) in ops and ('replace', (' ', '_')) in ops and ('replace', ('-', '_')) in ops and len(ops) == 3
    R.check(ok, fs, look[0] if look else fs.node, "names are looked up upper-cased with ' ' and '-' read as '_'",
            'name lookup key is %s' % (short(look[0].slice) if look else None), construct='scrub name lookup')
    vb = [n for n in fs.walk() if isinstance(n, ast.If) and call_name(n.test) == 'startswith']
    ok = bool(vb) and const_val(vb[0].test.args[0]) == '[' and any(
        isinstance(x, ast.Return) and norm(x.value) == '[AnsiSetting(%s[1:])]' % fs.params[0] for x in vb[0].body)
    R.check(ok, fs, vb[0] if vb else fs.node, "a string starting with '[' is used verbatim without the bracket", construct='scrub verbatim')


def _returns_self(f):
    """an __iter__ that is `return self`"""
    if f is None:
        return False
    rets = [n for n in f.walk() if isinstance(n, ast.Return)]
    return len(rets) == 1 and is_name(rets[0].value, f.self_name)


def _parents(n):
    while getattr(n, '_parent', None) is not None:
        n = n._parent
        yield n


def _src_of(text):
    """`list(x)` / `x[:]` / `x.copy()` / `x` -> x  (freshness is rule E5's business)."""
    if text is None:
        return None
    mm = re.match(r'^list\((.+)\)$', text) or re.match(r'^(.+)\[:\]$', text) or re.match(r'^(.+)\.copy\(\)$', text)
    return mm.group(1) if mm else text


# ------------------------------------------------------------------------------------------------------------------
# D7 pad siblings

@rule('D7', 'pad-siblings: ljust / rjust / center share one skeleton; the three alignment blocks of the format spec agree', floor=10)
def D7(m, R):
    ro = m.roles
    TEXT = ro.TEXT

    def fn(n):
        return m.fn('AnsiString.' + n)
    for name in ('ljust', 'rjust', 'center'):
        f = fn(name)
        width, fill = f.own_params()[:2]
        body = f.body
        # (1) validation first
        cons = name + ' fillchar guard'
        g = body[0] if body else None
        ok = isinstance(g, ast.If) and isinstance(g.test, ast.Compare) and len(g.test.ops) == 1 and \
            {norm(g.test.left), norm(g.test.comparators[0])} == {'len(%s)' % fill, '1'} and isinstance(g.test.ops[0], ast.NotEq) and \
            any(isinstance(x, ast.Raise) and call_name(x.exc) == 'ValueError' for x in g.body)
        R.check(ok, f, g or f.node, 'a fill of any length but 1 raises ValueError before anything is touched', construct=cons)
        # (2) switch
        var, rest, problems = inplace_switch(body[1:], f.self_name)
        cons = name + ' skeleton'
        deleg = [n for n in f.walk() if isinstance(n, ast.Call) and isinstance(n.func, ast.Attribute) and n.func.attr == 'center'
                 and norm(n.func.value).endswith('.' + TEXT)] if name == 'center' else []
        if deleg:
            R.viol(f, deleg[0], 'the padded text is taken from str.center (%s): when the padding and the width are both odd str.center puts the extra fill character on the '
                                'LEFT ("ab".center(5, "*") == "**ab*") while format() puts it on the right (format("ab", "*^5") == "*ab**")' % short(deleg[0]),
                   construct=cons)
            continue
        if var is None:
            R.undecided(f, f.node, 'in-place switch not recognised', construct=cons)
            continue
        problems = list(problems)
        txt = '%s.%s' % (var, TEXT)
        env = {}
        act = None
        for st in rest:
            if isinstance(st, ast.Assign) and isinstance(st.targets[0], ast.Name):
                env[st.targets[0].id] = subst(st.value, env)
            elif isinstance(st, ast.If):
                act = st
        rets = [st for st in rest if isinstance(st, ast.Return)]
        if not rets or norm(rets[-1].value) != var:
            problems.append('returns %s, not %s' % (short(rets[-1].value) if rets else None, var))
        if act is None:
            problems.append('no guarded padding block')
            R.check(False, f, f.node, '', '; '.join(problems), construct=cons)
            continue
        # num = width - len(TEXT): evaluate the guard on the three sign regions of (width - old_len)
        t = subst(act.test, env)
        from ..finite import int_eval
        acts = {}
        try:
            for numv in range(-3, 4):
                acts[numv] = bool(int_eval(t, {'%s - len(%s)' % (width, txt): numv, width: numv, 'len(%s)' % txt: 0}))
        except Undecided as e:
            R.undecided(f, act, 'guard %s: %s' % (short(t), e), construct=cons)
            continue
        miss = [k for k in acts if k >= 1 and not acts[k]]
        neg = [k for k in acts if k <= -1 and acts[k]]
        if miss:
            problems.append('does not pad when width exceeds the length by %s (guard %s)' % (miss, short(act.test)))
        if neg:
            problems.append('pads / shifts when width is below the length (guard %s): a negative count reaches the shift' % short(act.test))
        # text assembly
        env2 = dict(env)
        tassign = None
        for st in act.body:
            if isinstance(st, ast.Assign) and isinstance(st.targets[0], ast.Name):
                env2[st.targets[0].id] = subst(st.value, env2)
            elif isinstance(st, ast.Assign) and norm(st.targets[0]) == txt and tassign is None:
                tassign = st.value
            elif isinstance(st, ast.AugAssign) and norm(st.target) == txt and isinstance(st.op, ast.Add) and tassign is None:
                tassign = ast.BinOp(left=st.target, op=ast.Add(), right=st.value)
        if tassign is None:
            problems.append('the text is not extended')
        else:
            num = '%s - len(%s)' % (width, txt)
            parts = []
            for p in flatten_add(tassign):
                p2 = p
                tp = norm(p)
                if tp == txt:
                    parts.append('TEXT')
                elif isinstance(p, ast.BinOp) and isinstance(p.op, ast.Mult):
                    a, b = p.left, p.right
                    if norm(b) == fill:
                        a, b = b, a
                    if norm(a) == fill:
                        cnt = norm(subst(b, env2))
                        parts.append(cnt)
                    else:
                        parts.append('?' + tp)
                else:
                    parts.append('?' + tp)
            left_forms = ('math.floor((%s) / 2)' % num, 'math.floor(%s / 2)' % num, '(%s) // 2' % num, 'int((%s) / 2)' % num)
            nn = '(%s)' % num
            left_forms = tuple(x.replace('((', '(').replace('))', ')') for x in left_forms) + left_forms + (
                'math.floor((%s) / 2)' % num,)
            if name == 'ljust':
                ok = parts == ['TEXT', num]
            elif name == 'rjust':
                ok = parts == [num, 'TEXT']
            else:
                ok = len(parts) == 3 and parts[1] == 'TEXT' and _is_floor_half(parts[0], num) and \
                    parts[2] in ('%s - %s' % (num, parts[0]), '%s - (%s)' % (num, parts[0]))
            if not ok:
                problems.append('text becomes %s' % ' + '.join(parts))
        R.check(not problems, f, act, '%s pads only for width > len with %s' % (name, {'ljust': 'TEXT + fill*num', 'rjust': 'fill*num + TEXT',
                'center': 'fill*floor(num/2) + TEXT + fill*(num - floor(num/2))'}[name]), '; '.join(problems), construct=cons)
    # ---- the three blocks of _apply_string_format
    from .T9 import _pattern_assigns, _block_after
    from .. import regexast
    f = fn('_apply_string_format')
    fmt, settings = f.own_params()[:2]
    selfn = f.self_name
    blocks = []
    for st, var, pat, subj in _pattern_assigns(f):
        try:
            ch = regexast.alignment_char(pat)
        except Exception:
            ch = None
        blk = _block_after(f, st)
        if blk is None:
            continue
        blocks.append((ch, var, blk, st))
    pads = [b for b in blocks if b[0] is not None]
    if len(pads) != 3:
        R.undecided(f, f.node, '%d alignment blocks recognised' % len(pads), construct='_apply_string_format blocks')
    for ch, var, blk, st in pads:
        cons = "format block '%s'" % ch
        problems = []
        # locate extend flag assignment and its truth table over SIGN in {'', '+', '-'}
        ext = None
        for s_ in blk.body:
            if isinstance(s_, ast.Assign) and isinstance(s_.targets[0], ast.Name) and ('group' in norm(s_.value)) and \
                    isinstance(s_.value, (ast.BoolOp, ast.Compare, ast.UnaryOp)):
                ext = s_
        if ext is None:
            R.undecided(f, blk, 'extend-flag assignment not found', construct=cons)
            continue
        ev = ext.targets[0].id
        sign_call = None
        for n in ast.walk(ext.value):
            if isinstance(n, ast.Call) and isinstance(n.func, ast.Attribute) and n.func.attr == 'group':
                sign_call = norm(n)
        tt = {}
        for sv in ('', '+', '-'):
            extra = {sign_call: bool(sv), 'not ' + sign_call: not sv}
            for lit in ('+', '-', ''):
                extra["%s == %r" % (sign_call, lit)] = (sv == lit)
                extra["%s != %r" % (sign_call, lit)] = (sv != lit)
            tt[sv] = eval_guard(ext.value, flag_valuation({}, extra))
        if tt != {'': True, '+': True, '-': False}:
            problems.append("extend flag over sign ''/'+'/'-' is %s, documented True/True/False" % tt)
        # order of events under extend in {T, F}
        for extend in (True, False):
            events = []

            def visit(s_):
                if isinstance(s_, ast.Expr) and isinstance(s_.value, ast.Call) and isinstance(s_.value.func, ast.Attribute) and \
                        is_name(s_.value.func.value, selfn):
                    events.append((s_.value.func.attr, s_.value))
            widthv = None
            for s_ in blk.body:
                if isinstance(s_, ast.Assign) and isinstance(s_.targets[0], ast.Name) and norm(s_.value) == '%s.group(3)' % var or \
                        (isinstance(s_, ast.Assign) and isinstance(s_.targets[0], ast.Name) and re.match(r'^%s\.group\(\d\)$' % var, norm(s_.value))):
                    widthv = s_.targets[0].id
            flags = {ev: extend, settings: True}
            if widthv:
                flags[widthv] = True
            try:
                gx = {'%s.group(%d)' % (var, k_): True for k_ in (1, 2, 3)}          # the width group is given (its role is checked by T9)
                out = run_block([s_ for s_ in blk.body if s_ is not ext], flag_valuation(flags, gx), visit)
            except Undecided as ex:
                R.undecided(f, blk, str(ex), construct=cons)
                events = None
                break
            names = [e[0] for e in events]
            want_m = {'<': 'ljust', '>': 'rjust', '^': 'center'}[ch]
            if want_m not in names:
                problems.append('extend=%s: no %s call' % (extend, want_m))
                continue
            i = names.index(want_m)
            before = [n for n in names[:i] if n == 'apply_formatting']
            after = [n for n in names[i + 1:] if n == 'apply_formatting']
            if extend and not after:
                problems.append('extending: the settings are not applied after the padding (fill characters stay unformatted)')
            if not extend and not before:
                problems.append('not extending: the settings are not applied before the padding')
            if not extend and after:
                problems.append('not extending: the settings are applied after the padding (fill characters get formatted)')
            if out != 'return':
                problems.append('block does not end in return (falls into the next pattern)')
            # pad call arguments
            pc = events[i][1]
            pm = fn(want_m)
            got, _ = _bound_texts(pc, pm)
            wv = widthv or '?'
            want = {'width': 'int(%s)' % wv, 'inplace': 'True', 'extend_formatting': ev}
            for k, v in want.items():
                if k == 'width' and widthv is None and re.match(r'^int\(%s\.group\(\d\)\)$' % re.escape(var), got.get(k) or ''):
                    continue
                if got.get(k) != v:
                    problems.append('pad called with %s=%s, expected %s' % (k, got.get(k), v))
            fc = got.get('fillchar', '')
            if not re.match(r"^%s\.group\(\d\) or ' '$" % var, fc):
                problems.append("fill is %s, expected <fill group> or ' '" % fc)
            for ap in [e[1] for e in events if e[0] == 'apply_formatting']:
                if [norm(a) for a in ap.args] != [settings] or ap.keywords:
                    problems.append('apply_formatting called with (%s), expected the whole string (%s)' % (', '.join(norm(a) for a in ap.args), settings))
        if events is None:
            continue
        R.check(not problems, f, blk, "'%s': extend = sign in ('', '+'); not extend => apply before pad only; extend => apply after pad" % ch,
                '; '.join(sorted(set(problems))), construct=cons)
    # every path ends in return inside a block or in raise ValueError
    last = f.body[-1]
    ok = isinstance(last, ast.Raise) and call_name(last.exc) == 'ValueError'
    raises = [n for n in f.walk() if isinstance(n, ast.Raise)]
    ok = ok and all(call_name(r.exc) == 'ValueError' for r in raises)
    R.check(ok, f, last, 'a spec outside the grammar raises ValueError', 'the function can fall off its end / raises another type', construct='format grammar fallthrough')


def _is_floor_half(text, num):
    t = text.replace(' ', '')
    n = num.replace(' ', '')
    return t in ('math.floor((%s)/2)' % n, 'math.floor(%s/2)' % n, '(%s)//2' % n, 'int((%s)/2)' % n, 'int(%s/2)' % n)

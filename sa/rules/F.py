"""F rules: finite-domain evaluation of guards and index arithmetic."""
import ast
import re

from ..model import AnalysisError, norm, short, call_name, const_val, flatten_add, is_attr, is_name, names_in
from ..report import rule
from ..consteval import get_folder, Unfoldable, EnumRef
from ..cfg import CFG, paths, PathExplosion, default_transfer
from ..finite import (eval_guard, flag_valuation, order_valuation, run_block, Undecided, cmp_regions, region_table,
                      evaluated_atoms, merge_valuations)
from ..linform import (Interp, Lin, NONE, REGIONS_POS, REGIONS_ZERO, expected_clamp, equal_in_region, cmp_in_region)
from ..shapes import bind_call, subst
from .P import _parents, _path_text


def _normalise_calls(m, f):
    """{target name: (assign stmt, value-arg node, default-arg node)} for `x = self.NORMALISE(value, default)`."""
    ro = m.roles
    out = {}
    for n in f.walk():
        if isinstance(n, ast.Assign) and len(n.targets) == 1 and isinstance(n.targets[0], ast.Name) and isinstance(n.value, ast.Call) \
                and call_name(n.value) == ro.NORMALISE and len(n.value.args) == 2:
            out.setdefault(n.targets[0].id, (n, n.value.args[0], n.value.args[1]))
    return out


@rule('F2', 'normaliser-exact: the bound normaliser equals Python\'s slice clamp on every region; every index parameter passes '
            'through it; defaults are 0 / len(text)', floor=10)
def F2(m, R):
    ro = m.roles
    f = m.fn('AnsiString.' + ro.NORMALISE)
    val, default = f.own_params()[:2]
    L = 'len(%s.%s)' % (f.self_name, ro.TEXT)
    pending_regions = []
    for lzero, regions in ((False, REGIONS_POS), (True, REGIONS_ZERO)):
        for region in regions:
            cons = 'normalise %s%s' % (region, ' (empty text)' if lzero else '')
            env = {val: NONE if region == 'None' else Lin(1, 0, 0), default: Lin(0, 0, 7)}   # default: an opaque constant
            it = Interp(region, lzero, env, {L, 'self.__len__()', 'len(self)'})
            try:
                kind, got = it.run(f.body)
            except Undecided as e:
                pending_regions.append((cons, 'region %s: %s' % (region, e)))
                continue
            want = expected_clamp(region, lzero, Lin(0, 0, 7))
            if kind != 'return':
                R.viol(f, f.node, 'region %s: the function falls off its end (returns None)' % region, construct=cons)
                continue
            ok = equal_in_region(got, want, region, lzero)
            R.check(ok, f, f.node, 'region %s -> %r' % (region, want),
                    'for a value in region %s%s the normaliser returns %r; Python\'s slice rule gives %r (an index beyond the text would '
                    'become a table key)' % (region, ' of an empty text' if lzero else '', got, want), construct=cons)
    # ---- exhaustive integer evaluation on a box that is complete for piecewise-linear maps whose breakpoints are c, +-L + c with
    # |c| <= C (C = largest literal in the function): two such maps that agree on [-L-C-3, L+C+3] for L in 0..2C+4 agree everywhere.
    consts = [abs(c.value) for c in ast.walk(f.node) if isinstance(c, ast.Constant) and isinstance(c.value, int) and not isinstance(c.value, bool)]
    C = max(consts + [1])
    cons = 'normalise integer box'
    if C > 6:
        R.undecided(f, f.node, 'literal %d in the normaliser: box too large' % C, construct=cons)
    else:
        from ..finite import int_eval, ZeroDiv
        bad = None
        n_pts = 0

        def run_int(stmts, env):
            for st in stmts:
                if isinstance(st, ast.If):
                    t = st.test
                    # `x is None`
                    def tv(t):
                        if isinstance(t, ast.Compare) and len(t.ops) == 1 and isinstance(t.ops[0], (ast.Is, ast.IsNot)) and norm(t.comparators[0]) == 'None':
                            isn = env.get(norm(t.left), 0) is None
                            return isn if isinstance(t.ops[0], ast.Is) else not isn
                        if isinstance(t, ast.BoolOp):
                            vs = [tv(x) for x in t.values]
                            return all(vs) if isinstance(t.op, ast.And) else any(vs)
                        if isinstance(t, ast.UnaryOp) and isinstance(t.op, ast.Not):
                            return not tv(t.operand)
                        if isinstance(t, ast.Name) and t.id in env:
                            return bool(env[t.id])            # truthiness: None and 0 are false
                        return bool(int_eval(t, {k: v for k, v in env.items() if v is not None}))
                    r = run_int(st.body if tv(t) else st.orelse, env)
                    if r is not None:
                        return r
                elif isinstance(st, ast.Return):
                    return ('ret', ev_int(st.value, env))
                elif isinstance(st, ast.Assign) and isinstance(st.targets[0], ast.Name):
                    env[st.targets[0].id] = ev_int(st.value, env)
                elif isinstance(st, ast.AugAssign) and isinstance(st.target, ast.Name) and isinstance(st.op, (ast.Add, ast.Sub)):
                    d = ev_int(st.value, env)
                    env[st.target.id] = env[st.target.id] + d if isinstance(st.op, ast.Add) else env[st.target.id] - d
                else:
                    raise Undecided('statement %s' % short(st))
            return None

        def ev_int(e, env):
            if isinstance(e, ast.Name) and env.get(e.id, 0) is None:
                return None
            if isinstance(e, ast.Constant) and e.value is None:
                return None
            if isinstance(e, ast.Call) and call_name(e) in ('min', 'max') and len(e.args) == 2:
                a, b = ev_int(e.args[0], env), ev_int(e.args[1], env)
                return min(a, b) if call_name(e) == 'min' else max(a, b)
            if isinstance(e, ast.IfExp):
                return ev_int(e.body, env) if int_eval(e.test, {k: v for k, v in env.items() if v is not None}) else ev_int(e.orelse, env)
            return int_eval(e, {k: v for k, v in env.items() if v is not None})
        try:
            for Lv in range(0, 2 * C + 5):
                for v in [None] + list(range(-Lv - C - 3, Lv + C + 4)):
                    for dflt in (0, Lv):
                        n_pts += 1
                        env = {val: v, default: dflt, L: Lv, 'len(self)': Lv}
                        try:
                            r = run_int(f.body, env)
                            got = r[1] if r else None
                        except ZeroDiv:
                            got = 'ZeroDivisionError raised'
                        want = dflt if v is None else range(Lv)[slice(v, None)].start if False else None
                        if v is None:
                            want = dflt
                        else:
                            want = slice(v, None).indices(Lv)[0]
                        if got != want and bad is None:
                            bad = (Lv, v, dflt, got, want)
        except Undecided as e:
            R.undecided(f, f.node, str(e), construct=cons)
            bad = 'undecided'
        for rc, msg in pending_regions:
            if bad == 'undecided':
                R.undecided(f, f.node, msg, construct=rc)
            else:
                R.ok(f, f.node, '%s -- not decided symbolically; decided by the integer box' % msg, construct=rc)
        pending_regions = []
        if bad != 'undecided':
            R.check(bad is None, f, f.node, 'equals Python\'s slice-bound rule on all %d points of the complete box' % n_pts,
                    'for a text of length %s, value %s (default %s) the normaliser returns %s; a Python slice bound gives %s' % (bad or (0,) * 5), construct=cons)
    for rc, msg in pending_regions:
        R.undecided(f, f.node, msg, construct=rc)
    # ---- call sites
    sites = {
        'apply_formatting': [('start', '0'), ('end', None)],
        'remove_formatting': [('start', '0'), ('end', None)],
        'find_settings': [('start', '0'), ('end', None)],
    }
    for name, params in sites.items():
        g = m.fn('AnsiString.' + name)
        Lg = 'len(%s.%s)' % (g.self_name, ro.TEXT)
        calls = _normalise_calls(m, g)
        first_use = {}
        for p, dflt in params:
            cons = '%s(%s) normalised' % (name, p)
            want_d = dflt or Lg
            c = calls.get(p)
            problems = []
            if c is None:
                problems.append('parameter %s is never passed through %s' % (p, ro.NORMALISE))
            else:
                st, a, d = c
                if norm(a) != p:
                    problems.append('normalises %s instead of %s' % (norm(a), p))
                if dflt is None and norm(d) not in (want_d, 'len(%s)' % g.self_name):
                    # only `end` documents None ("to the end of the text"); `start` is an int by contract, its default never applies
                    problems.append('default for %s is %s, documented %s' % (p, norm(d), want_d))
                # the raw parameter must not be read before it is rebound: the rebinding statement must be among the leading
                # statements of the body and no earlier statement may mention p
                idx = g.body.index(st) if st in g.body else None
                if idx is None:
                    problems.append('%s is normalised only conditionally' % p)
                else:
                    for prev in g.body[:idx]:
                        if p in names_in(prev) and not (isinstance(prev, ast.Assign) and call_name(prev.value) == ro.NORMALISE):
                            problems.append('raw %s is used before it is normalised (%s)' % (p, short(prev)))
            R.check(not problems, g, c[0] if c else g.node, '%s = %s(%s, %s) before any use' % (p, ro.NORMALISE, p, want_d), '; '.join(problems), construct=cons)
    # __getitem__: slice parts and the integer form (the dispatch is evaluated per kind of argument, see getitem_head)
    g, v, _head, heads = getitem_head(m)
    Lg = 'len(%s.%s)' % (g.self_name, ro.TEXT)
    # which locals are start / end: the two assigned for an int index
    for kind, scen_names in (('slice', ('slice step None', 'slice step 1')), ('int', ('int',))):
        cons = '__getitem__ %s bounds' % kind
        problems = []
        und = None
        for sn in scen_names:
            h = heads.get(sn)
            if h is None or h[0] == 'undecided':
                und = h[1] if h else 'not evaluated'
                continue
            if h[0] == 'raise':
                problems.append('%s raises %s' % (sn, h[1]))
                continue
            assigns = {k_: x_ for k_, x_ in h[1].items() if call_name(x_) == ro.NORMALISE or (isinstance(x_, ast.BinOp) and isinstance(x_.op, ast.Add))
                       or isinstance(x_, (ast.Name, ast.Attribute))}
            if len(assigns) < 2:
                problems.append('start and end locals not both assigned')
                continue
            names = list(assigns)
            st_name, en_name = names[0], names[1]
            sv, evv = assigns[st_name], assigns[en_name]
            if kind == 'slice':
                ws = '%s.%s(%s.start, 0)' % (g.self_name, ro.NORMALISE, v)
                we = '%s.%s(%s.stop, %s)' % (g.self_name, ro.NORMALISE, v, Lg)
                if norm(sv) != ws:
                    problems.append('start is %s, expected %s' % (norm(sv), ws))
                if norm(evv) != we:
                    problems.append('stop is %s, expected %s' % (norm(evv), we))
            else:
                ws = '%s.%s(%s, 0)' % (g.self_name, ro.NORMALISE, v)
                if norm(sv) != ws and not (call_name(sv) == ro.NORMALISE and norm(sv.args[0]) == v):
                    problems.append('an integer index is used raw (%s = %s): a negative index is never translated, so the copied '
                                    'settings of s[-1] are looked up at position -1' % (st_name, norm(sv)))
                if norm(evv) not in ('%s + 1' % norm(sv), '1 + %s' % norm(sv)):
                    problems.append('end is %s, expected start + 1' % norm(evv))
        if und is not None and not problems:
            R.undecided(g, g.node, 'type dispatch of __getitem__ not evaluated: %s' % und, construct=cons)
        else:
            R.check(not problems, g, g.node, '%s index: bounds normalised like a Python slice' % kind, '; '.join(sorted(set(problems))), construct=cons)


def getitem_head(m):
    """The type / step dispatch at the top of AnsiString.__getitem__, evaluated per kind of argument (any if / elif / guard shape):
    {kind: ('raise', exception name) | ('bounds', {local: expression with earlier locals substituted})} for kind in
    int, slice step None, slice step 1, slice step other, other type."""
    g = m.fn('AnsiString.__getitem__')
    v = g.own_params()[0]
    step = '%s.step' % v
    # the head: statements up to the first one that builds the result string
    head = []
    for st in g.body:
        if isinstance(st, ast.Assign) and any(isinstance(x, ast.Call) and call_name(x) == 'AnsiString' for x in ast.walk(st.value)):
            break
        head.append(st)
    isint = {'isinstance(%s, int)' % v: True, 'isinstance(%s, slice)' % v: False}
    issl = {'isinstance(%s, int)' % v: False, 'isinstance(%s, slice)' % v: True}
    both = {'isinstance(%s, (int, slice))' % v: True, 'isinstance(%s, (slice, int))' % v: True}
    none_ = {'%s is None' % step: True, '%s is not None' % step: False, '%s in (None, 1)' % step: True, '%s not in (None, 1)' % step: False}
    some_ = {'%s is None' % step: False, '%s is not None' % step: True}
    # (kind, facts, numeric value of the step or None)
    scen = [('int', dict(isint, **both), None), ('slice step None', dict(issl, **both, **none_), None),
            ('slice step 1', dict(issl, **both, **some_, **{'%s in (None, 1)' % step: True, '%s not in (None, 1)' % step: False}), 1)]
    for k_ in (2, 0, -1):
        scen.append(('slice step other', dict(issl, **both, **some_, **{'%s in (None, 1)' % step: False, '%s not in (None, 1)' % step: True}), k_))
    scen.append(('other type', {'isinstance(%s, int)' % v: False, 'isinstance(%s, slice)' % v: False, 'isinstance(%s, (int, slice))' % v: False,
                                'isinstance(%s, (slice, int))' % v: False}, None))
    out = {}
    for kind, facts, stepv in scen:
        assigns = {}
        seen = []

        def visit(st, assigns=assigns, seen=seen):
            if isinstance(st, ast.Raise):
                seen.append(('raise', call_name(st.exc) or norm(st.exc)))
            elif isinstance(st, ast.Assign) and len(st.targets) == 1 and isinstance(st.targets[0], ast.Name):
                assigns[st.targets[0].id] = subst(st.value, assigns)
        val = flag_valuation({}, facts)
        if stepv is not None:
            val = merge_valuations(val, order_valuation({step: stepv}))
        try:
            run_block(head, val, visit)
        except Undecided as ex:
            out.setdefault(kind, ('undecided', str(ex)))
            continue
        res = seen[0] if seen else ('bounds', dict(assigns))
        if kind == 'slice step other' and kind in out and out[kind] != res:
            # the verdict must not depend on which other step it is
            if out[kind][0] == 'raise' and res[0] != 'raise':
                out[kind] = ('bounds for step %s' % stepv, {})
            continue
        out.setdefault(kind, res)
    return g, v, head, out



def _guard_regions(test, start, end, L, settings_states, extra_flags=None):
    """Evaluate an early-return guard over orderings of start/end/L (facts 0 <= start,end <= L) x settings state."""
    out = {}
    # enumerate orderings: start in {0, mid, L} x end relative: <start, =start, >start ; with L > 0, plus L == 0
    cases = []
    for lname, Lv in (('L>0', 10), ('L=0', 0)):
        pts = sorted({0, 5, Lv} if Lv else {0})
        for s in pts:
            for e in pts:
                cases.append((lname, s, e, Lv))
    for sname, sval in settings_states.items():
        for lname, s, e, Lv in cases:
            order = {start: s, end: e, L: Lv, '0': 0}
            val = merge_valuations(order_valuation(order), flag_valuation({}, sval))
            out[(sname, lname, s, e)] = (eval_guard(test, val), s, e, Lv)
    return out


@rule('F3', 'noop-guards: apply / remove return before any write exactly when settings are empty or the range is empty', floor=2)
def F3(m, R):
    ro = m.roles
    for name in ('apply_formatting', 'remove_formatting'):
        f = m.fn('AnsiString.' + name)
        settings = f.own_params()[0]
        L = 'len(%s.%s)' % (f.self_name, ro.TEXT)
        cons = name + ' no-op guard'
        guard = None
        for st in f.body:
            if isinstance(st, ast.If) and len(st.body) >= 1 and isinstance(st.body[-1], ast.Return) and st.body[-1].value is None \
                    and {'start', 'end'} <= names_in(st.test):
                guard = st
                break
        if guard is None:
            R.viol(f, f.node, 'no early return for an empty range / empty settings', construct=cons)
            continue
        # nothing written before the guard
        idx = f.body.index(guard)
        pre_writes = [s for s in f.body[:idx] if any(isinstance(x, ast.Subscript) and isinstance(x.ctx, ast.Store) for x in ast.walk(s)) or
                      any(isinstance(x, ast.Attribute) and isinstance(x.ctx, ast.Store) for x in ast.walk(s))]
        if name == 'apply_formatting':
            states = {'empty': {settings: False, 'not ' + settings: True}, 'given': {settings: True, 'not ' + settings: False}}
            want = lambda sname, s, e, Lv: sname == 'empty' or s >= Lv or e <= s
        else:
            states = {'None': {settings: False, 'not ' + settings: True, '%s is None' % settings: True, '%s is not None' % settings: False},
                      'empty': {settings: False, 'not ' + settings: True, '%s is None' % settings: False, '%s is not None' % settings: True},
                      'given': {settings: True, 'not ' + settings: False, '%s is None' % settings: False, '%s is not None' % settings: True}}
            want = lambda sname, s, e, Lv: sname == 'empty' or s >= Lv or e <= s
        tab = _guard_regions(guard.test, 'start', 'end', L, states)
        bad = []
        und = []
        for (sname, lname, s, e), (got, s_, e_, Lv) in tab.items():
            if got is None:
                und.append((sname, lname, s, e))
            elif got != want(sname, s, e, Lv):
                bad.append('settings %s, %s, start=%s end=%s: returns early %s, documented %s' % (
                    sname, lname, 'L' if s == Lv and Lv else s and 'mid' or '0', 'L' if e == Lv and Lv else e and 'mid' or '0', got, want(sname, s, e, Lv)))
        if und:
            R.undecided(f, guard, 'guard %s not decided for %s' % (short(guard.test), und[0]), construct=cons)
            continue
        problems = bad[:3]
        if pre_writes:
            problems.append('writes before the guard: %s' % short(pre_writes[0]))
        R.check(not problems, f, guard, 'returns early exactly for: no settings, start >= len, end <= start (%d orderings)' % len(tab),
                '; '.join(problems), construct=cons)


@rule('F9', 'remove-regions: the scan of remove_formatting dispatches idx < start / = start / inside / = end / > end exactly', floor=5)
def F9(m, R):
    ro = m.roles
    f = m.fn('AnsiString.remove_formatting')
    loop = next((n for n in f.walk() if isinstance(n, ast.For) and call_name(n.iter) == ro.ITERATOR), None)
    if loop is None:
        raise AnalysisError('anchor vanished: scan loop of remove_formatting')
    idx = norm(loop.target.elts[0])
    point = norm(loop.target.elts[1])
    # classify what a region's path does: which blocks (by marker statements) are executed
    active = norm(loop.target.elts[2])

    def touches(st, attr):
        """(reads, writes) of point.<attr> in the statement: a write is a store, a deletion, or a mutating method call on it"""
        rd = wr = False
        for x in ast.walk(st):
            if isinstance(x, ast.Attribute) and x.attr == attr and norm(x.value) == point:
                par = getattr(x, '_parent', None)
                if isinstance(x.ctx, (ast.Store, ast.Del)):
                    wr = True
                elif isinstance(par, ast.Attribute) and par.attr in ('append', 'extend', 'insert', 'remove', 'pop', 'clear') and isinstance(getattr(par, '_parent', None), ast.Call):
                    wr = True
                elif isinstance(par, ast.Subscript) and par.value is x and isinstance(par.ctx, (ast.Store, ast.Del)):
                    wr = True
                elif isinstance(par, ast.AugAssign) and par.target is x:
                    wr = True
                else:
                    rd = True
        return rd, wr

    def markers(st):
        out = set()
        if isinstance(st, ast.For):
            itn = names_in(st.iter)
            rd_stop, _ = touches(ast.Expr(value=st.iter), ro.STOP)
            rd_start, _ = touches(ast.Expr(value=st.iter), ro.START)
            if active in itn:
                out.add('START-BLOCK')
            elif rd_stop:
                out.add('STOPSCAN')
            elif rd_start:
                out.add('INTERIOR')
            return out
        rd_a, wr_a = touches(st, ro.START)
        rd_s, wr_s = touches(st, ro.STOP)
        uses_active = active in names_in(st)
        if wr_s and uses_active:
            out.add('RESTART')
        if wr_a:
            out.add('RESTART' if uses_active else 'INTERIOR')
        elif rd_a and not uses_active and isinstance(st, (ast.Expr, ast.Assign, ast.AugAssign)) and not wr_s:
            out.add('INTERIOR')
        return out
    results = {}
    for region, ranks in (('<start', (0, 1, 3)), ('=start', (1, 1, 3)), ('inside', (2, 1, 3)), ('=end', (3, 1, 3)), ('>end', (4, 1, 3))):
        seen = set()

        def visit(st):
            seen.update(markers(st))
        order = {idx: ranks[0], 'start': ranks[1], 'end': ranks[2]}
        Ltxt = 'len(%s.%s)' % (f.self_name, ro.TEXT)
        extra = {'end != %s' % Ltxt: True, 'end == %s' % Ltxt: False, 'end < %s' % Ltxt: True,
                 # start < len(text) always holds here: the no-op guard returned for start >= len
                 'start != %s' % Ltxt: True, 'start == %s' % Ltxt: False, 'start < %s' % Ltxt: True, 'start >= %s' % Ltxt: False,
                 }
        # list accumulators of the function (initialised with []): taken as non-empty where their truthiness is tested
        for n_ in f.body:
            if isinstance(n_, ast.Assign) and isinstance(n_.value, ast.List) and not n_.value.elts and isinstance(n_.targets[0], ast.Name):
                extra[n_.targets[0].id] = True
                extra['not ' + n_.targets[0].id] = False
        try:
            out = run_block(loop.body, merge_valuations(order_valuation(order), flag_valuation({}, extra)), visit)
        except Undecided as e:
            R.undecided(f, loop, 'region %s: %s' % (region, e), construct='remove scan ' + region)
            continue
        results[region] = (out, seen)
    want = {
        '<start': lambda out, s: out in ('continue', 'fall') and not s,
        '=start': lambda out, s: 'START-BLOCK' in s and 'RESTART' not in s and out == 'fall',
        'inside': lambda out, s: 'STOPSCAN' in s and 'INTERIOR' in s and 'RESTART' not in s and 'START-BLOCK' not in s,
        '=end': lambda out, s: 'STOPSCAN' in s and 'RESTART' in s and 'START-BLOCK' not in s,
        '>end': lambda out, s: out == 'break' and not s,
    }
    desc = {'<start': 'skipped', '=start': 'start block only', 'inside': 'stop-marker scan + interior collection', '=end': 'stop-marker scan + restart',
            '>end': 'scan stops'}
    for region, (out, seen) in results.items():
        R.check(want[region](out, seen), f, loop, 'idx %s: %s' % (region, desc[region]),
                'idx %s: executes %s and ends with %s; expected: %s' % (region, sorted(seen) or 'nothing', out, desc[region]), construct='remove scan ' + region)


def _search_result_tests(f, var):
    """Tests comparing `var` with 0 / -1."""
    out = []
    for n in f.walk():
        if isinstance(n, ast.Compare) and len(n.ops) == 1 and (norm(n.left) == var or norm(n.comparators[0]) == var):
            other = n.comparators[0] if norm(n.left) == var else n.left
            if isinstance(const_val(other, None), int):
                out.append(n)
    return out


def _found_regions(test, var):
    """{'<0','=0','>0'} -> truth of the test."""
    out = {}
    # a search result is -1 (not found), 0, or larger; integer literals rank by their value
    for name, rank in (('<0', -1), ('=0', 0), ('>0', 1)):
        out[name] = eval_guard(test, order_valuation({var: rank}))
    out['>1'] = eval_guard(test, order_valuation({var: 5}))
    return out


@rule('F10', 'search-result-tests: a search result is classed "found" exactly when >= 0', floor=5)
def F10(m, R):
    ro = m.roles
    sites = []
    for fname in ('partition', 'rpartition', 'replace', 'remove_formatting', 'apply_formatting', '__getitem__'):
        f = m.fn('AnsiString.' + fname)
        # variables / expressions holding a search result
        cands = {}
        for n in f.walk():
            if isinstance(n, ast.Assign) and isinstance(n.targets[0], ast.Name) and isinstance(n.value, ast.Call) and \
                    call_name(n.value) in ('find', 'rfind', ro.IDFIND1):
                cands[n.targets[0].id] = call_name(n.value)
        for n in f.walk():
            if isinstance(n, ast.Compare) and len(n.ops) == 1:
                l, r = n.left, n.comparators[0]
                for a, b in ((l, r), (r, l)):
                    key = None
                    if isinstance(a, ast.Name) and a.id in cands:
                        key = a.id
                    elif isinstance(a, ast.Call) and call_name(a) in (ro.IDFIND1,):
                        key = norm(a)
                    if key is not None and isinstance(const_val(b, None), int) and not isinstance(const_val(b, None), bool):
                        sites.append((f, n, key, a is r))
    for f, test, key, swapped in sites:
        tt = _found_regions(test, key)
        cons = '%s: %s' % (f.name, re.sub(r'\s+', ' ', norm(test))[:70])
        vals = (tt['<0'], tt['=0'], tt['>0'])
        # the test is either "found" (F,T,T) or "not found" (T,F,F), uniformly for every position
        ok = vals in ((False, True, True), (True, False, False)) and tt['>1'] == tt['>0']
        R.check(ok, f, test, 'classifies <0 as not found and >=0 as found',
                'truth over result -1 / 0 / >0 is %s: %s' % (vals, 'a failed search (-1) is treated like a match' if (tt['<0'] and tt['=0'] and tt['>0']) else
                                                             'a match at position 0 is treated as not found' if tt['=0'] == tt['<0'] else 'positions are classified inconsistently'),
                construct=cons)


@rule('F5', 'count-guards: replace loops for count < 0 and count > 0, not for 0, and decrements only a positive count', floor=2)
def F5(m, R):
    f = m.fn('AnsiString.replace')
    count = f.own_params()[2]
    lp = next((n for n in f.walk() if isinstance(n, ast.While)), None)
    if lp is None:
        raise AnalysisError('anchor vanished: replace loop')
    tt = {}
    for name, rank in (('<0', -1), ('=0', 0), ('>0', 1)):
        val = merge_valuations(order_valuation({count: rank, '0': 0}), lambda a: True if count not in names_in(a) else None)      # every conjunct that is not about count: a match is pending
        tt[name] = eval_guard(lp.test, val)
    R.check(tt == {'<0': True, '=0': False, '>0': True}, f, lp, 'the loop runs for a negative (all) or positive count, never for 0',
            'with a match pending the loop runs for count regions %s' % sorted(k for k, v in tt.items() if v), construct='replace count guard')
    decs = [n for n in ast.walk(lp) if isinstance(n, ast.AugAssign) and is_name(n.target, count)]
    cons = 'replace count decrement'
    if len(decs) != 1:
        R.viol(f, lp, '%d decrements of count per replacement' % len(decs), construct=cons)
    else:
        d = decs[0]
        g = next((p for p in _parents(d) if isinstance(p, ast.If)), None)
        ok = isinstance(d.op, ast.Sub) and const_val(d.value) == 1 and g is not None and g is not lp
        tt2 = {}
        if g is not None:
            for name, rank in (('<0', -1), ('>0', 1)):
                tt2[name] = eval_guard(g.test, order_valuation({count: rank, '0': 0}))
        R.check(ok and tt2.get('>0') is True, f, d, 'count -= 1 per replacement while positive',
                'count is changed by %s under %s' % (short(d), short(g.test) if g is not None else 'no guard'), construct=cons)


@rule('F11', 'strip-noop: _strip returns the receiver unchanged only when nothing is to be stripped', floor=1)
def F11(m, R):
    f = m.fn('AnsiString._strip')
    inplace = f.own_params()[1]
    hits = [n for n in f.body if isinstance(n, ast.If) and len(n.body) == 1 and isinstance(n.body[0], ast.Return) and is_name(n.body[0].value, f.self_name)]
    if not hits:
        R.ok(f, f.node, 'no shortcut return of the receiver', construct='_strip shortcut')
        return
    g = hits[0]
    # a condition named first (`nothing = lc == 0 and rc is None; if inplace and nothing:`): read through when the name is bound right before the test
    gtest = g.test
    idx_ = f.body.index(g)
    prev_ = f.body[idx_ - 1] if idx_ > 0 else None
    if isinstance(prev_, ast.Assign) and len(prev_.targets) == 1 and isinstance(prev_.targets[0], ast.Name) and prev_.targets[0].id in names_in(gtest) and \
            isinstance(prev_.value, (ast.BoolOp, ast.Compare, ast.UnaryOp)) and \
            sum(1 for x in f.walk() if isinstance(x, ast.Name) and x.id == prev_.targets[0].id and isinstance(x.ctx, ast.Store)) == 1:
        from ..shapes import subst as _subst_f11
        gtest = _subst_f11(gtest, {prev_.targets[0].id: prev_.value})
    names = names_in(gtest) - {inplace}
    # the two counters (left: 0, 1, 2 ...; right: None or negative): told apart by the clip(left, right, inplace) call they end up in
    bad = []
    cnts = sorted(names)
    if len(cnts) != 2:
        R.undecided(f, g, 'shortcut guard %s' % short(g.test), construct='_strip shortcut')
        return
    lc, rc = cnts[0], cnts[1]
    clips = [n for n in f.walk() if isinstance(n, ast.Call) and call_name(n) == 'clip' and len(n.args) >= 2 and all(isinstance(a_, ast.Name) for a_ in n.args[:2])]
    if clips and {clips[-1].args[0].id, clips[-1].args[1].id} == set(cnts):
        lc, rc = clips[-1].args[0].id, clips[-1].args[1].id

    class _G:
        test = gtest
    g_node, g = g, _G
    for lv in (0, 1, 2):
        for rv in (None, -1, -2):
            for ip in (True, False):
                ex = {'%s is None' % rc: rv is None, '%s is not None' % rc: rv is not None, 'not %s' % rc: rv is None, rc: rv is not None,
                      'not %s' % lc: lv == 0, lc: lv != 0}
                order = {lc: lv}
                if rv is not None:
                    order[rc] = rv
                got = eval_guard(g.test, merge_valuations(flag_valuation({inplace: ip}, ex), order_valuation(order)))
                if got is None:
                    R.undecided(f, g_node, 'shortcut guard %s' % short(g.test), construct='_strip shortcut')
                    return
                if got and lv != 0:
                    bad.append('returns the receiver untouched although characters are to be stripped on the left')
                if got and rv is not None:
                    bad.append('returns the receiver untouched although characters are to be stripped on the right')
                if got and not ip:
                    bad.append('returns the receiver itself for inplace=False')
    R.check(not bad, f, g_node, 'the shortcut is taken only in place and only with nothing to strip', '; '.join(sorted(set(bad))), construct='_strip shortcut')


@rule('F4', 'query-arms: ansi_settings_at copies the active list before the iterator passes idx; find_settings arms', floor=4)
def F4(m, R):
    ro = m.roles
    f = m.fn('AnsiString.ansi_settings_at')
    idx = f.own_params()[0]
    loop = next((n for n in f.walk() if isinstance(n, ast.For) and call_name(n.iter) == ro.ITERATOR), None)
    if loop is None:
        raise AnalysisError('anchor vanished: ansi_settings_at scan')
    sidx = norm(loop.target.elts[0])
    active = norm(loop.target.elts[2])
    cons = 'ansi_settings_at scan'
    problems = []
    body = loop.body
    # plain copies made in the iteration are read through: `s = sidx_1`, `snap = list(active)` ... `result = snap`
    env_ = {}

    def res(e_):
        t_ = norm(e_)
        seen_ = set()
        while t_ in env_ and t_ not in seen_:
            seen_.add(t_)
            t_ = env_[t_]
        return t_
    copies = ('list(%s)' % active, '%s.copy()' % active, '%s[:]' % active)
    brk = next((s for s in body if isinstance(s, ast.If) and any(isinstance(x, ast.Break) for x in s.body)), None)
    cp = None
    for s_ in body:
        if s_ is brk:
            env_at_brk = dict(env_)
        if isinstance(s_, ast.Assign) and len(s_.targets) == 1 and isinstance(s_.targets[0], ast.Name):
            v_ = res(s_.value)
            if v_ in copies and (brk is None or body.index(s_) > body.index(brk)):
                cp = s_
            env_[s_.targets[0].id] = v_ if (isinstance(s_.value, ast.Name) or v_ in copies) else norm(s_.value)
    if brk is None:
        problems.append('the scan never stops at idx')
    else:
        t = brk.test
        regs = None
        if isinstance(t, ast.Compare) and len(t.ops) == 1:
            env_, env_full = env_at_brk, env_
            l_, r_ = res(t.left), res(t.comparators[0])
            env_ = env_full
            if l_ == sidx and r_ == idx:
                regs = cmp_regions(t.ops[0])
            elif l_ == idx and r_ == sidx:
                regs = cmp_regions(t.ops[0], swapped=True)
        if regs != {'>'}:
            problems.append('the scan stops when %s; it must stop exactly at the first point beyond idx' % short(t))
    if cp is None:
        early = next((s_ for s_ in body if isinstance(s_, ast.Assign) and brk is not None and body.index(s_) < body.index(brk) and isinstance(s_.targets[0], ast.Name)
                      and any(norm(r_.value) == s_.targets[0].id for r_ in f.walk() if isinstance(r_, ast.Return))), None)
        if early is not None:
            problems.append('the result is taken before the stop test: the point beyond idx overwrites it')
        else:
            problems.append('the active list is not copied (the iterator mutates it afterwards)')
    rets = [n for n in f.walk() if isinstance(n, ast.Return)]
    if cp is not None and not any(norm(r.value) == norm(cp.targets[0]) for r in rets):
        problems.append('the copy is not what is returned')
    init = next((s for s in ast.walk(f.node) if isinstance(s, (ast.Assign, ast.AnnAssign)) and cp is not None and s is not cp and s.value is not None and
                 norm(s.targets[0] if isinstance(s, ast.Assign) else s.target) == norm(cp.targets[0])), None)
    if init is None or norm(init.value) not in ('[]', 'list()'):
        problems.append('result does not start as []')
    R.check(not problems, f, loop, 'returns a copy of the active list as of the last point <= idx', '; '.join(problems), construct=cons)
    # settings_at handled in D6.  find_settings arms:
    f = m.fn('AnsiString.find_settings')
    settings = f.own_params()[0]
    cons = 'find_settings end<start'
    g = next((n for n in f.body if isinstance(n, ast.If) and {'start', 'end'} <= names_in(n.test) and any(isinstance(x, ast.Return) for x in n.body)), None)
    if g is None:
        R.viol(f, f.node, 'no arm for end < start', construct=cons)
    else:
        tt = {}
        for name, (s, e) in (('<', (2, 1)), ('=', (1, 1)), ('>', (1, 2))):
            tt[name] = eval_guard(g.test, order_valuation({'end': e, 'start': s}))
        ret = next(x for x in g.body if isinstance(x, ast.Return))
        R.check(tt == {'<': True, '=': False, '>': False} and norm(ret.value) == '(None, None)', f, g, '(None, None) exactly for end < start',
                'returns %s for end ? start in %s' % (norm(ret.value), sorted(k for k, v in tt.items() if v)), construct=cons)
    cons = 'find_settings empty settings'
    scrub = next((n for n in f.body if isinstance(n, ast.Assign) and call_name(n.value) == ro.SCRUB), None)
    g2 = None
    if scrub is not None:
        sv = norm(scrub.targets[0])
        g2 = next((n for n in f.body if isinstance(n, ast.If) and norm(n.test) == 'not ' + sv and any(isinstance(x, ast.Return) for x in n.body)), None)
    ok = g2 is not None and norm(next(x for x in g2.body if isinstance(x, ast.Return)).value) == '(start, end)'
    R.check(ok, f, g2 or f.node, 'empty settings return the normalised range itself', construct=cons)
    # order of the two arms: `end < start` answers first (both are top-level guards; the empty-settings arm returns (start, end) whatever the range is)
    if ok and g is not None and g in f.body and g2 in f.body:
        cons = 'find_settings arm order'
        R.check(f.body.index(g) < f.body.index(g2), f, g2, 'the end < start arm is decided before the empty-settings arm',
                'the empty-settings arm `%s` returns before the end < start arm is reached: find_settings([], 5, 2) returns (5, 2), not (None, None)' % short(g2.test),
                construct=cons)
    # the scan covers exactly the points in [start, end]
    cons = 'find_settings range filter'
    comp = next((n for n in f.walk() if isinstance(n, ast.DictComp) and call_name(n.generators[0].iter) == ro.ITERATOR), None)
    if comp is None:
        R.undecided(f, f.node, 'point table of find_settings not found', construct=cons)
    else:
        g0 = comp.generators[0]
        ix = norm(g0.target.elts[0]) if isinstance(g0.target, ast.Tuple) else norm(g0.target)
        tt = {}
        for nm, rank in (('<start', 0), ('=start', 1), ('inside', 2), ('=end', 3), ('>end', 4)):
            vs = [eval_guard(c, order_valuation({ix: rank, 'start': 1, 'end': 3})) for c in g0.ifs]
            tt[nm] = None if any(v is None for v in vs) else all(vs)
        want = {'<start': False, '=start': tt.get('=start') if tt.get('=start') is not None else True, 'inside': True, '=end': True, '>end': False}
        # (the point exactly at `start` may be left out: the between-points pre-check below answers for it)
        okv = norm(comp.value) in ('list(%s)' % norm(g0.target.elts[2]), '%s.copy()' % norm(g0.target.elts[2]), '%s[:]' % norm(g0.target.elts[2])) if isinstance(g0.target, ast.Tuple) else False
        R.check(tt == want and okv and norm(comp.key) == ix, f, comp, 'a copy of the active list is recorded for every point in [start, end]',
                'points recorded for regions %s (copy of the active list: %s)' % (sorted(k for k, v in tt.items() if v), okv), construct=cons)
    from ..shapes import quantifier, local_aliases, canon
    nested = {n.name: n for n in f.body if isinstance(n, ast.FunctionDef)}
    searched = norm(scrub.targets[0]) if scrub is not None else None

    def quant_kind(test):
        """'all' / 'notall' of `<searched setting> in <some settings list>` over the searched settings; None if not recognised."""
        neg = False
        t = test
        while isinstance(t, ast.UnaryOp) and isinstance(t.op, ast.Not):
            neg = not neg
            t = t.operand
        # helper call: nested def or expression
        if isinstance(t, ast.Call) and isinstance(t.func, ast.Name) and t.func.id in nested:
            body = [x for x in nested[t.func.id].body if not (isinstance(x, ast.Expr) and isinstance(x.value, ast.Constant))]
            if len(body) == 1 and isinstance(body[0], ast.Return):
                k = quant_kind(body[0].value)
                if k is None:
                    return None
                return ('notall' if k == 'all' else 'all') if neg else k
            return None
        q = quantifier(t)
        if q is not None:
            kind, it, tgt, pred = q
            if norm(it) == searched and isinstance(pred, ast.Compare) and isinstance(pred.ops[0], ast.In) and norm(pred.left) == norm(tgt):
                cont = norm(pred.comparators[0])
                if cont.endswith('.' + ro.STOP) or cont.endswith('.' + ro.START):
                    return 'marker-list:' + cont      # looks at a point's own START / STOP list, not at what is active
                if kind == 'all':
                    return 'notall' if neg else 'all'
                return 'none' if neg else 'any'
            return None
        if isinstance(t, ast.Compare) and isinstance(const_val(t.left, None), bool) and isinstance(t.comparators[0], ast.ListComp):
            comp_ = t.comparators[0]
            g_ = comp_.generators[0]
            if norm(g_.iter) == searched and isinstance(comp_.elt, ast.Compare) and isinstance(comp_.elt.ops[0], ast.In) and norm(comp_.elt.left) == norm(g_.target) and not g_.ifs:
                cont = canon(comp_.elt.comparators[0], local_aliases(f))
                if cont.endswith('.' + ro.STOP) or cont.endswith('.' + ro.START):
                    return 'marker-list:' + cont      # looks at a point's own START / STOP list, not at what is active
                if const_val(t.left) is False:
                    k = 'all' if isinstance(t.ops[0], ast.NotIn) else 'notall' if isinstance(t.ops[0], ast.In) else None
                else:
                    k = 'any' if isinstance(t.ops[0], ast.In) else 'none' if isinstance(t.ops[0], ast.NotIn) else None
                if k is None:
                    return None
                return ({'all': 'notall', 'notall': 'all', 'any': 'none', 'none': 'any'}[k]) if neg else k
        return None

    def conjuncts(t):
        return list(t.values) if isinstance(t, ast.BoolOp) and isinstance(t.op, ast.And) else [t]
    cons = 'find_settings start pre-check'
    pre = None
    for n in f.body:
        if isinstance(n, ast.If) and any(isinstance(c, ast.Compare) and isinstance(c.ops[0], ast.NotIn) and norm(c.left) == 'start' for c in conjuncts(n.test)) and \
                any(isinstance(x, ast.Call) and call_name(x) == 'ansi_settings_at' for x in ast.walk(n)):
            pre = n
    if pre is None:
        cand = [n for n in f.body if isinstance(n, ast.If) and any(isinstance(x, ast.Call) and call_name(x) == 'ansi_settings_at' for x in ast.walk(n))]
        if cand:
            c0 = next(x for x in ast.walk(cand[0]) if isinstance(x, ast.Call) and call_name(x) == 'ansi_settings_at')
            lefts = [norm(c.left) for c in conjuncts(cand[0].test) if isinstance(c, ast.Compare) and isinstance(c.ops[0], ast.NotIn)]
            R.viol(f, cand[0], 'the between-points pre-check tests %s and looks at position %s; it must test and look at `start`' % (lefts, [norm(a) for a in c0.args]),
                   construct=cons)
        else:
            R.viol(f, f.node, 'a start that lies between two points is never examined: a setting active there is missed', construct=cons)
    else:
        c = next(x for x in ast.walk(pre) if isinstance(x, ast.Call) and call_name(x) == 'ansi_settings_at')
        first_names = {r_.value.elts[0].id for r_ in f.walk() if isinstance(r_, ast.Return) and isinstance(r_.value, ast.Tuple) and len(r_.value.elts) == 2 and
                       isinstance(r_.value.elts[0], ast.Name)} - {'start', 'end'}
        sets = [x for b_ in pre.body for x in ast.walk(b_) if isinstance(x, ast.Assign) and isinstance(x.targets[0], ast.Name) and x.targets[0].id in first_names]
        sets = sets or [x for b_ in pre.body for x in ast.walk(b_) if isinstance(x, ast.Return) and isinstance(x.value, ast.Tuple)]
        sets = [ast.Assign(targets=[ast.Name(id='_', ctx=ast.Store())], value=x.value.elts[0]) if isinstance(x, ast.Return) else x for x in sets]
        okp = [norm(a) for a in c.args] == ['start'] and sets and all(norm(x.value) == 'start' for x in sets)
        extra_conds = [c_ for c_ in conjuncts(pre.test) if not (isinstance(c_, ast.Compare) and isinstance(c_.ops[0], ast.NotIn) and norm(c_.left) == 'start')
                       and quant_kind(c_) is None]
        msg = 'pre-check looks at position %s, reports %s' % ([norm(a) for a in c.args], [norm(x.value) for x in sets])
        if extra_conds:
            okp = False
            msg = 'the pre-check is skipped unless `%s`: in that case a start lying between two points is never examined' % short(extra_conds[0])
        R.check(bool(okp), f, pre, 'if `start` is not itself a point, the settings active at `start` are examined and `start` reported', msg, construct=cons)
    # start predicate all / end predicate not all, over the same membership test: whatever is returned as first component was selected
    # under "every given setting present" (or is the pre-checked `start`), whatever is returned as second component under "some missing"
    cons = 'find_settings predicates'
    problems = []
    und = []
    rets = [n for n in f.walk() if isinstance(n, ast.Return) and isinstance(n.value, ast.Tuple) and len(n.value.elts) == 2]
    start_vars, end_vars = set(), set()
    direct = {'start': [], 'end': []}          # (kind) for components that are selected at the return itself

    def guard_kinds(node):
        ks = []
        for p_ in _parents(node):
            if isinstance(p_, ast.If):
                in_body = any(node is x for b_ in p_.body for x in ast.walk(b_))
                for c in conjuncts(p_.test if in_body else ast.UnaryOp(op=ast.Not(), operand=p_.test)):
                    k = quant_kind(c)
                    if k is not None:
                        ks.append(k)
            if isinstance(p_, (ast.FunctionDef,)):
                break
        return ks
    for r in rets:
        a, b = r.value.elts
        if isinstance(a, ast.Name):
            start_vars.add(a.id)
        elif const_val(a, 0) is not None:
            und.append('first component %s' % short(a))
        if isinstance(b, ast.Name):
            lp_ = next((p_ for p_ in _parents(r) if isinstance(p_, ast.For) and b.id in names_in(p_.target)), None)
            if lp_ is not None:
                ks = guard_kinds(r)
                if ks:
                    direct['end'].append(ks[0])
                else:
                    und.append('return %s not under a presence test' % short(r.value))
            else:
                end_vars.add(b.id)
        elif const_val(b, 0) is not None:
            und.append('second component %s' % short(b))
    start_vars -= {'start', 'end'}        # the pre-checked start / the normalised range of the empty-settings arm
    end_vars -= {'start', 'end'}
    seen_kinds = {'start': list(direct['start']), 'end': list(direct['end'])}
    for which, names in (('start', start_vars), ('end', end_vars)):
        for n in f.walk():
            if isinstance(n, ast.Assign) and len(n.targets) == 1 and isinstance(n.targets[0], ast.Name) and n.targets[0].id in names and \
                    not (isinstance(n.value, ast.Constant) and n.value.value is None):
                v = n.value
                if isinstance(v, ast.Call) and call_name(v) == 'next' and v.args and isinstance(v.args[0], ast.GeneratorExp) and v.args[0].generators[0].ifs:
                    ks = [quant_kind(c) for i_ in v.args[0].generators[0].ifs for c in conjuncts(i_)]
                    ks = [k for k in ks if k is not None]
                    if ks:
                        seen_kinds[which].append(ks[0])
                    else:
                        und.append('selection %s' % short(v))
                    continue
                ks = guard_kinds(n)
                if not ks:
                    und.append('%s = %s not under a presence test' % (n.targets[0].id, short(v)))
                else:
                    seen_kinds[which].append(ks[0])
    if und:
        R.undecided(f, f.node, 'predicate shapes not recognised: %s' % und[:2], construct=cons)
    else:
        if not seen_kinds['start'] or any(k != 'all' for k in seen_kinds['start']):
            problems.append('the reported start is selected under %s; it needs every given setting present' % seen_kinds['start'])
        if not seen_kinds['end'] or any(k != 'notall' for k in seen_kinds['end']):
            problems.append('the reported end is selected under %s; it needs at least one given setting missing' % seen_kinds['end'])
        R.check(not problems, f, f.node, 'start selected under "all present", end under "some missing", same by-value membership test',
                '; '.join(problems), construct=cons)


@rule('F12', 'type-dispatch: the scrubber, __getitem__, __iadd__, join and the constructors dispatch on the documented types and raise '
             'TypeError / ValueError otherwise', floor=8)
def F12(m, R):
    ro = m.roles
    # SCRUB
    f = m.fn('%s.%s' % (ro.POINT, ro.SCRUB))
    loop = next((n for n in f.body if isinstance(n, ast.For)), None)
    if loop is None:
        raise AnalysisError('anchor vanished: scrubber loop')
    it = norm(loop.target)
    chain = next((n for n in loop.body if isinstance(n, ast.If) and call_name(n.test) == 'isinstance'), None)
    arms = {}
    cur = chain
    order = []
    while cur is not None:
        if call_name(cur.test) == 'isinstance' and norm(cur.test.args[0]) == it:
            k = norm(cur.test.args[1])
            arms[k] = cur.body
            order.append(k)
        if len(cur.orelse) == 1 and isinstance(cur.orelse[0], ast.If):
            cur = cur.orelse[0]
        else:
            arms['<else>'] = cur.orelse
            cur = None
    mk = f.own_params()[1] if len(f.own_params()) > 1 else 'make_unique'
    checks = [
        ('AnsiSetting', lambda b: any(call_name(x) == 'append' and norm(x.args[0]) == it for s in b for x in ast.walk(s) if isinstance(x, ast.Call)),
         'an AnsiSetting is kept'),
        ('str', lambda b: any(call_name(x) == '_scrub_ansi_format_string' and norm(x.args[0]) == it for s in b for x in ast.walk(s) if isinstance(x, ast.Call)),
         'a str goes to the string scrubber'),
        ('int', lambda b: any(call_name(x) == '_scrub_ansi_format_int' and norm(x.args[0]) == it for s in b for x in ast.walk(s) if isinstance(x, ast.Call)),
         'an int goes through the non-negative check'),
    ]
    for k, pred, what in checks:
        b = arms.get(k)
        R.check(b is not None and pred(b), f, b[0] if b else (chain or loop), what, 'no arm handles %s as documented' % k, construct='scrub ' + k)
    # integers stay bare until the scrubber has grouped them: the grouping pass looks for `int` items only, so an integer wrapped on its own is never
    # joined with its neighbours ('38;5;100' would report 38, 5 and 100)
    groups = any(call_name(x) == 'isinstance' and len(x.args) == 2 and norm(x.args[1]) == 'int' and norm(x.args[0]) != it for x in f.walk() if isinstance(x, ast.Call)) and \
        any(call_name(x) == 'parse_graphic_sequence' for x in f.walk() if isinstance(x, ast.Call))
    if groups:
        for fn_name in (ro.SCRUB, '_scrub_ansi_format_string'):
            try:
                h = m.fn('%s.%s' % (ro.POINT, fn_name))
            except Exception:
                continue
            for x in h.walk():
                if isinstance(x, ast.Call) and call_name(x) == 'AnsiSetting' and any(isinstance(a, ast.Call) and call_name(a) == '_scrub_ansi_format_int' for a in x.args):
                    R.viol(h, x, 'an integer is wrapped as a setting of its own before the grouping pass of %s, which joins `int` items only: the codes of "38;5;100" are reported '
                                 'as three settings, not as the one that [38, 5, 100] gives' % ro.SCRUB, construct='scrub bare ints')
    eb = arms.get('<else>') or []
    txt = '\n'.join(norm(s) for s in eb)
    # names that stand for the item or for what it unwraps to: `c = item.ansi_settings`, `nested = c`, `nested = item`
    item_names, attr_names = {it}, set()
    for _r in range(3):
        for s_ in eb:
            for x in ast.walk(s_):
                if isinstance(x, ast.Assign) and len(x.targets) == 1 and isinstance(x.targets[0], ast.Name):
                    v_ = norm(x.value)
                    if v_ in item_names:
                        item_names.add(x.targets[0].id)
                    if v_ in attr_names or any(v_ == '%s.ansi_settings' % n_ for n_ in item_names):
                        attr_names.add(x.targets[0].id)
    unpack_names = item_names | attr_names
    # the list of ids already being unpacked: the third parameter, or a local built from it (`seen = [*parsed_ids, id(settings)]`)
    idp = f.own_params()[2] if len(f.own_params()) > 2 else 'parsed_ids'
    id_names = {idp, 'parsed_ids'}
    for x in f.walk():
        if isinstance(x, ast.Assign) and len(x.targets) == 1 and isinstance(x.targets[0], ast.Name) and any(isinstance(y, ast.Name) and y.id in id_names for y in ast.walk(x.value)):
            id_names.add(x.targets[0].id)
    recurses = any(isinstance(x, ast.Call) and call_name(x) == ro.SCRUB and len(x.args) == 3 and not x.keywords and norm(x.args[0]) in unpack_names and
                   norm(x.args[1]) == mk and norm(x.args[2]) in id_names for s_ in eb for x in ast.walk(s_))
    ok = 'hasattr(%s, \'ansi_settings\')' % it in txt and 'raise TypeError' in txt and recurses
    # which kinds of value reach `raise TypeError`: exactly those that are neither a list nor a tuple (and have no ansi_settings)
    tt = {}
    try:
        for kind in ('list', 'tuple', 'other', 'has-attr'):
            seen = []

            def visit(s_):
                if isinstance(s_, ast.Raise):
                    seen.append(call_name(s_.exc))
            ex = {'hasattr(%s, \'ansi_settings\')' % it: kind == 'has-attr'}
            for n_ in unpack_names:
                ex.update({'isinstance(%s, list)' % n_: kind == 'list', 'isinstance(%s, tuple)' % n_: kind == 'tuple',
                           'isinstance(%s, (list, tuple))' % n_: kind in ('list', 'tuple'), 'isinstance(%s, (tuple, list))' % n_: kind in ('list', 'tuple'),
                           'id(%s) in parsed_ids' % n_: False})
                ex.update({'id(%s) in %s' % (n_, l_): False for l_ in id_names})
            if kind == 'has-attr':
                for n_ in unpack_names:
                    ex['isinstance(%s, list)' % n_] = False
                    ex['isinstance(%s, tuple)' % n_] = True     # the enum's ansi_settings is a tuple
                    ex['isinstance(%s, (list, tuple))' % n_] = True
                    ex['isinstance(%s, (tuple, list))' % n_] = True
            out = run_block(eb, flag_valuation({}, ex), visit)
            tt[kind] = seen[0] if seen else None
    except Undecided:
        tt = None
    if tt is not None:
        ok = ok and tt == {'list': None, 'tuple': None, 'other': 'TypeError', 'has-attr': None}
    if tt is None and not ok:
        R.undecided(f, eb[0] if eb else loop, 'the handling of the remaining types was not evaluated', construct='scrub else')
    else:
        R.check(ok, f, eb[0] if eb else loop, 'objects with ansi_settings, lists and tuples are unpacked recursively; anything else raises TypeError',
                'unsupported-type handling: %s' % (tt,), construct='scrub else')
    fi = m.fn('%s._scrub_ansi_format_int' % ro.POINT)
    g = next((n for n in fi.body if isinstance(n, ast.If)), None)
    ok = g is not None and any(isinstance(x, ast.Raise) and call_name(x.exc) == 'ValueError' for x in g.body)
    if ok:
        p = fi.params[0]
        tt = {nm: eval_guard(g.test, order_valuation({p: r, '0': 0})) for nm, r in (('<0', -1), ('=0', 0), ('>0', 1))}
        ok = tt == {'<0': True, '=0': False, '>0': False}
    R.check(ok, fi, g or fi.node, 'exactly the negative integers raise ValueError', construct='scrub int sign')
    # __getitem__ (dispatch evaluated per kind of argument)
    g, v, _head, heads = getitem_head(m)
    und = [k_ for k_, h_ in heads.items() if h_[0] == 'undecided']
    if und:
        R.undecided(g, g.node, 'type dispatch of __getitem__ not evaluated for %s: %s' % (und[0], heads[und[0]][1]), construct='getitem types')
    else:
        pr_ = []
        if heads['other type'] != ('raise', 'TypeError'):
            pr_.append('a value that is neither int nor slice: %s' % (heads['other type'],))
        for k_ in ('int', 'slice step None', 'slice step 1'):
            if heads[k_][0] != 'bounds':
                pr_.append('%s: %s' % (k_, heads[k_],))
        R.check(not pr_, g, g.node, 'int and slice are accepted, anything else raises TypeError', '; '.join(pr_), construct='getitem types')
        ok = heads['slice step other'] == ('raise', 'ValueError') and heads['slice step None'][0] == 'bounds' and heads['slice step 1'][0] == 'bounds'
        R.check(ok, g, g.node, 'a slice raises ValueError exactly when its step is neither None nor 1',
                'step None -> %s, step 1 -> %s, any other step -> %s' % (heads['slice step None'][0], heads['slice step 1'][0], heads['slice step other'],), construct='getitem step')
    # __iadd__, join, constructors: accepted types and TypeError otherwise
    for qual, accepted in (('AnsiString.__iadd__', {'str', 'AnsiString'}), ('AnsiString.join', {'str', 'AnsiString'}),
                           ('AnsiString.__init__', {'str', 'AnsiString', 'AnsiStr'}), ('AnsiStr.__new__', {'str', 'AnsiString', 'AnsiStr'})):
        fn_ = m.fn(qual)
        kinds = set()
        for n in fn_.walk():
            if isinstance(n, ast.Call) and call_name(n) == 'isinstance' and len(n.args) == 2:
                kinds |= {norm(x) for x in (n.args[1].elts if isinstance(n.args[1], ast.Tuple) else [n.args[1]])}
        raises = [n for n in fn_.walk() if isinstance(n, ast.Raise)]
        ok = accepted <= kinds and any(call_name(r.exc) == 'TypeError' for r in raises) and all(call_name(r.exc) in ('TypeError', 'ValueError') for r in raises)
        R.check(ok, fn_, fn_.node, '%s accepts %s and raises TypeError otherwise' % (qual, '/'.join(sorted(accepted))),
                '%s dispatches on %s, raises %s' % (qual, sorted(kinds), [call_name(r.exc) for r in raises]), construct='types ' + qual)

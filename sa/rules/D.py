"""D rules: delegation and sibling shape."""
import ast
import re

from ..model import AnalysisError, norm, short, call_name, const_val, flatten_add, is_attr, is_name, names_in
from ..report import rule
from ..shapes import single_return, args_are_params, inplace_switch, attr_writes, bind_call, straight_env, subst
from ..consteval import get_folder, Unfoldable, EnumRef

QUERY = ['count', 'find', 'rfind', 'index', 'rindex', 'endswith', 'isalnum', 'isalpha', 'isascii', 'isdecimal', 'isdigit',
         'isidentifier', 'islower', 'isnumeric', 'isprintable', 'isspace', 'istitle', 'isupper']
CASE = ['capitalize', 'casefold', 'lower', 'upper', 'swapcase', 'title']


def _self_text(f, R):
    return '%s.%s' % (f.self_name, R.TEXT)


@rule('D1', 'query-delegation: str-like queries are `return self.TEXT.<same>(<own params in order>)`', floor=20)
def D1(m, R):
    ro = m.roles
    for name in QUERY:
        f = m.fn('AnsiString.' + name)
        expr, ret = single_return(f)
        cons = 'AnsiString.%s delegate' % name
        if expr is None:
            # a bound normalised the way slicing does before the call: str does not clamp the bounds of a search
            clamp = [n for n in f.walk() if isinstance(n, ast.Assign) and len(n.targets) == 1 and isinstance(n.targets[0], ast.Name) and
                     n.targets[0].id in f.own_params()[1:2] and isinstance(n.value, ast.Call) and
                     (call_name(n.value) in ('_slice_val_to_idx', 'min', 'max') or
                      (call_name(n.value) == 'indices' and isinstance(n.value.func, ast.Attribute) and call_name(n.value.func.value) == 'slice'))]
            delegates = [n for n in f.walk() if isinstance(n, ast.Call) and isinstance(n.func, ast.Attribute) and n.func.attr == name and
                         norm(n.func.value) == '%s.%s' % (f.self_name, ro.TEXT)]
            if clamp and delegates and name in ('count', 'find', 'rfind', 'index', 'rindex', 'endswith'):
                R.viol(f, clamp[0], '%s is clamped into the text (%s) before str.%s is called: str does not do that -- "abc".count("", 5) is 0, "abc".find("", 5) is -1 and '
                                    '"abc".endswith("", 5) is False, while with the start clamped to 3 they are 1, 3 and True' % (
                                        clamp[0].targets[0].id, short(clamp[0].value), name), construct=cons)
                continue
            R.undecided(f, f.node, 'body is not a single return', construct=cons)
            continue
        if not (isinstance(expr, ast.Call) and isinstance(expr.func, ast.Attribute)):
            R.viol(f, ret, 'returns %s, not a call of str.%s on the base text' % (short(expr), name), construct=cons)
            continue
        recv, meth = norm(expr.func.value), expr.func.attr
        problems = []
        if recv != _self_text(f, ro):
            problems.append('receiver is %s, not the base text %s' % (recv, _self_text(f, ro)))
        if meth != name:
            problems.append('delegates to str.%s instead of str.%s' % (meth, name))
        problems += args_are_params(expr, f.own_params(), allow_keywords=False)
        R.check(not problems, f, ret, 'is str.%s on the base text with (%s)' % (name, ', '.join(f.own_params())),
                '; '.join(problems), construct=cons)
    # __len__
    f = m.fn('AnsiString.__len__')
    expr, ret = single_return(f)
    R.check(expr is not None and norm(expr) in ('len(%s)' % _self_text(f, ro), '%s.__len__()' % _self_text(f, ro)), f, ret or f.node,
            '__len__ is len(base text)', '__len__ returns %s' % short(expr), construct='AnsiString.__len__ delegate')
    # __contains__
    f = m.fn('AnsiString.__contains__')
    v = f.own_params()[0]
    tests = [n for n in f.walk() if isinstance(n, ast.Compare) and len(n.ops) == 1 and isinstance(n.ops[0], (ast.In, ast.NotIn))]
    good = [t for t in tests if isinstance(t.ops[0], ast.In) and norm(t.left) in ('%s.%s' % (v, ro.TEXT), v) and
            norm(t.comparators[0]) == _self_text(f, ro)]
    if not tests:
        R.undecided(f, f.node, 'no membership test found', construct='AnsiString.__contains__ delegate')
    else:
        R.check(len(good) == len(tests), f, tests[0], '`in` tests value\'s text in the base text',
                'membership test is %s' % short(tests[0]), construct='AnsiString.__contains__ delegate')


@rule('D2', 'case-delegation: in-place switch; obj.TEXT = obj.TEXT.<same>(); return obj; writes exactly {TEXT}', floor=6)
def D2(m, R):
    ro = m.roles
    for name in CASE:
        f = m.fn('AnsiString.' + name)
        cons = 'AnsiString.%s' % name
        var, rest, problems = inplace_switch(f.body, f.self_name)
        if var is None:
            R.undecided(f, f.node, 'in-place switch idiom not recognised', construct=cons)
            continue
        problems = list(problems)
        assigns = [s for s in rest if isinstance(s, ast.Assign)]
        rets = [s for s in rest if isinstance(s, ast.Return)]
        others = [s for s in rest if not isinstance(s, (ast.Assign, ast.Return))]
        if others:
            R.undecided(f, others[0], 'unexpected statement', construct=cons)
            continue
        want_t = '%s.%s' % (var, ro.TEXT)
        hit = False
        for a in assigns:
            t = norm(a.targets[0])
            if t == want_t:
                hit = True
                v = a.value
                if not (isinstance(v, ast.Call) and isinstance(v.func, ast.Attribute) and norm(v.func.value) == want_t):
                    problems.append('text is assigned %s, not a str method of itself' % short(v))
                else:
                    if v.func.attr != name:
                        problems.append('applies str.%s instead of str.%s' % (v.func.attr, name))
                    if v.args or v.keywords:
                        problems.append('passes arguments %s' % short(v))
            elif isinstance(a.targets[0], ast.Attribute):
                problems.append('also writes %s' % t)
        if not hit:
            problems.append('never assigns the converted text to %s' % want_t)
        if len(rets) != 1 or norm(rets[0].value) != var:
            problems.append('returns %s, not %s' % (short(rets[0].value) if rets else 'nothing', var))
        R.check(not problems, f, f.node, 'switch; %s = %s.%s(); return %s' % (want_t, want_t, name, var), '; '.join(problems), construct=cons)


# --------------------------------------------------------------------------------------------------------
# D3: AnsiStr twins

def _desugar_wrapped(node, wrapped):
    """len(W) -> W.__len__(), W[x] -> W.__getitem__(x), v in W -> W.__contains__(v), W == v, W + v, str(W), format(W, s), iter(W);
    list(map(F, X)) -> [F(x) for x in X]"""
    def is_w(e):
        return norm(e) == wrapped

    def mk(recv, meth, args, at):
        return ast.copy_location(ast.Call(func=ast.Attribute(value=recv, attr=meth, ctx=ast.Load()), args=args, keywords=[]), at)

    class T(ast.NodeTransformer):
        def visit_Call(self, n):
            self.generic_visit(n)
            if isinstance(n.func, ast.Name) and not n.keywords:
                m_ = {'len': '__len__', 'str': '__str__', 'iter': '__iter__', 'repr': '__repr__'}.get(n.func.id)
                if m_ and len(n.args) == 1 and is_w(n.args[0]):
                    return mk(n.args[0], m_, [], n)
                if n.func.id == 'format' and len(n.args) == 2 and is_w(n.args[0]):
                    return mk(n.args[0], '__format__', [n.args[1]], n)
                if n.func.id in ('list', 'tuple') and len(n.args) == 1 and isinstance(n.args[0], ast.Call) and isinstance(n.args[0].func, ast.Name) and \
                        n.args[0].func.id == 'map' and len(n.args[0].args) == 2:
                    fn_, it_ = n.args[0].args
                    comp = ast.ListComp(elt=ast.Call(func=fn_, args=[ast.Name(id='x_', ctx=ast.Load())], keywords=[]),
                                        generators=[ast.comprehension(target=ast.Name(id='x_', ctx=ast.Store()), iter=it_, ifs=[], is_async=0)])
                    comp = ast.copy_location(comp, n)
                    if n.func.id == 'tuple':
                        return ast.copy_location(ast.Call(func=n.func, args=[comp], keywords=[]), n)
                    return comp
            return n

        def visit_Subscript(self, n):
            self.generic_visit(n)
            if is_w(n.value) and isinstance(n.ctx, ast.Load):
                return mk(n.value, '__getitem__', [n.slice], n)
            return n

        def visit_Compare(self, n):
            self.generic_visit(n)
            if len(n.ops) == 1:
                if isinstance(n.ops[0], ast.In) and is_w(n.comparators[0]):
                    return mk(n.comparators[0], '__contains__', [n.left], n)
                if isinstance(n.ops[0], ast.Eq) and is_w(n.left):
                    return mk(n.left, '__eq__', [n.comparators[0]], n)
            return n

        def visit_BinOp(self, n):
            self.generic_visit(n)
            if isinstance(n.op, ast.Add) and is_w(n.left):
                return mk(n.left, '__add__', [n.right], n)
            return n
    node = T().visit(node)
    ast.fix_missing_locations(node)
    return node


def _twin_call_problems(call, twin, sfunc, want_inplace):
    """`call` invokes the AnsiString twin `twin`; sfunc is the AnsiStr method.  Every AnsiStr parameter must be passed to the
    same-named twin parameter unchanged; nothing else may be passed except inplace=True."""
    bound, problems = bind_call(call, twin)
    problems = list(problems)
    sparams = sfunc.own_params() + sfunc.kwonly
    for p in sparams:
        if p not in twin.own_params() and p not in twin.kwonly:
            continue
        if p not in bound:
            problems.append('parameter %s is not passed on' % p)
        elif norm(bound[p]) != p:
            problems.append('%s=%s instead of the parameter %s' % (p, short(bound[p]), p))
    if sfunc.vararg:
        if '*' not in bound:
            problems.append('*%s is not passed on' % sfunc.vararg)
        elif norm(bound['*']) != sfunc.vararg:
            problems.append('*%s instead of *%s' % (norm(bound['*']), sfunc.vararg))
    for p, v in bound.items():
        if p in ('*', '**', '*extra'):
            if p == '*extra':
                problems.append('extra positional arguments')
            continue
        if p == 'inplace':
            continue
        if p not in sparams:
            problems.append('passes %s=%s which is not a parameter of the AnsiStr method' % (p, short(v)))
    if want_inplace:
        if 'inplace' not in bound:
            problems.append('inplace is not passed: the twin works on yet another copy and the result is discarded')
        elif const_val(bound['inplace'], None) is not True:
            problems.append('inplace=%s, must be True' % short(bound['inplace']))
    elif 'inplace' in bound and 'inplace' not in twin.own_params() + twin.kwonly:
        problems.append('passes inplace to a twin without such a parameter')
    return problems


def _returns_value(f):
    return any(isinstance(n, ast.Return) and n.value is not None and const_val(n.value, 0) is not None for n in f.walk())


def _ann_mentions_string(f):
    r = f.node.returns
    return r is not None and 'AnsiString' in norm(r)


_MISSING = object()


def _stored_rendering_args(m):
    """The AnsiStr payload is str(<AnsiString>) made in __new__.  Follow AnsiString.__str__ -> __format__ -> to_str through their single
    returns and give the to_str arguments the stored rendering was made with ({param: constant}), or None when the chain is not of that shape."""
    S = m.cls('AnsiStr')
    A = m.cls('AnsiString')
    new = S.methods.get('__new__')
    if new is None or '__str__' in S.methods or 'to_str' not in A.methods:
        return None
    made = [n for n in new.walk() if isinstance(n, ast.Call) and isinstance(n.func, ast.Attribute) and n.func.attr == '__new__' and len(n.args) == 2]
    if not made or not all(call_name(n.args[1]) == 'str' and len(n.args[1].args) == 1 and isinstance(n.args[1].args[0], ast.Name) for n in made):
        return None
    ts = A.methods['to_str']
    vals = None
    cur, args = A.methods.get('__str__'), {}
    for _ in range(4):
        if cur is None:
            return None
        if cur is ts:
            vals = {}
            for p_ in ts.own_params() + ts.kwonly:
                if p_ in args:
                    vals[p_] = args[p_]
                elif p_ in ts.defaults:
                    vals[p_] = const_val(ts.defaults[p_], _MISSING)
                else:
                    return None
            break
        e, _r = single_return(cur)
        if not (isinstance(e, ast.Call) and isinstance(e.func, ast.Attribute) and is_name(e.func.value, cur.self_name) and e.func.attr in A.methods):
            return None
        callee = A.methods[e.func.attr]
        bound, pr = bind_call(e, callee)
        if pr:
            return None
        nxt = {}
        for p_, v_ in bound.items():
            if isinstance(v_, ast.Name) and v_.id in args:
                nxt[p_] = args[v_.id]
            else:
                c_ = const_val(v_, _MISSING)
                if c_ is _MISSING:
                    return None
                nxt[p_] = c_
        cur, args = callee, nxt
    if vals is None or any(v is _MISSING for v in vals.values()):
        return None
    return vals


def _truthiness_only(f, p):
    """True when function f looks at parameter p only through its truth value, or inside a block entered only when p is true."""
    for n in f.walk():
        if not (isinstance(n, ast.Name) and n.id == p):
            continue
        if isinstance(n.ctx, ast.Store):
            return False
        par, child, ok = getattr(n, '_parent', None), n, False
        while par is not None and par is not f.node:
            if isinstance(par, (ast.If, ast.IfExp, ast.While)) and par.test is child and child is n:
                ok = True
                break
            if isinstance(par, ast.UnaryOp) and isinstance(par.op, ast.Not) and child is n:
                ok = True
                break
            if isinstance(par, ast.BoolOp) and child is n:
                # an operand of and/or counts when the BoolOp itself is only tested
                child, par = par, getattr(par, '_parent', None)
                n = child
                continue
            if isinstance(par, ast.If) and is_name(par.test, p) and any(child is b for b in par.body):
                ok = True
                break
            child, par = par, getattr(par, '_parent', None)
        if not ok:
            return False
    return True


def _stored_rendering_returns(m, R, sf, tw, body, name, cons):
    """Leading `if <guard>: return <the stored rendering>` statements of AnsiStr.to_str / __format__.  The stored rendering was made with
    fixed to_str arguments, so such a return is right exactly when the guard admits only those arguments (finite evaluation over
    the parameters: booleans both ways, the format spec None / '' / non-empty).  Returns (remaining body, stop)."""
    selfn = sf.self_name
    payload_forms = ('str.__str__(%s)' % selfn, 'str(%s)' % selfn, 'super().__str__()', 'super(AnsiStr, %s).__str__()' % selfn)
    lead = []
    rest = list(body)
    while rest and isinstance(rest[0], ast.If) and not rest[0].orelse and len(rest[0].body) == 1 and isinstance(rest[0].body[0], ast.Return) and \
            rest[0].body[0].value is not None and norm(rest[0].body[0].value) in payload_forms:
        lead.append(rest.pop(0))
    if not lead:
        return body, False
    stored = _stored_rendering_args(m)
    ts = m.cls('AnsiString').methods.get('to_str')
    if stored is None or ts is None:
        R.undecided(sf, lead[0], 'returns the stored rendering early, and how that rendering was made is not recognised', construct=cons)
        return body, True
    # the method's parameters as to_str arguments
    params = sf.own_params() + sf.kwonly
    if name == 'to_str':
        as_arg = {p_: p_ for p_ in params if p_ in stored}
    else:
        e, _r = single_return(tw)
        as_arg = {}
        if isinstance(e, ast.Call) and isinstance(e.func, ast.Attribute) and e.func.attr == 'to_str':
            bound, pr = bind_call(e, ts)
            tparams = tw.own_params()
            for q_, v_ in bound.items():
                if isinstance(v_, ast.Name) and v_.id in tparams and tparams.index(v_.id) < len(params):
                    as_arg[params[tparams.index(v_.id)]] = q_
    if not as_arg or set(as_arg) != set(params):
        R.undecided(sf, lead[0], 'returns the stored rendering early; parameters not matched to to_str arguments', construct=cons)
        return body, True
    import itertools
    doms = []
    for p_ in params:
        sv = stored[as_arg[p_]]
        if isinstance(sv, bool):
            doms.append([True, False])
        elif sv is None or isinstance(sv, str):
            doms.append([None, '', 'x'])
        else:
            R.undecided(sf, lead[0], 'returns the stored rendering early; domain of %s not enumerable' % p_, construct=cons)
            return body, True
    from ..finite import eval_guard
    for st in lead:
        bad = None
        unknown = None
        for combo in itertools.product(*doms):
            env = dict(zip(params, combo))

            def val(atom, env=env):
                if isinstance(atom, ast.Name) and atom.id in env:
                    return bool(env[atom.id])
                if isinstance(atom, ast.Compare) and len(atom.ops) == 1 and isinstance(atom.left, ast.Name) and atom.left.id in env:
                    c_ = const_val(atom.comparators[0], _MISSING)
                    if c_ is _MISSING:
                        return None
                    a_ = env[atom.left.id]
                    op = atom.ops[0]
                    if isinstance(op, ast.Is):
                        return a_ is c_
                    if isinstance(op, ast.IsNot):
                        return a_ is not c_
                    if isinstance(op, ast.Eq):
                        return a_ == c_
                    if isinstance(op, ast.NotEq):
                        return a_ != c_
                return None
            g = eval_guard(st.test, val)
            if g is None:
                unknown = env
                continue
            if not g:
                continue
            for p_ in params:
                sv = stored[as_arg[p_]]
                if env[p_] == sv and type(env[p_]) is type(sv):
                    continue
                if not isinstance(sv, bool) and not env[p_] and not sv and _truthiness_only(ts, as_arg[p_]):
                    continue        # None and '' are the same to a to_str that only asks whether a spec was given
                if not any(isinstance(n_, ast.Name) and n_.id == as_arg[p_] and isinstance(n_.ctx, ast.Load) for n_ in ts.walk()):
                    continue        # a parameter to_str never reads cannot change the rendering
                bad = (env, p_, sv)
                break
            if bad:
                break
        if bad:
            env, p_, sv = bad
            R.viol(sf, st, 'returns the stored rendering, which was made with %s=%r, also when called with %s: the twin AnsiString.%s honours %s' % (
                as_arg[p_], sv, ', '.join('%s=%r' % kv for kv in env.items()), name, p_), construct=cons)
            return body, True
        if unknown is not None:
            R.undecided(sf, st, 'guard of the early return of the stored rendering not evaluated: %s' % short(st.test), construct=cons)
            return body, True
    return rest, False



@rule('D3', 'ansistr-twins: every method common to both classes delegates to the same-named AnsiString method with the same '
            'arguments, on a copy when it mutates, and re-wraps the result', floor=60)
def D3(m, R):
    ro = m.roles
    S = m.cls('AnsiStr')
    A = m.cls('AnsiString')
    W = ro.WRAPPED
    from ..model import Func, astcopy
    for name, sf in S.methods.items():
        if name not in A.methods or name in ('__new__', '__init__'):
            continue
        tw = A.methods[name]
        cons = 'AnsiStr.%s twin' % name
        selfn = sf.self_name
        wrapped = '%s.%s' % (selfn, W) if selfn else None
        # operators and built-ins applied to the wrapped string are its special methods: write them as such before matching
        if wrapped:
            node2 = _desugar_wrapped(astcopy(sf.node), wrapped)
            for parent in ast.walk(node2):
                for child in ast.iter_child_nodes(parent):
                    child._parent = parent
            node2._parent = getattr(sf.node, '_parent', None)
            sf = Func(sf.mod, sf.cls, node2)
        # the twin may itself be a thin wrapper `return self.X(...)`: a call of X with exactly the arguments the wrapper would pass is a call of the twin
        tex0, _r0 = single_return(tw)
        if wrapped and isinstance(tex0, ast.Call) and isinstance(tex0.func, ast.Attribute) and is_name(tex0.func.value, tw.self_name) and \
                tex0.func.attr != name and tex0.func.attr in A.methods:
            X = tex0.func.attr
            callee = A.methods[X]
            tb, _pr = bind_call(tex0, callee)
            changed_ = False

            class _Fold(ast.NodeTransformer):
                def visit_Call(self_, c):
                    nonlocal changed_
                    self_.generic_visit(c)
                    if not (isinstance(c.func, ast.Attribute) and c.func.attr == X and (norm(c.func.value) == wrapped or isinstance(c.func.value, ast.Name))):
                        return c
                    if is_name(c.func.value, selfn):
                        return c
                    cb, pr2 = bind_call(c, callee)
                    if pr2 or any(k.startswith('*') for k in list(cb) + list(tb)):
                        return c
                    mp = {}
                    pvars = tw.own_params() + tw.kwonly

                    def unify(pat, ex):
                        if isinstance(pat, ast.Name) and pat.id in pvars:
                            if pat.id in mp:
                                return norm(mp[pat.id]) == norm(ex)
                            mp[pat.id] = ex
                            return True
                        if type(pat) is not type(ex):
                            return False
                        for fld, pv in ast.iter_fields(pat):
                            if fld in ('ctx', 'lineno', 'col_offset', 'end_lineno', 'end_col_offset', 'kind', 'type_comment'):
                                continue
                            ev = getattr(ex, fld, None)
                            if isinstance(pv, ast.AST):
                                if not isinstance(ev, ast.AST) or not unify(pv, ev):
                                    return False
                            elif isinstance(pv, list):
                                if not isinstance(ev, list) or len(pv) != len(ev) or not all(
                                        unify(a_, b_) if isinstance(a_, ast.AST) else a_ == b_ for a_, b_ in zip(pv, ev)):
                                    return False
                            elif pv != ev:
                                return False
                        return True
                    for p_, te in tb.items():
                        if p_ not in cb:
                            if isinstance(te, ast.Name) and te.id in pvars:
                                continue        # the caller leaves it to the default: so does the call
                            return c
                        if not unify(te, cb[p_]):
                            return c
                    if any(p_ not in tb and norm(v_) != norm(callee.defaults.get(p_)) if callee.defaults.get(p_) is not None else p_ not in tb for p_, v_ in cb.items()):
                        return c
                    changed_ = True
                    pos = [x for x in tw.own_params() if x in mp]
                    return ast.copy_location(ast.Call(func=ast.Attribute(value=c.func.value, attr=name, ctx=ast.Load()), args=[],
                                                      keywords=[ast.keyword(arg=x, value=mp[x]) for x in pos + [k for k in tw.kwonly if k in mp]]), c)
            node3 = _Fold().visit(astcopy(sf.node))
            if changed_:
                ast.fix_missing_locations(node3)
                for parent in ast.walk(node3):
                    for child in ast.iter_child_nodes(parent):
                        child._parent = parent
                node3._parent = getattr(sf.node, '_parent', None)
                sf = Func(sf.mod, sf.cls, node3)
        body = sf.body
        tw_inplace = 'inplace' in tw.own_params() + tw.kwonly
        tw_mutator = not _returns_value(tw)

        def is_wrapped_call(e, meth=None):
            return isinstance(e, ast.Call) and isinstance(e.func, ast.Attribute) and norm(e.func.value) == wrapped and \
                (meth is None or e.func.attr == meth)

        def wrapped_call_problems(e):
            pr = []
            if e.func.attr != name:
                pr.append('calls %s.%s instead of %s.%s' % (W, e.func.attr, W, name))
                other = A.methods.get(e.func.attr)
                if other is None:
                    return pr
                return pr
            return pr + _twin_call_problems(e, tw, sf, False)

        # a mutating call made directly on the wrapped string (not on a copy of it) changes this AnsiStr, whatever is returned afterwards
        direct = None
        for st_ in body:
            c_ = st_.value if isinstance(st_, ast.Expr) else None
            if isinstance(c_, ast.Call) and isinstance(c_.func, ast.Attribute) and norm(c_.func.value) == wrapped and c_.func.attr in A.methods:
                callee = A.methods[c_.func.attr]
                if not _returns_value(callee) or 'inplace' in callee.own_params() + callee.kwonly:
                    direct = c_
            if isinstance(st_, ast.AugAssign) and norm(st_.target) == wrapped:
                direct = st_
        if direct is not None:
            R.viol(sf, direct, '`%s` is applied to the wrapped string itself, not to a copy: this AnsiStr (and every AnsiStr sharing it) changes' % short(direct),
                   construct=cons)
            continue
        # property (attribute form)
        if sf.is_property:
            expr, ret = single_return(sf)
            R.check(expr is not None and norm(expr) == '%s.%s' % (wrapped, name), sf, ret or sf.node,
                    'property reads %s.%s' % (W, name), 'property returns %s' % short(expr), construct=cons)
            continue
        pre_expr = None
        if name in ('to_str', '__format__'):
            body, stop_ = _stored_rendering_returns(m, R, sf, tw, body, name, cons)
            if stop_:
                continue
            if body is not sf.body and len(body) == 1 and isinstance(body[0], ast.Return) and body[0].value is not None:
                pre_expr = (body[0].value, body[0])
        if len(body) == 3 and isinstance(body[0], ast.Assign) and isinstance(body[0].targets[0], ast.Name) and isinstance(body[0].value, ast.List) and \
                not body[0].value.elts and isinstance(body[1], ast.For) and not body[1].orelse and len(body[1].body) == 1 and isinstance(body[1].body[0], ast.Expr) and \
                isinstance(body[1].body[0].value, ast.Call) and call_name(body[1].body[0].value) == 'append' and \
                is_name(body[1].body[0].value.func.value, body[0].targets[0].id) and len(body[1].body[0].value.args) == 1 and \
                isinstance(body[2], ast.Return) and is_name(body[2].value, body[0].targets[0].id):
            # `L = []; for x in IT: L.append(E); return L` is `return [E for x in IT]`
            lc_ = ast.copy_location(ast.ListComp(elt=body[1].body[0].value.args[0], generators=[
                ast.comprehension(target=body[1].target, iter=body[1].iter, ifs=[], is_async=0)]), body[1])
            r_ = ast.copy_location(ast.Return(value=lc_), body[2])
            ast.fix_missing_locations(r_)
            for parent in ast.walk(r_):
                for child in ast.iter_child_nodes(parent):
                    child._parent = parent
            r_._parent = sf.node
            body = [r_]
            pre_expr = (lc_, r_)
        if len(body) == 2 and isinstance(body[0], ast.Assign) and len(body[0].targets) == 1 and isinstance(body[0].targets[0], ast.Tuple) and \
                all(isinstance(t_, ast.Name) for t_ in body[0].targets[0].elts) and isinstance(body[1], ast.Return) and isinstance(body[1].value, (ast.List, ast.Tuple)) and \
                len(body[1].value.elts) == len(body[0].targets[0].elts) and len({call_name(e_) for e_ in body[1].value.elts}) == 1 and \
                all(isinstance(e_, ast.Call) and len(e_.args) == 1 and not e_.keywords and is_name(e_.args[0], t_.id)
                    for e_, t_ in zip(body[1].value.elts, body[0].targets[0].elts)):
            # `a, b, c = CALL; return [W(a), W(b), W(c)]` is `return [W(x) for x in CALL]` (the unpacking fixes the length)
            lc_ = ast.copy_location(ast.ListComp(elt=ast.Call(func=body[1].value.elts[0].func, args=[ast.Name(id='x_', ctx=ast.Load())], keywords=[]), generators=[
                ast.comprehension(target=ast.Name(id='x_', ctx=ast.Store()), iter=body[0].value, ifs=[], is_async=0)]), body[1])
            r_ = ast.copy_location(ast.Return(value=lc_), body[1])
            ast.fix_missing_locations(r_)
            for parent in ast.walk(r_):
                for child in ast.iter_child_nodes(parent):
                    child._parent = parent
            r_._parent = sf.node
            body = [r_]
            pre_expr = (lc_, r_)
        # form (ii): copy / call / re-wrap
        if len(body) == 3 and isinstance(body[0], ast.Assign) and isinstance(body[2], ast.Return):
            a0, s1, r2 = body
            problems = []
            cv = a0.targets[0].id if isinstance(a0.targets[0], ast.Name) else None
            if norm(a0.value) != '%s.copy()' % wrapped:
                problems.append('works on %s, not on a copy of the wrapped string' % short(a0.value))
            if isinstance(s1, ast.AugAssign) and name in ('__add__', '__iadd__'):
                if not (is_name(s1.target, cv) and isinstance(s1.op, ast.Add) and norm(s1.value) == sf.own_params()[0]):
                    problems.append('does %s instead of %s += %s' % (short(s1), cv, sf.own_params()[0]))
            elif isinstance(s1, ast.Expr) and isinstance(s1.value, ast.Call) and isinstance(s1.value.func, ast.Attribute) \
                    and is_name(s1.value.func.value, cv):
                c = s1.value
                if c.func.attr != name:
                    problems.append('calls %s.%s instead of %s.%s' % (cv, c.func.attr, cv, name))
                else:
                    problems += _twin_call_problems(c, tw, sf, tw_inplace)
            else:
                problems.append('second statement %s is not the mutating call on the copy' % short(s1))
            if not (call_name(r2.value) == 'AnsiStr' and len(r2.value.args) == 1 and is_name(r2.value.args[0], cv)):
                problems.append('returns %s, not AnsiStr(%s)' % (short(r2.value), cv))
            if not (tw_inplace or tw_mutator or name in ('__add__', '__iadd__')):
                problems.append('twin is neither in-place capable nor a mutator: copy/call/re-wrap discards its result')
            R.check(not problems, sf, sf.node, 'copy; %s on the copy with the same arguments; re-wrap' % name, '; '.join(problems), construct=cons)
            continue
        if len(body) == 2 and isinstance(body[0], ast.Assign) and isinstance(body[1], ast.Return) and norm(body[0].value) == '%s.copy()' % wrapped \
                and call_name(body[1].value) == 'AnsiStr' and [norm(a) for a in body[1].value.args] == [norm(body[0].targets[0])] and (tw_inplace or tw_mutator):
            R.viol(sf, sf.node, 'copies the wrapped string and re-wraps it but never applies %s to the copy: the method returns an unchanged value' % name, construct=cons)
            continue
        expr, ret = pre_expr or single_return(sf)
        if name == '__eq__':
            # another AnsiStr is equal exactly when the renderings are equal; anything else is unequal (guard first or a conjunction)
            rets = [n for n in sf.walk() if isinstance(n, ast.Return)]
            v = sf.own_params()[0]
            final = rets[-1].value if rets else None
            conj = list(final.values) if isinstance(final, ast.BoolOp) and isinstance(final.op, ast.And) else [final]
            cmp_ = conj[-1] if conj else None
            ok = cmp_ is not None and isinstance(cmp_, ast.Compare) and len(cmp_.ops) == 1 and isinstance(cmp_.ops[0], ast.Eq) and \
                {norm(cmp_.left), norm(cmp_.comparators[0])} == {'str(%s)' % selfn, 'str(%s)' % v}
            guard = any(norm(x) == 'isinstance(%s, AnsiStr)' % v for x in conj[:-1]) or \
                any(isinstance(n, ast.If) and norm(n.test) == 'not isinstance(%s, AnsiStr)' % v and len(n.body) == 1 and isinstance(n.body[0], ast.Return) and
                    const_val(n.body[0].value, None) is False for n in sf.body)
            pr_ = []
            if not ok:
                pr_.append('__eq__ returns %s, not the comparison of the two renderings' % short(final))
            if not guard:
                pr_.append('a value that is not an AnsiStr is not rejected first')
            R.check(not pr_, sf, rets[-1] if rets else sf.node, '__eq__ compares the renderings of two AnsiStr', '; '.join(pr_), construct=cons)
            continue
        # `return self` when the freshly built result `== self`: AnsiStr equality is equality of the renderings (checked above for __eq__), and a
        # rendering does not show a setting that is hidden under a conflicting one
        eqret = None
        for n_ in sf.walk():
            if isinstance(n_, ast.If) and len(n_.body) >= 1 and isinstance(n_.body[-1], ast.Return) and is_name(n_.body[-1].value, selfn) and \
                    isinstance(n_.test, ast.Compare) and len(n_.test.ops) == 1 and isinstance(n_.test.ops[0], ast.Eq) and \
                    selfn in (norm(n_.test.left), norm(n_.test.comparators[0])):
                eqret = n_
        if eqret is not None and (tw_inplace or tw_mutator) and name != '__eq__':
            R.viol(sf, eqret, 'returns this AnsiStr when %s: two AnsiStr are == when their renderings are equal, but %s can change the settings without changing the rendering '
                              '(red hidden under blue over the same range: removing red leaves the rendering as it is, and the returned object still reports red)'
                   % (short(eqret.test), name), construct=cons)
            continue
        if expr is None and name == 'remove_formatting' and body:
            # a "nothing was narrowed down, so everything goes" shortcut: `return self.clear_formatting()` -- right only for settings=None, start None / 0, end=None
            pre_ = {}
            b0 = body[0]
            k0 = 0
            if isinstance(b0, ast.Assign) and len(b0.targets) == 1 and isinstance(b0.targets[0], ast.Name) and isinstance(b0.value, (ast.BoolOp, ast.UnaryOp, ast.Compare)) \
                    and len(body) > 1:
                pre_[b0.targets[0].id] = b0.value
                k0 = 1
            g0 = body[k0] if k0 < len(body) else None
            if isinstance(g0, ast.If) and not g0.orelse and len(g0.body) == 1 and isinstance(g0.body[0], ast.Return) and isinstance(g0.body[0].value, ast.Call) and \
                    call_name(g0.body[0].value) == 'clear_formatting':
                import itertools
                from ..finite import eval_guard as _eg
                ps_ = sf.own_params()[:3]
                test_ = subst(g0.test, pre_)
                samples = {0: [None, [], 'x'], 1: [None, 0, 2], 2: [None, 0, 2]}
                witness, unknown = None, False
                for combo in itertools.product(*[samples[i_] for i_ in range(len(ps_))]):
                    env_ = dict(zip(ps_, combo))

                    def val_(a_, env_=env_):
                        if isinstance(a_, ast.Name) and a_.id in env_:
                            return bool(env_[a_.id])
                        if isinstance(a_, ast.Compare) and len(a_.ops) == 1 and isinstance(a_.left, ast.Name) and a_.left.id in env_:
                            c_ = const_val(a_.comparators[0], _MISSING)
                            if c_ is _MISSING:
                                return None
                            x_, op_ = env_[a_.left.id], a_.ops[0]
                            if isinstance(op_, ast.Is):
                                return x_ is c_
                            if isinstance(op_, ast.IsNot):
                                return x_ is not c_
                            if isinstance(op_, (ast.Eq, ast.NotEq)):
                                return (x_ == c_) if isinstance(op_, ast.Eq) else (x_ != c_)
                        return None
                    g_ = _eg(test_, val_)
                    if g_ is None:
                        unknown = True
                        continue
                    everything = env_.get(ps_[0]) is None and env_.get(ps_[1]) in (None, 0) and (len(ps_) < 3 or env_.get(ps_[2]) is None)
                    if g_ and not everything and witness is None:
                        witness = env_
                if witness is not None:
                    R.viol(sf, g0, 'returns clear_formatting() when %s, which also holds for %s: an end of 0 is an empty range and an empty selection names nothing -- the twin '
                                   'removes nothing there' % (short(test_), ', '.join('%s=%r' % kv for kv in witness.items())), construct=cons)
                    continue
                if unknown:
                    R.undecided(sf, g0, 'guard of the clear_formatting() shortcut not evaluated: %s' % short(test_), construct=cons)
                    continue
                body = body[k0 + 1:]
                if len(body) == 1 and isinstance(body[0], ast.Return) and body[0].value is not None:
                    expr, ret = body[0].value, body[0]
        if expr is None and name == 'clip' and body and isinstance(body[0], ast.If) and not body[0].orelse and len(body[0].body) == 1 and \
                isinstance(body[0].body[0], ast.Return) and is_name(body[0].body[0].value, selfn):
            # an early `return self` of clip(start, end): right only for bounds that select the whole string -- start None / 0 and end None
            import itertools
            from ..finite import eval_guard as _eg
            ps_ = sf.own_params()[:2]
            witness = None
            unknown = False
            for combo in itertools.product([None, 0, 2, -2], repeat=len(ps_)):
                env_ = dict(zip(ps_, combo))

                def val_(a_, env_=env_):
                    if isinstance(a_, ast.Name) and a_.id in env_:
                        return bool(env_[a_.id])
                    if isinstance(a_, ast.Compare) and len(a_.ops) == 1 and isinstance(a_.left, ast.Name) and a_.left.id in env_:
                        c_ = const_val(a_.comparators[0], _MISSING)
                        if c_ is _MISSING:
                            return None
                        x_ = env_[a_.left.id]
                        op_ = a_.ops[0]
                        if isinstance(op_, ast.Is):
                            return x_ is c_
                        if isinstance(op_, ast.IsNot):
                            return x_ is not c_
                        if x_ is None or c_ is None:
                            return (x_ == c_) if isinstance(op_, ast.Eq) else (x_ != c_) if isinstance(op_, ast.NotEq) else None
                        return {ast.Eq: x_ == c_, ast.NotEq: x_ != c_, ast.Lt: x_ < c_, ast.LtE: x_ <= c_, ast.Gt: x_ > c_, ast.GtE: x_ >= c_}.get(type(op_))
                    return None
                g_ = _eg(body[0].test, val_)
                if g_ is None:
                    unknown = True
                    continue
                whole = env_.get(ps_[0]) in (None, 0) and (len(ps_) < 2 or env_.get(ps_[1]) is None)
                if g_ and not whole and witness is None:
                    witness = env_
            if witness is not None:
                R.viol(sf, body[0], 'returns this AnsiStr unchanged when %s, which also holds for %s: s[%s:%s] is not the whole string (an end of 0 selects nothing)' % (
                    short(body[0].test), ', '.join('%s=%r' % kv for kv in witness.items()),
                    '' if witness.get(ps_[0]) is None else witness.get(ps_[0]), '' if len(ps_) < 2 or witness.get(ps_[1]) is None else witness.get(ps_[1])), construct=cons)
                continue
            if unknown:
                R.undecided(sf, body[0], 'guard of the early `return self` not evaluated: %s' % short(body[0].test), construct=cons)
                continue
            # the guard admits only whole-string bounds: go on with the rest
            rest_ = body[1:]
            if len(rest_) == 1 and isinstance(rest_[0], ast.Return) and rest_[0].value is not None:
                expr, ret = rest_[0].value, rest_[0]
        if expr is None and name == 'remove_formatting' and body and isinstance(body[0], ast.If) and not body[0].orelse and len(body[0].body) == 1 and \
                isinstance(body[0].body[0], ast.Return) and is_name(body[0].body[0].value, selfn):
            # an early `return self` guarded by find_settings(settings, ..) finding nothing: find_settings reports a position only where *all* the given
            # settings are active together (rule F4), remove_formatting removes *each* of them wherever it is active
            g_ = body[0].test
            atoms = list(g_.values) if isinstance(g_, ast.BoolOp) and isinstance(g_.op, ast.And) else [g_]
            sp = sf.own_params()[0] if sf.own_params() else None
            fs = [a_ for a_ in atoms if any(isinstance(x, ast.Call) and call_name(x) == 'find_settings' and x.args and is_name(x.args[0], sp) for x in ast.walk(a_))]
            others = [a_ for a_ in atoms if a_ not in fs]
            nothing_found = fs and all(
                (isinstance(a_, ast.Compare) and len(a_.ops) == 1 and isinstance(a_.ops[0], ast.Is) and const_val(a_.comparators[0], 0) is None) or
                (isinstance(a_, ast.UnaryOp) and isinstance(a_.op, ast.Not)) for a_ in fs)
            if len(fs) == 1 and nothing_found and all(norm(a_) in ('%s is not None' % sp, sp) for a_ in others):
                R.viol(sf, body[0], 'returns this AnsiStr unchanged when %s: find_settings reports a position only where all of the given settings are active '
                                    'together, while the twin removes each given setting wherever it is active -- with two settings that never overlap '
                                    '(bold on [0,3), red on [5,8)) nothing is removed although both are given' % short(g_), construct=cons)
                continue
        if expr is None and name == 'simplify' and body and isinstance(body[0], ast.If) and not body[0].orelse and len(body[0].body) == 1 and \
                isinstance(body[0].body[0], ast.Return) and is_name(body[0].body[0].value, selfn):
            # an early `return self` of simplify() guarded by per-setting predicates only (every setting valid / parsable / optimizable): the twin
            # re-parses its own rendering on every call (an unconditional set_ansi_str(..) at the top level of its body), which also merges
            # redundant and shadowed settings -- a fact about the settings *together* that no per-setting predicate states
            g_ = body[0].test
            atoms = list(g_.values) if isinstance(g_, ast.BoolOp) and isinstance(g_.op, ast.And) else [g_]
            per_setting = ('is_formatting_parsable', 'is_formatting_valid', 'is_optimizable')
            only_preds = all(isinstance(a_, ast.Call) and call_name(a_) in per_setting and not a_.args and not a_.keywords and
                             norm(a_.func.value) in (selfn, wrapped) for a_ in atoms)
            reparse = [st_ for st_ in tw.body if isinstance(st_, ast.Expr) and isinstance(st_.value, ast.Call) and call_name(st_.value) == 'set_ansi_str' and
                       norm(st_.value.func.value) == tw.self_name]
            if only_preds and reparse:
                R.viol(sf, body[0], 'returns this AnsiStr unchanged when %s: that says every setting is well-formed on its own, while the twin re-parses its own '
                                    'rendering on every call (L%d %s) and so also drops redundant and shadowed settings -- bold on [0,4) applied twice is '
                                    'parsable, and simplify() leaves one' % (short(g_), reparse[0].lineno, short(reparse[0])), construct=cons)
                continue
        if expr is None:
            R.undecided(sf, sf.node, 'twin form not recognised', construct=cons)
            continue
        # form (i'): the twin is itself a plain delegation to the text (D1) and this method delegates to the same text directly
        if isinstance(expr, ast.Call) and isinstance(expr.func, ast.Attribute) and expr.func.attr == name and \
                norm(expr.func.value) in ('%s.base_str' % selfn, '%s.base_str' % wrapped, '%s.%s' % (wrapped, ro.TEXT)):
            tex_, _ = single_return(tw)
            twin_delegates = isinstance(tex_, ast.Call) and isinstance(tex_.func, ast.Attribute) and tex_.func.attr == name and \
                norm(tex_.func.value) == '%s.%s' % (tw.self_name, ro.TEXT) and [norm(a) for a in tex_.args] == tw.own_params() and not tex_.keywords
            pr_ = []
            if not twin_delegates:
                pr_.append('calls the text\'s %s directly although AnsiString.%s is not a plain delegation to it' % (name, name))
            elif [norm(a) for a in expr.args] != sf.own_params() or expr.keywords or sf.own_params() != tw.own_params():
                pr_.append('arguments (%s) differ from the parameters (%s)' % (', '.join(norm(a) for a in expr.args), ', '.join(sf.own_params())))
            R.check(not pr_, sf, ret, 'delegates to the same str method of the text as AnsiString.%s does' % name, '; '.join(pr_), construct=cons)
            continue
        # form (i): return self.W.<same>(params)   (queries / renderers)
        if is_wrapped_call(expr):
            problems = wrapped_call_problems(expr)
            if tw_mutator:
                problems.append('the twin mutates its receiver and returns nothing: calling it on the wrapped string changes this AnsiStr')
            elif _ann_mentions_string(tw) and tw_inplace:
                problems.append('returns the AnsiString result without re-wrapping')
            R.check(not problems, sf, ret, 'returns %s.%s(<same arguments>)' % (W, name), '; '.join(problems), construct=cons)
            continue
        # form (iv): return AnsiStr(self.W.<same>(...))
        if call_name(expr) == 'AnsiStr' and len(expr.args) == 1 and is_wrapped_call(expr.args[0]):
            problems = wrapped_call_problems(expr.args[0])
            if tw_mutator:
                problems.append('twin %s mutates its receiver: calling it on the wrapped string changes this AnsiStr' % name)
            elif tw_inplace:
                # allowed when inplace is left at its default False: the twin then works on (and returns) its own copy
                b_, _ = bind_call(expr.args[0], tw)
                d_ = tw.defaults.get('inplace')
                if 'inplace' in b_ and const_val(b_['inplace'], None) is not False:
                    problems.append('inplace=%s is passed for the wrapped string itself: it would be modified' % short(b_['inplace']))
                elif 'inplace' not in b_ and const_val(d_, None) is not False:
                    problems.append('the twin\'s inplace default is not False: the wrapped string itself would be modified')
            R.check(not problems, sf, ret, 'returns AnsiStr(%s.%s(<same arguments>))' % (W, name), '; '.join(problems), construct=cons)
            continue
        # form (iii): [AnsiStr(x) for x in self.W.<same>(...)]
        if isinstance(expr, (ast.ListComp, ast.GeneratorExp)) or (call_name(expr) in ('tuple', 'list') and expr.args and
                                                                    isinstance(expr.args[0], (ast.ListComp, ast.GeneratorExp))):
            comp = expr if isinstance(expr, (ast.ListComp, ast.GeneratorExp)) else expr.args[0]
            g = comp.generators[0]
            problems = []
            if not is_wrapped_call(g.iter):
                problems.append('iterates %s, not a call on the wrapped string' % short(g.iter))
            else:
                problems += wrapped_call_problems(g.iter)
            if not (call_name(comp.elt) == 'AnsiStr' and len(comp.elt.args) == 1 and norm(comp.elt.args[0]) == norm(g.target)) or g.ifs:
                problems.append('elements are %s, not AnsiStr(<each piece>)' % short(comp.elt))
            R.check(not problems, sf, ret, 'returns [AnsiStr(x) for x in %s.%s(<same arguments>)]' % (W, name), '; '.join(problems), construct=cons)
            continue
        # form (v): named compositions
        tex, tret = single_return(tw)
        if name == '__iadd__':
            v = sf.own_params()[0]
            R.check(norm(expr) == '%s + %s' % (selfn, v), sf, ret, '__iadd__ is self + value (a new AnsiStr)',
                    '__iadd__ returns %s' % short(expr), construct=cons)
            continue
        if name == 'clear_formatting':
            R.check(norm(expr) in ('AnsiStr(%s.base_str)' % selfn, 'AnsiStr(%s.base_str)' % wrapped, 'AnsiStr(%s.%s)' % (wrapped, ro.TEXT)),
                    sf, ret, 'clear_formatting is AnsiStr(base_str)', 'clear_formatting returns %s' % short(expr), construct=cons)
            continue
        if name == 'join':
            R.check(norm(expr) == 'AnsiStr(AnsiString.join(*%s))' % sf.vararg, sf, ret, 'join re-wraps AnsiString.join(*args)',
                    'join returns %s' % short(expr), construct=cons)
            continue
        if name == '__iter__':
            it_ = expr.args[0] if call_name(expr) == 'iter' and len(expr.args) == 1 else expr
            ok = isinstance(it_, ast.Call) and call_name(it_) in m.classes and [norm(a) for a in it_.args] == [selfn]
            if ok and it_ is expr:
                from .D6 import _returns_self
                ok = _returns_self(m.classes[call_name(it_)].methods.get('__iter__'))
            R.check(ok, sf, ret, '__iter__ iterates a char iterator over this AnsiStr', '__iter__ returns %s' % short(expr), construct=cons)
            continue
        # sibling composition: both bodies are `return self.X(args)` with the same X and the same arguments (modulo inplace)
        if isinstance(expr, ast.Call) and isinstance(expr.func, ast.Attribute) and is_name(expr.func.value, selfn) and tex is not None \
                and isinstance(tex, ast.Call) and isinstance(tex.func, ast.Attribute) and is_name(tex.func.value, tw.self_name):
            problems = []
            if expr.func.attr != tex.func.attr:
                problems.append('composes %s where the twin composes %s' % (expr.func.attr, tex.func.attr))
            a1 = [norm(a) for a in expr.args]
            a2 = [norm(a) for a in tex.args]
            k1 = {k.arg: norm(k.value) for k in expr.keywords}
            k2 = {k.arg: norm(k.value) for k in tex.keywords if k.arg != 'inplace'}
            if 'inplace' in tw.own_params() and len(a2) > len(a1):
                a2 = a2[:len(a1)]
            if a1 != a2 or k1 != k2:
                problems.append('arguments (%s) differ from the twin\'s (%s)' % (', '.join(a1 + ['%s=%s' % kv for kv in k1.items()]),
                                                                                  ', '.join(a2 + ['%s=%s' % kv for kv in k2.items()])))
            R.check(not problems, sf, ret, 'same composition as the twin: self.%s(...)' % expr.func.attr, '; '.join(problems), construct=cons)
            continue
        # identical body working on the rendering (encode)
        if tex is not None and norm(expr).replace(selfn, '@') == norm(tex).replace(tw.self_name, '@') and \
                all(isinstance(x, ast.Name) or True for x in [expr]) and 'str(%s)' % selfn in norm(expr):
            R.ok(sf, ret, 'same expression as the twin over str(self), whose payload is the rendering', construct=cons)
            continue
        calls_twin = any(isinstance(x, ast.Call) and isinstance(x.func, ast.Attribute) and x.func.attr == name and
                         (norm(x.func.value) == wrapped or isinstance(x.func.value, ast.Name)) for x in sf.walk())
        inert = all(call_name(x) in ('AnsiStr', 'AnsiString', 'copy', 'str', '__str__') for x in sf.walk() if isinstance(x, ast.Call))
        if not calls_twin and inert:
            R.viol(sf, ret, 'returns %s without ever calling AnsiString.%s: the AnsiStr result is computed by something other than the twin operation' % (short(expr), name),
                   construct=cons)
            continue
        R.undecided(sf, ret, 'twin form not recognised: %s' % short(expr), construct=cons)
    # the AnsiStr char iterator re-wraps the wrapped string's characters
    if '_AnsiStrCharIterator' in m.classes:
        it = m.classes['_AnsiStrCharIterator']


# --------------------------------------------------------------------------------------------------------
# D4: colour wrappers

_COMP_OF_PREFIX = {'fg': 'FOREGROUND', 'bg': 'BACKGROUND', 'ul': 'UNDERLINE', 'dul': 'DOUBLE_UNDERLINE'}


def _resolve_wrapper(m, f, depth=0):
    """Follow `return Class.method(args)` delegation down to _AnsiControlFn.rgb / color256.
    Returns (base name, {base param: expr text in terms of the outermost parameters}) or a string describing the problem."""
    if depth > 4:
        return 'delegation chain too deep'
    if f.qual in ('_AnsiControlFn.rgb', '_AnsiControlFn.color256'):
        return f.name, {p: p for p in f.params}
    expr, ret = single_return(f)
    if expr is None or not (isinstance(expr, ast.Call) and isinstance(expr.func, ast.Attribute) and isinstance(expr.func.value, ast.Name)):
        return 'body is not a single delegating return'
    clsname = expr.func.value.id
    if clsname == '__class__':
        clsname = f.cls
    callee = m.funcs.get('%s.%s' % (clsname, expr.func.attr))
    if callee is None:
        return 'delegates to unknown %s.%s' % (clsname, expr.func.attr)
    bound, problems = bind_call(expr, callee)
    if problems:
        return '; '.join(problems)
    inner = _resolve_wrapper(m, callee, depth + 1)
    if isinstance(inner, str):
        return inner
    base, mapping = inner
    out = {}
    for bp, ex in mapping.items():
        # ex is an expression text over callee's params: only plain parameter names or constants are expected
        if ex in bound:
            out[bp] = norm(bound[ex])
        elif ex in callee.params:
            d = callee.defaults.get(ex)
            out[bp] = norm(d) if d is not None else '<missing>'
        else:
            out[bp] = ex
    return base, out


@rule('D4', 'colour-wrappers: fg_/bg_/ul_/dul_ x rgb/color256/colour256 delegate with the right component and argument order; '
            'rgb and color256 dispatch the component identically; clamp and 24-bit split', floor=40)
def D4(m, R):
    F = get_folder(m)
    for cls in ('_AnsiControlFn', 'AnsiFormat'):
        C = m.cls(cls)
        for name, f in C.methods.items():
            mm = re.match(r'^(?:(fg|bg|ul|dul)_)?(rgb|color256|colour256)$', name)
            if not mm or f.qual in ('_AnsiControlFn.rgb', '_AnsiControlFn.color256'):
                continue
            cons = '%s.%s wrapper' % (cls, name)
            res = _resolve_wrapper(m, f)
            if isinstance(res, str):
                R.undecided(f, f.node, res, construct=cons)
                continue
            base, mp = res
            want_base = 'rgb' if mm.group(2) == 'rgb' else 'color256'
            problems = []
            if base != want_base:
                problems.append('reaches _AnsiControlFn.%s instead of %s' % (base, want_base))
            basef = m.fn('_AnsiControlFn.' + want_base)
            value_params = [p for p in basef.params if p != 'component']
            own_vals = [p for p in f.params if p != 'component']
            for i, bp in enumerate(value_params):
                if base == want_base:
                    want = own_vals[i] if i < len(own_vals) else None
                    if mp.get(bp) != want:
                        problems.append('%s receives %s instead of %s' % (bp, mp.get(bp), want))
            comp = mp.get('component')
            if mm.group(1):
                wc = 'ColorComponentType.' + _COMP_OF_PREFIX[mm.group(1)]
                if comp is not None and comp.replace('ColourComponentType', 'ColorComponentType') != wc:
                    problems.append('component is %s, the name says %s' % (comp, wc))
            else:
                if comp != 'component':
                    problems.append('the component argument is not passed on (%s)' % comp)
                d = f.defaults.get('component')
                if d is None or not norm(d).endswith('.FOREGROUND'):
                    problems.append('default component is %s, documented FOREGROUND' % norm(d))
            R.check(not problems, f, f.node, 'reaches _AnsiControlFn.%s with %s' % (base, mp), '; '.join(problems), construct=cons)
    # dispatch inside rgb / color256
    setup = {}
    e = F.enum('_AnsiControlFn')
    for name in e.order:
        v = e.value(name)
        if isinstance(v, tuple) and len(v) == 2:
            setup[name] = v[0]
    P = F.enum('AnsiParam')
    comp_members = [k for k in F.enum('ColorComponentType').members]
    for base, sel, nargs in (('rgb', 2, ['r', 'g', 'b']), ('color256', 5, None)):
        f = m.fn('_AnsiControlFn.' + base)
        argnames = nargs or [f.params[0]]
        # specialise the body for each value of `component`: decide every test that mentions it, follow the path to the return,
        # resolving locals chosen by a conditional expression on the way (any if / elif / early-return / lookup shape)
        def decide(t, member):
            if isinstance(t, ast.BoolOp):
                vs = [decide(x, member) for x in t.values]
                if isinstance(t.op, ast.And):
                    return False if False in vs else (None if None in vs else True)
                return True if True in vs else (None if None in vs else False)
            if isinstance(t, ast.UnaryOp) and isinstance(t.op, ast.Not):
                v = decide(t.operand, member)
                return None if v is None else not v
            if isinstance(t, ast.Compare) and len(t.ops) == 1 and 'component' in (norm(t.left), norm(t.comparators[0])):
                other = t.comparators[0] if norm(t.left) == 'component' else t.left
                op = t.ops[0]
                if isinstance(op, (ast.In, ast.NotIn)) and isinstance(other, (ast.Tuple, ast.List, ast.Set)) and norm(t.left) == 'component':
                    names = []
                    for x in other.elts:
                        try:
                            r_ = F.fold(x)
                        except Unfoldable:
                            return None
                        if not isinstance(r_, EnumRef):
                            return None
                        names.append(r_.name)
                    return (member in names) if isinstance(op, ast.In) else (member not in names)
                try:
                    ref = F.fold(other)
                except Unfoldable:
                    return None
                if not isinstance(ref, EnumRef):
                    return None
                if isinstance(op, (ast.Eq, ast.Is)):
                    return ref.name == member
                if isinstance(op, (ast.NotEq, ast.IsNot)):
                    return ref.name != member
            return None

        def decide_local(t_, env):
            """a test on a local whose value for this member is known: `x is None`, `x is not None`, `x`, `not x` with x bound to None or to an object"""
            if isinstance(t_, ast.UnaryOp) and isinstance(t_.op, ast.Not):
                v_ = decide_local(t_.operand, env)
                return None if v_ is None else not v_

            def known(e_):
                if isinstance(e_, ast.Name) and e_.id in env:
                    x_ = env[e_.id]
                    if isinstance(x_, ast.Constant):
                        return ('const', x_.value)
                    if isinstance(x_, (ast.Attribute, ast.Call, ast.List, ast.Tuple, ast.Dict)):
                        return ('object', None)
                return None
            if isinstance(t_, ast.Compare) and len(t_.ops) == 1 and isinstance(t_.ops[0], (ast.Is, ast.IsNot)) and const_val(t_.comparators[0], 0) is None:
                k_ = known(t_.left)
                if k_ is None:
                    return None
                isnone = k_ == ('const', None)
                return isnone if isinstance(t_.ops[0], ast.Is) else not isnone
            k_ = known(t_)
            if k_ is not None:
                if k_[0] == 'const':
                    return bool(k_[1])
                x_ = env[t_.id]
                if isinstance(x_, (ast.List, ast.Tuple)):
                    return bool(x_.elts)
                if isinstance(x_, ast.Attribute):
                    return True          # an enum member / function object
            return None

        def specialise(stmts, member, env):
            """-> the Return reached for this member (or None when the list ends); Undecided when a test on component is not understood"""
            for st in stmts:
                if isinstance(st, ast.If):
                    mentions = 'component' in names_in(st.test)
                    v = decide(st.test, member) if mentions else decide_local(st.test, env)
                    if v is None:
                        if mentions or any(isinstance(x, ast.Return) for x in ast.walk(st)):
                            if mentions:
                                raise Undecided('dispatch test %s not understood' % short(st.test))
                            raise Undecided('a return under %s' % short(st.test))
                        touched_ = {x.id for x in ast.walk(st) if isinstance(x, ast.Name) and isinstance(x.ctx, ast.Store)} | \
                            {x.func.value.id for x in ast.walk(st) if isinstance(x, ast.Call) and isinstance(x.func, ast.Attribute) and isinstance(x.func.value, ast.Name)}
                        if touched_ & set(env):
                            raise Undecided('%s changes a value the result is built from under a test that is not decided' % short(st.test))
                        continue
                    r_ = specialise(st.body if v else st.orelse, member, env)
                    if r_ is not None:
                        return r_
                elif isinstance(st, ast.Return):
                    return st
                elif isinstance(st, ast.Assign) and len(st.targets) == 1 and isinstance(st.targets[0], ast.Name):
                    v_ = st.value
                    while isinstance(v_, ast.IfExp) and 'component' in names_in(v_.test):
                        d_ = decide(v_.test, member)
                        if d_ is None:
                            raise Undecided('selection %s not understood' % short(v_.test))
                        v_ = v_.body if d_ else v_.orelse
                    if isinstance(v_, ast.Subscript) and norm(v_.slice) == 'component' and isinstance(v_.value, ast.Dict):
                        for k_, x_ in zip(v_.value.keys, v_.value.values):
                            try:
                                if isinstance(F.fold(k_), EnumRef) and F.fold(k_).name == member:
                                    v_ = x_
                            except Unfoldable:
                                pass
                    if st.targets[0].id not in ('r', 'g', 'b') + tuple(f.params):
                        env[st.targets[0].id] = subst(v_, env)
                elif isinstance(st, ast.Expr) and isinstance(st.value, ast.Call) and isinstance(st.value.func, ast.Attribute) and \
                        isinstance(st.value.func.value, ast.Name) and isinstance(env.get(st.value.func.value.id), ast.List) and st.value.args:
                    # the result list is built step by step
                    L_ = env[st.value.func.value.id]
                    a0_ = subst(st.value.args[0], env)
                    if st.value.func.attr == 'append':
                        env[st.value.func.value.id] = ast.List(elts=list(L_.elts) + [a0_], ctx=ast.Load())
                    elif st.value.func.attr == 'extend' and isinstance(a0_, (ast.List, ast.Tuple)):
                        env[st.value.func.value.id] = ast.List(elts=list(L_.elts) + list(a0_.elts), ctx=ast.Load())
                    elif st.value.func.attr == 'insert' and len(st.value.args) == 2 and const_val(st.value.args[0], None) == 0:
                        env[st.value.func.value.id] = ast.List(elts=[subst(st.value.args[1], env)] + list(L_.elts), ctx=ast.Load())
                    else:
                        raise Undecided('list operation %s' % short(st))
                elif isinstance(st, ast.AugAssign) and isinstance(st.target, ast.Name) and isinstance(env.get(st.target.id), ast.List) and isinstance(st.op, ast.Add):
                    a0_ = subst(st.value, env)
                    if not isinstance(a0_, (ast.List, ast.Tuple)):
                        raise Undecided('list operation %s' % short(st))
                    env[st.target.id] = ast.List(elts=list(env[st.target.id].elts) + list(a0_.elts), ctx=ast.Load())
            return None
        from ..finite import Undecided
        from ..shapes import subst
        arms = {}
        chain = f.node
        try:
            for cm_ in comp_members:
                env_ = {}
                r_ = specialise(f.body, cm_, env_)
                if r_ is not None:
                    arms[cm_] = [ast.copy_location(ast.Return(value=subst(r_.value, env_)), r_)]
        except Undecided as ex:
            R.undecided(f, f.node, str(ex), construct='%s dispatch' % base)
            continue
        if not arms:
            R.undecided(f, f.node, 'no dispatch on component found', construct='%s dispatch' % base)
            continue
        want = {
            'FOREGROUND': [(38, sel)], 'BACKGROUND': [(48, sel)],
            'UNDERLINE': [4, (58, sel)], 'DOUBLE_UNDERLINE': [21, (58, sel)],
        }
        for comp, exp in want.items():
            cons = '%s dispatch %s' % (base, comp)
            body = arms.get(comp)
            if body is None:
                R.viol(f, chain, 'nothing is returned for component %s' % comp, construct=cons)
                continue
            rets = [s for s in body if isinstance(s, ast.Return)]
            if len(rets) != 1 or not isinstance(rets[0].value, ast.List):
                R.undecided(f, body[0] if body else chain, 'arm does not return a list display', construct=cons)
                continue
            got = []
            bad_args = None
            for el in rets[0].value.elts:
                if call_name(el) != 'AnsiSetting' or len(el.args) != 1:
                    got.append('?' + short(el))
                    continue
                a = el.args[0]
                if isinstance(a, ast.Call) and isinstance(a.func, ast.Attribute) and a.func.attr == 'fn' and isinstance(a.func.value, ast.Attribute):
                    mem = a.func.value.attr
                    got.append(setup.get(e.canon(mem) if e.has(mem) else mem, '?' + mem))
                    an = [norm(x) for x in a.args]
                    if base != 'rgb' and an != argnames:
                        bad_args = an            # (for rgb the three values are checked by the clamp / split obligations below)
                else:
                    try:
                        got.append(F.fold(a))
                    except Unfoldable:
                        got.append('?' + short(a))
            problems = []
            if got != exp:
                problems.append('emits %r, the component needs %r' % (got, exp))
            if bad_args is not None:
                problems.append('colour arguments %s, expected %s' % (bad_args, argnames))
            R.check(not problems, f, rets[0], '%s -> %r + (%s)' % (comp, exp, ', '.join(argnames)), '; '.join(problems), construct=cons)
    # clamp and split in rgb: the three arguments handed to the colour function, evaluated for the three-value form (g and b given) and for
    # the packed form (g and b None) with every local written as what it stands for
    f = m.fn('_AnsiControlFn.rgb')
    P0, P1, P2 = f.params[:3]
    from ..inline import _subst as subst_once
    from ..finite import Undecided as _Und

    def rgb_args(form, comp):
        facts = {P1: form == 'three', P2: form == 'three'}          # parameter is not None?

        def dec(t):
            if isinstance(t, ast.BoolOp):
                vs = [dec(v) for v in t.values]
                if isinstance(t.op, ast.And):
                    return False if any(v is False for v in vs) else True if all(v is True for v in vs) else None
                return True if any(v is True for v in vs) else False if all(v is False for v in vs) else None
            if isinstance(t, ast.UnaryOp) and isinstance(t.op, ast.Not):
                v = dec(t.operand)
                return None if v is None else not v
            if isinstance(t, ast.Compare) and len(t.ops) == 1:
                l, r_, op = t.left, t.comparators[0], t.ops[0]
                if isinstance(op, (ast.Is, ast.IsNot)) and const_val(r_, 0) is None and isinstance(l, (ast.Attribute, ast.List, ast.Tuple, ast.Dict)):
                    return isinstance(op, ast.IsNot)              # a local written out as what it stands for: an enum member / a display is an object
                if isinstance(op, (ast.Is, ast.IsNot)) and const_val(r_, 0) is None and isinstance(l, ast.Constant):
                    return (l.value is None) if isinstance(op, ast.Is) else (l.value is not None)
                if isinstance(op, (ast.Is, ast.IsNot)) and const_val(r_, 0) is None and isinstance(l, ast.Name):
                    if l.id in facts:
                        return (not facts[l.id]) if isinstance(op, ast.Is) else facts[l.id]
                    if l.id == P0:
                        return isinstance(op, ast.IsNot)          # the first value is given in both forms
                if {norm(l), norm(r_)} == {P1, P2} and isinstance(op, (ast.NotEq, ast.Eq, ast.Is, ast.IsNot)) and form == 'packed':
                    return isinstance(op, (ast.Eq, ast.Is))      # both None
            if 'component' in names_in(t):
                return decide(t, comp)
            return None

        def run(stmts, env):
            for st in stmts:
                if isinstance(st, ast.If):
                    v = dec(subst_once(st.test, {k: x for k, x in env.items() if k not in (P0, P1, P2)}))
                    if v is None:
                        if any(isinstance(x, (ast.Return, ast.Assign, ast.AugAssign)) for x in ast.walk(st)):
                            raise _Und('test %s' % short(st.test))
                        continue
                    r_ = run(st.body if v else st.orelse, env)
                    if r_ is not None:
                        return r_
                elif isinstance(st, ast.Raise):
                    return 'raise'
                elif isinstance(st, ast.Return):
                    return subst_once(st.value, env) if st.value is not None else 'none'
                elif isinstance(st, ast.Assign) and len(st.targets) == 1:
                    t_, v_ = st.targets[0], subst_once(st.value, env)
                    if isinstance(v_, ast.Call) and call_name(v_) in ('tuple', 'list') and len(v_.args) == 1 and isinstance(v_.args[0], (ast.Tuple, ast.List)):
                        v_ = v_.args[0]
                    while isinstance(v_, ast.IfExp) and dec(v_.test) is not None:
                        v_ = v_.body if dec(v_.test) else v_.orelse
                    if isinstance(t_, ast.Name):
                        env[t_.id] = v_
                    elif isinstance(t_, (ast.Tuple, ast.List)) and isinstance(v_, (ast.Tuple, ast.List)) and len(t_.elts) == len(v_.elts) and \
                            all(isinstance(x, ast.Name) for x in t_.elts):
                        for x, y in zip(t_.elts, v_.elts):
                            env[x.id] = y
                    else:
                        raise _Und('assignment %s' % short(st))
                elif isinstance(st, ast.Expr) and isinstance(st.value, ast.Call) and isinstance(st.value.func, ast.Attribute) and \
                        isinstance(st.value.func.value, ast.Name) and isinstance(env.get(st.value.func.value.id), ast.List) and st.value.func.attr == 'append' and st.value.args:
                    L_ = env[st.value.func.value.id]
                    env[st.value.func.value.id] = ast.List(elts=list(L_.elts) + [subst_once(st.value.args[0], env)], ctx=ast.Load())
                elif isinstance(st, ast.Expr) and isinstance(st.value, ast.Constant):
                    continue
                else:
                    raise _Und('statement %s' % short(st))
            return None
        ret = run(f.body, {})
        if ret in (None, 'raise', 'none'):
            raise _Und('no value is returned in the %s form' % form)
        calls = [x for x in ast.walk(ret) if isinstance(x, ast.Call) and isinstance(x.func, ast.Attribute) and x.func.attr == 'fn']
        if len(calls) != 1:
            raise _Und('the returned value %s does not call one colour function' % short(ret))
        args = []
        for a_ in calls[0].args:
            if isinstance(a_, ast.Starred) and isinstance(a_.value, (ast.Tuple, ast.List)):
                args.extend(a_.value.elts)
            elif isinstance(a_, ast.Starred):
                raise _Und('starred argument %s' % short(a_))
            else:
                args.append(a_)
        return args, calls[0]

    def clamp_ok(v, source):
        # min(255, max(0, x)) / max(0, min(255, x)) up to argument order
        def parts(c):
            if not (isinstance(c, ast.Call) and call_name(c) in ('min', 'max') and len(c.args) == 2):
                return None
            consts = [const_val(a) for a in c.args if const_val(a) is not None]
            others = [a for a in c.args if const_val(a) is None]
            if len(consts) != 1 or len(others) != 1:
                return None
            return call_name(c), consts[0], others[0]
        o = parts(v)
        if o is None:
            return False
        i = parts(o[2])
        if i is None:
            return False
        bounds = {o[0]: o[1], i[0]: i[1]}
        return bounds == {'min': 255, 'max': 0} and norm(i[2]) == source

    def split_ok(v, mask, shift):
        got_shift = 0
        if isinstance(v, ast.BinOp) and isinstance(v.op, ast.RShift):
            got_shift = const_val(v.right)
            v = v.left
        return isinstance(v, ast.BinOp) and isinstance(v.op, ast.BitAnd) and (const_val(v.left) == mask or const_val(v.right) == mask) and \
            (norm(v.left) == P0 or norm(v.right) == P0) and got_shift == shift
    forms = {}
    for form in ('three', 'packed'):
        try:
            forms[form] = rgb_args(form, 'FOREGROUND')
        except _Und as ex:
            forms[form] = ex
    # the other components hand over the same three values in the same order
    for comp_ in ('BACKGROUND', 'UNDERLINE', 'DOUBLE_UNDERLINE'):
        cons_ = 'rgb arguments ' + comp_
        try:
            prob_ = []
            for form in ('three', 'packed'):
                ref_ = forms[form]
                if isinstance(ref_, Exception):
                    raise _Und(str(ref_))
                got_ = rgb_args(form, comp_)
                if [norm(x) for x in got_[0]] != [norm(x) for x in ref_[0]]:
                    prob_.append('for %s the colour function receives (%s) in the %s form, the FOREGROUND arm passes (%s)' % (
                        comp_, ', '.join(short(x) for x in got_[0]), 'three-value' if form == 'three' else 'packed', ', '.join(short(x) for x in ref_[0])))
            R.check(not prob_, f, f.node, 'component %s passes the same red, green, blue values as FOREGROUND' % comp_, '; '.join(prob_), construct=cons_)
        except _Und as ex:
            R.undecided(f, f.node, 'arguments for %s not evaluated: %s' % (comp_, ex), construct=cons_)
    names3 = ('r', 'g', 'b')
    for i_, (t, srcp) in enumerate(zip(names3, (P0, P1, P2))):
        cons = 'rgb clamp ' + t
        got = forms['three']
        if isinstance(got, Exception):
            R.undecided(f, f.node, 'three-value form not evaluated: %s' % got, construct=cons)
        elif len(got[0]) != 3:
            R.viol(f, got[1], 'the colour function receives %d arguments in the three-value form' % len(got[0]), construct=cons)
        else:
            R.check(clamp_ok(got[0][i_], srcp), f, got[1], 'argument %d is clamp(%s, 0, 255)' % (i_ + 1, srcp),
                    'in the three-value form argument %d of the colour function is %s, not %s clamped to 0..255' % (i_ + 1, short(got[0][i_]), srcp), construct=cons)
    want_split = {'r': (0xFF0000, 16), 'g': (0x00FF00, 8), 'b': (0x0000FF, 0)}
    for i_, t in enumerate(names3):
        mask, shift = want_split[t]
        cons = 'rgb split ' + t
        got = forms['packed']
        if isinstance(got, Exception):
            R.undecided(f, f.node, 'packed form not evaluated: %s' % got, construct=cons)
        elif len(got[0]) != 3:
            R.viol(f, got[1], 'the colour function receives %d arguments in the packed form' % len(got[0]), construct=cons)
        else:
            R.check(split_ok(got[0][i_], mask, shift), f, got[1], 'argument %d is (%s & %#08x) >> %d' % (i_ + 1, P0, mask, shift),
                    'in the packed form argument %d of the colour function is %s; expected mask %#08x shift %d of %s' % (i_ + 1, short(got[0][i_]), mask, shift, P0),
                    construct=cons)
    src = {'r': P0, 'g': P1, 'b': P2}
    # both-or-neither guard
    guard_ok = False
    for n in f.walk():
        if isinstance(n, ast.If) and isinstance(n.test, ast.Compare) and isinstance(n.test.ops[0], (ast.NotEq, ast.IsNot)) and \
                {norm(n.test.left), norm(n.test.comparators[0])} == {src['g'], src['b']} and any(isinstance(x, ast.Raise) for x in n.body):
            guard_ok = True
    R.check(guard_ok, f, f.node, 'g and b must both be given or both be None (ValueError otherwise)', construct='rgb g/b guard')


# --------------------------------------------------------------------------------------------------------
# D5: format_matching / unformat_matching

def _ifexp_value(e, valuation):
    from ..finite import eval_guard
    while isinstance(e, ast.IfExp):
        v = eval_guard(e.test, valuation)
        if v is None:
            return None
        e = e.body if v else e.orelse
    return e


@rule('D5', 'matching-delegation: escape iff not regex; finditer(spec, TEXT, IGNORECASE iff not match_case); the first `count` '
            'matches call apply/remove with (format, m.start(), m.end()); nothing else written', floor=12)
def D5(m, R):
    from ..finite import eval_guard, flag_valuation, order_valuation, run_block, merge_valuations, Undecided
    ro = m.roles
    # apply_formatting_for_match
    f = m.fn('AnsiString.apply_formatting_for_match')
    settings, mo, group = f.own_params()[:3]
    env = {}
    call = None
    for st in f.body:
        if isinstance(st, ast.Assign) and len(st.targets) == 1 and isinstance(st.targets[0], ast.Name):
            env[st.targets[0].id] = subst(st.value, env)
        elif isinstance(st, (ast.Expr, ast.Return)) and isinstance(st.value, ast.Call):
            call = subst(st.value, env)
    cons = 'apply_formatting_for_match'
    if call is None or not (isinstance(call.func, ast.Attribute) and is_name(call.func.value, f.self_name)):
        R.undecided(f, f.node, 'no call on the receiver found', construct=cons)
    else:
        ap = m.fn('AnsiString.apply_formatting')
        bound, problems = bind_call(call, ap)
        problems = list(problems)
        if call.func.attr != 'apply_formatting':
            problems.append('calls %s' % call.func.attr)
        aps = ap.own_params()
        want = {aps[0]: settings, aps[1]: '%s.start(%s)' % (mo, group), aps[2]: '%s.end(%s)' % (mo, group)}
        for k, v in want.items():
            if norm(bound.get(k)) != v:
                problems.append('%s=%s, expected %s' % (k, norm(bound.get(k)), v))
        for k in bound:
            if k not in want:
                problems.append('also passes %s=%s' % (k, norm(bound[k])))
        d = f.defaults.get(group)
        if const_val(d, None) != 0:
            problems.append('default group is %s, documented 0 (the whole match)' % norm(d))
        R.check(not problems, f, f.node, 'is apply_formatting(settings, m.start(group), m.end(group)), group=0', '; '.join(problems), construct=cons)

    for name, target, argform in (('format_matching', 'apply_formatting_for_match', 'apply'), ('unformat_matching', 'remove_formatting', 'remove')):
        f = m.fn('AnsiString.' + name)
        spec = f.own_params()[0]
        fmt = f.vararg
        selfn = f.self_name
        # the finditer call: in the loop header, or bound to a local first (`matches = re.finditer(..)` ... `for m in matches`)
        fi_defs = {n.targets[0].id: n.value for n in f.body if isinstance(n, ast.Assign) and len(n.targets) == 1 and isinstance(n.targets[0], ast.Name) and
                   call_name(n.value) == 'finditer' and
                   sum(1 for x in f.walk() if isinstance(x, ast.Name) and x.id == n.targets[0].id and isinstance(x.ctx, ast.Store)) == 1}
        loops = [st for st in f.body if isinstance(st, ast.For) and (call_name(st.iter) == 'finditer' or (isinstance(st.iter, ast.Name) and st.iter.id in fi_defs))]
        it0 = None
        if len(loops) == 1:
            it0 = loops[0].iter if call_name(loops[0].iter) == 'finditer' else fi_defs[loops[0].iter.id]
        pat = it0.args[0] if it0 is not None and it0.args else None
        # (1) escape iff not regex: the pattern searched is spec itself when regex, re.escape(spec) otherwise -- spec re-bound in place, or a local
        # bound under the flag
        esc = None
        for st in f.body:
            if isinstance(st, ast.If) and any(isinstance(x, ast.Assign) and norm(x) == '%s = re.escape(%s)' % (spec, spec) for x in st.body):
                esc = st
        cons = name + ' escape'
        pat_local_ok = None
        if esc is None and isinstance(pat, ast.Name) and pat.id != spec:
            defs_ = [n for n in f.walk() if isinstance(n, ast.Assign) and len(n.targets) == 1 and is_name(n.targets[0], pat.id)]
            val_by_flag = {}
            if len(defs_) == 2 and all(isinstance(getattr(d_, '_parent', None), ast.If) for d_ in defs_) and defs_[0]._parent is defs_[1]._parent:
                g_ = defs_[0]._parent
                for rv in (True, False):
                    tv_ = eval_guard(g_.test, flag_valuation({'regex': rv}))
                    if tv_ is not None:
                        val_by_flag[rv] = norm(next(d_ for d_ in defs_ if (d_ in g_.body) == tv_).value)
            elif len(defs_) == 1 and isinstance(defs_[0].value, ast.IfExp):
                for rv in (True, False):
                    tv_ = eval_guard(defs_[0].value.test, flag_valuation({'regex': rv}))
                    if tv_ is not None:
                        val_by_flag[rv] = norm(defs_[0].value.body if tv_ else defs_[0].value.orelse)
            if len(val_by_flag) == 2:
                pat_local_ok = val_by_flag == {True: spec, False: 're.escape(%s)' % spec}
                R.check(pat_local_ok, f, defs_[0], 're.escape applied iff not regex',
                        'the pattern searched is %s for regex=True and %s for regex=False; expected %s and re.escape(%s)' % (val_by_flag[True], val_by_flag[False], spec, spec),
                        construct=cons)
        if pat_local_ok is not None:
            spec_searched = pat.id
        elif esc is None:
            R.viol(f, f.node, 'the pattern is never passed through re.escape: a plain matchspec would be read as a regex', construct=cons)
            spec_searched = spec
        else:
            tt = {rv: eval_guard(esc.test, flag_valuation({'regex': rv})) for rv in (True, False)}
            R.check(tt == {True: False, False: True} and not esc.orelse, f, esc, 're.escape applied iff not regex',
                    're.escape applied for regex in %s' % sorted(k for k, v in tt.items() if v), construct=cons)
            spec_searched = spec
        # the matches collected in a list first and cut to `count` by a slice: a filter on the matches changes which ones count
        if len(loops) != 1:
            comps = [n for n in f.walk() if isinstance(n, (ast.ListComp, ast.GeneratorExp)) and len(n.generators) == 1 and call_name(n.generators[0].iter) == 'finditer']
            if len(comps) == 1 and comps[0].generators[0].ifs:
                g0 = comps[0].generators[0]
                R.viol(f, comps[0], 'the matches of re.finditer are filtered by `%s` before the first count of them are taken: not every one of the first count matches '
                                    'is formatted, and the filtered ones do not use up count (an empty match of "x*" is a match)' % short(g0.ifs[0]),
                       construct=name + ' match filter')
                continue
        # (2) finditer
        cons = name + ' finditer'
        if len(loops) != 1:
            R.undecided(f, f.node, '%d finditer loops' % len(loops), construct=cons)
            continue
        lp = loops[0]
        it = it0
        problems = []
        if norm(it.func) != 're.finditer':
            problems.append('iterates %s' % norm(it.func))
        args = list(it.args)
        if len(args) < 2 or norm(args[0]) != spec_searched or norm(args[1]) != '%s.%s' % (selfn, ro.TEXT):
            problems.append('searches (%s), expected (%s, %s.%s, flags)' % (', '.join(norm(a) for a in args[:2]), spec_searched, selfn, ro.TEXT))
        flags = args[2] if len(args) > 2 else next((k.value for k in it.keywords if k.arg == 'flags'), None)
        if isinstance(flags, ast.Name):
            # a local holding the flags: its single definition
            defs_ = [n for n in f.walk() if isinstance(n, ast.Assign) and len(n.targets) == 1 and is_name(n.targets[0], flags.id)]
            if len(defs_) == 1:
                flags = defs_[0].value
            elif len(defs_) == 2 and all(isinstance(getattr(d_, '_parent', None), ast.If) for d_ in defs_) and defs_[0]._parent is defs_[1]._parent:
                g_ = defs_[0]._parent
                in_body = defs_[0] in g_.body
                flags = ast.IfExp(test=g_.test, body=(defs_[0] if in_body else defs_[1]).value, orelse=(defs_[1] if in_body else defs_[0]).value)
        for mc in (True, False):
            v = _ifexp_value(flags, flag_valuation({'match_case': mc})) if flags is not None else None
            tv = norm(v) if v is not None else None
            if mc and tv not in ('0', 're.NOFLAG'):
                problems.append('match_case=True searches with flags %s (must be case-sensitive)' % tv)
            if not mc and tv not in ('re.IGNORECASE', 're.I'):
                problems.append('match_case=False searches with flags %s (must ignore case)' % tv)
        R.check(not problems, f, lp, 're.finditer(spec, TEXT, IGNORECASE iff not match_case)', '; '.join(problems), construct=cons)
        # (3) loop body per sign region of count
        mv = lp.target.id if isinstance(lp.target, ast.Name) else '?'
        foreign = []
        for x in ast.walk(lp):
            if isinstance(x, ast.If) and not (names_in(x.test) <= {'count'}):
                if any(isinstance(y, (ast.Continue, ast.Break, ast.Return)) for y in ast.walk(x)):
                    foreign.append(x)
        if foreign:
            R.viol(f, foreign[0], 'a match can be skipped / the scan ended under `%s`, a condition other than count: not every one of the first count matches of re.finditer '
                                  'is formatted (and skipped ones do not use up count)' % short(foreign[0].test), construct=name + ' match filter')
            continue
        for region, rank, empty in [(r_, k_, e_) for e_ in (False, True) for r_, k_ in (('<0', -1), ('=0', 0), ('>0', 1))]:
            cons = '%s count%s%s' % (name, region, ' (empty match)' if empty else '')
            calls, decs, others = [], [], []
            # an empty match (start == end) is a match like any other: it uses up count; formatting an empty range changes nothing
            order_ = {'count': rank, '0': 0, mv + '.start(0)': 100, mv + '.start()': 100, mv + '.end(0)': 100 if empty else 101,
                      mv + '.end()': 100 if empty else 101, mv + '.group(0)': not empty, mv + '.group()': not empty,
                      mv + '[0]': not empty}

            def visit(st):
                if isinstance(st, ast.Expr) and isinstance(st.value, ast.Call) and isinstance(st.value.func, ast.Attribute) \
                        and is_name(st.value.func.value, selfn):
                    calls.append(st.value)
                elif isinstance(st, ast.AugAssign) and is_name(st.target, 'count'):
                    decs.append(st)
                else:
                    others.append(st)
            try:
                out = run_block(lp.body, order_valuation(order_), visit)
            except Undecided as ex:
                R.undecided(f, lp, str(ex), construct=cons)
                continue
            problems = []
            if others:
                problems.append('unexpected statement %s' % short(others[0]))
            if region == '=0':
                if calls:
                    problems.append('count == 0 still formats a match')
            else:
                if len(calls) != 1 and not (empty and not calls):
                    problems.append('%d apply/remove calls for one match (expected exactly 1)' % len(calls))
                if out != 'fall':
                    problems.append('iteration ends with %s' % out)
                if region == '>0':
                    ok_dec = len(decs) == 1 and isinstance(decs[0].op, ast.Sub) and const_val(decs[0].value) == 1
                    if not ok_dec:
                        problems.append('count is not decremented by exactly 1 per formatted match (%s)' % [short(d) for d in decs])
                elif decs and not (isinstance(decs[0].op, ast.Sub) and (const_val(decs[0].value) or 0) > 0):
                    problems.append('a negative count ("all") is modified by %s' % short(decs[0]))
            for c in calls:
                if c.func.attr != target:
                    problems.append('calls %s instead of %s' % (c.func.attr, target))
                    continue
                callee = m.fn('AnsiString.' + target)
                bound, pr = bind_call(c, callee)
                problems += pr
                cps = callee.own_params()
                if argform == 'apply':
                    want = {cps[0]: fmt, cps[1]: mv}
                else:
                    want = {cps[0]: fmt, cps[1]: '%s.start(0)' % mv, cps[2]: '%s.end(0)' % mv}
                got = {k: norm(v).replace('.start()', '.start(0)').replace('.end()', '.end(0)') for k, v in bound.items() if not k.startswith('*')}
                if got != want:
                    problems.append('arguments %s, expected %s' % (got, want))
            R.check(not problems, f, lp, 'count%s: %s' % (region, 'no call' if region == '=0' else 'exactly one %s(%s, match range)' % (target, fmt)),
                    '; '.join(problems), construct=cons)
        # (4) nothing else touches the receiver
        w = attr_writes(f, selfn)
        other_calls = [n for n in f.walk() if isinstance(n, ast.Call) and isinstance(n.func, ast.Attribute) and is_name(n.func.value, selfn)
                       and n.func.attr != target]
        R.check(not w and not other_calls, f, f.node, 'nothing but the %s calls touches the receiver' % target,
                'also writes %s / calls %s' % (sorted(w), [short(c) for c in other_calls]), construct=name + ' effects')
        # (5) unformat: format <- None iff (not format or None in format)
        if name == 'unformat_matching':
            cons = name + ' none-means-all'
            st0 = None
            for st in f.body:
                if isinstance(st, ast.If) and any(isinstance(x, ast.Assign) and norm(x) == '%s = None' % fmt for x in st.body):
                    st0 = st
            if st0 is None:
                R.viol(f, f.node, 'no format or None never becomes "remove all"', construct=cons)
            else:
                states = {'empty': {'not %s' % fmt: True, fmt: False, 'None in %s' % fmt: False, 'None not in %s' % fmt: True, 'len(%s) == 0' % fmt: True},
                          'some': {'not %s' % fmt: False, fmt: True, 'None in %s' % fmt: False, 'None not in %s' % fmt: True, 'len(%s) == 0' % fmt: False},
                          'with-None': {'not %s' % fmt: False, fmt: True, 'None in %s' % fmt: True, 'None not in %s' % fmt: False, 'len(%s) == 0' % fmt: False}}
                tt = {k: eval_guard(st0.test, flag_valuation({}, ex)) for k, ex in states.items()}
                R.check(tt == {'empty': True, 'some': False, 'with-None': True}, f, st0, 'format becomes None exactly when empty or containing None',
                        'truth table %s, expected empty/with-None -> True, some -> False' % tt, construct=cons)

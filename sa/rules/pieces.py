"""Symbolic interpretation of the piece-offset loops of _split / splitlines (rules P14, P6 piece cursor, D6 pieces).

The loop that turns the str pieces into slices of the receiver is interpreted over linear forms for two consecutive pieces:
symbols C (cursor before the first piece), L1, L2 (piece lengths), SEP (separator length), G1, G2 (gaps skipped by a forward
find() -- only legitimate when the pieces are separated by characters that cannot occur in a piece).  Whatever the code shape
(index+length pairs, start/end spans, comprehension or loop), the k-th slice must be [c_k, c_k + L_k) with
c_1 = C (+G1), c_2 = c_1 + L1 + SEP (+G2)."""
import ast

from ..model import norm, call_name, const_val, is_name
from ..finite import eval_guard, flag_valuation, Undecided
from .P_more import Sym, _sym_eval


class PieceLoop:
    def __init__(self, func, text_expr, sep_name):
        self.f = func
        self.text = text_expr          # 'self._s'
        self.sep = sep_name            # parameter name or None


def _find_loops(f, text):
    """(the loop over the str pieces, name of the piece variable, source of the pieces)"""
    cands = []
    for n in f.walk():
        if isinstance(n, ast.For) and isinstance(n.target, ast.Name):
            cands.append(n)
    return cands


def interpret(m, f, sep_given, more_flags=None):
    """Returns dict(slices=[(lo, hi) for piece 1, 2], used_find=bool, problems=[...]) or raises Undecided."""
    ro = m.roles
    selfn = f.self_name
    text = '%s.%s' % (selfn, ro.TEXT)
    sep = f.own_params()[0] if f.name == '_split' else None
    # the pieces: result of TEXT.split / rsplit / splitlines
    piece_src = set()
    for n in f.walk():
        if isinstance(n, ast.Assign) and isinstance(n.targets[0], ast.Name):
            v = n.value
            vals = [v.body, v.orelse] if isinstance(v, ast.IfExp) else [v]
            if all(isinstance(x, ast.Call) and call_name(x) in ('split', 'rsplit', 'splitlines') and isinstance(x.func, ast.Attribute) and norm(x.func.value) == text for x in vals):
                piece_src.add(n.targets[0].id)
    loop = None
    for n in f.body:
        if isinstance(n, ast.For) and isinstance(n.target, ast.Name):
            it = n.iter
            if (isinstance(it, ast.Name) and it.id in piece_src) or (isinstance(it, ast.Call) and call_name(it) in ('split', 'rsplit', 'splitlines') and
                                                                      isinstance(it.func, ast.Attribute) and norm(it.func.value) == text):
                loop = n
    if loop is None:
        raise Undecided('loop over the str pieces not found')
    piece = loop.target.id
    # initial cursor(s): simple int assignments before the loop
    env = {}
    pre = f.body[:f.body.index(loop)]
    for n in pre:
        if isinstance(n, ast.Assign) and isinstance(n.targets[0], ast.Name) and isinstance(const_val(n.value, None), int):
            env[n.targets[0].id] = Sym(c=const_val(n.value))
    pre_later = [n for n in pre if isinstance(n, ast.If) or (isinstance(n, ast.Assign) and isinstance(n.targets[0], ast.Name) and
                                                            not isinstance(const_val(n.value, None), int))]
    table_scans = []
    lists = {}          # list name -> [tuple of forms] appended per iteration
    direct = []         # slices appended directly inside the loop
    used_find = []
    flags = dict(more_flags or {})
    if sep is not None:
        flags[sep] = sep_given
    extra = {}
    if sep is not None:
        extra = {'%s is None' % sep: not sep_given, '%s is not None' % sep: sep_given}

    def ev(e, k):
        t = norm(e)
        if t == 'len(%s)' % piece:
            return Sym({'L%d' % k: 1})
        if sep is not None and t == 'len(%s)' % sep:
            return Sym({'SEP': 1})
        if isinstance(e, ast.Call) and call_name(e) in ('find', 'index', 'rfind', 'rindex') and isinstance(e.func, ast.Attribute) and norm(e.func.value) == text:
            used_find.append((e, k))
            if call_name(e) not in ('find', 'index') or len(e.args) != 2 or norm(e.args[0]) != piece:
                raise Undecided('relocation %s' % t)
            return ev(e.args[1], k) + Sym({'G%d' % k: 1})
        if isinstance(e, ast.Constant) and isinstance(e.value, int):
            return Sym(c=e.value)
        if isinstance(e, ast.Name):
            if e.id in env:
                return env[e.id]
            raise Undecided('unknown name %s' % e.id)
        if isinstance(e, ast.BinOp) and isinstance(e.op, (ast.Add, ast.Sub)):
            a, b = ev(e.left, k), ev(e.right, k)
            return a + b if isinstance(e.op, ast.Add) else a - b
        if isinstance(e, ast.IfExp):
            v = eval_guard(e.test, flag_valuation(flags, extra))
            if v is None:
                raise Undecided('condition %s' % norm(e.test))
            return ev(e.body if v else e.orelse, k)
        raise Undecided('expression %s' % t)

    def run(stmts, k):
        for st in stmts:
            if isinstance(st, ast.If):
                v = eval_guard(st.test, flag_valuation(flags, extra))
                if v is None:
                    raise Undecided('test %s' % norm(st.test))
                run(st.body if v else st.orelse, k)
            elif isinstance(st, ast.Assign) and isinstance(st.targets[0], ast.Name):
                env[st.targets[0].id] = ev(st.value, k)
            elif isinstance(st, ast.AugAssign) and isinstance(st.target, ast.Name) and isinstance(st.op, (ast.Add, ast.Sub)):
                d = ev(st.value, k)
                env[st.target.id] = env[st.target.id] + d if isinstance(st.op, ast.Add) else env[st.target.id] - d
            elif isinstance(st, ast.Expr) and isinstance(st.value, ast.Call) and call_name(st.value) == 'append' and isinstance(st.value.func.value, ast.Name):
                a = st.value.args[0]
                if isinstance(a, ast.Tuple):
                    lists.setdefault(st.value.func.value.id, []).append(tuple(ev(x, k) for x in a.elts))
                elif isinstance(a, ast.Subscript) and is_name(a.value, selfn) and isinstance(a.slice, ast.Slice):
                    direct.append((ev(a.slice.lower, k), ev(a.slice.upper, k)))
                else:
                    raise Undecided('append of %s' % norm(a))
            elif isinstance(st, ast.Expr) and isinstance(st.value, ast.Constant):
                continue
            elif isinstance(st, ast.While) and not st.orelse and len(st.body) == 1 and isinstance(st.body[0], ast.AugAssign) and \
                    isinstance(st.body[0].op, ast.Add) and const_val(st.body[0].value, None) == 1 and isinstance(st.body[0].target, ast.Name):
                # `while c < len(text) and text[c] in TABLE: c += 1`: the gap is skipped by scanning for the characters of a table
                cvar = st.body[0].target.id
                conj = list(st.test.values) if isinstance(st.test, ast.BoolOp) and isinstance(st.test.op, ast.And) else [st.test]
                tab = None
                for c_ in conj:
                    if isinstance(c_, ast.Compare) and len(c_.ops) == 1 and isinstance(c_.ops[0], ast.In) and norm(c_.left) == '%s[%s]' % (text, cvar):
                        tab = c_.comparators[0]
                    elif isinstance(c_, ast.Call) and isinstance(c_.func, ast.Attribute) and c_.func.attr == 'isspace' and norm(c_.func.value) == '%s[%s]' % (text, cvar):
                        tab = 'isspace'
                if tab is None or cvar not in env:
                    raise Undecided('statement %s' % norm(st)[:60])
                table_scans.append((st, tab, k))
                env[cvar] = env[cvar] + Sym({'G%d' % k: 1})
            else:
                raise Undecided('statement %s' % norm(st)[:60])
    # integer locals computed before the loop under the flags (sep_len = 0 if sep is None else len(sep)); what is not an integer is skipped
    for n in pre_later:
        try:
            run([n], 0)
        except Undecided:
            pass
    # the cursor is symbolic C at loop entry if it was 0: keep the constant (offsets are absolute), i.e. C = that constant
    for k in (1, 2):
        run(loop.body, k)
    slices = list(direct)
    if not slices:
        # consumer: [self[a:b] for a, b in L] or a loop appending self[...]
        for n in f.walk():
            comp = None
            if isinstance(n, ast.ListComp) and len(n.generators) == 1 and isinstance(n.generators[0].iter, ast.Name) and n.generators[0].iter.id in lists:
                comp = (n.generators[0].target, n.elt, n.generators[0].iter.id)
            elif isinstance(n, ast.For) and isinstance(n.iter, ast.Name) and n.iter.id in lists and n is not loop:
                sub = next((x for x in ast.walk(n) if isinstance(x, ast.Subscript) and is_name(x.value, selfn) and isinstance(x.slice, ast.Slice)), None)
                if sub is not None:
                    comp = (n.target, sub, n.iter.id)
            if comp is None:
                continue
            tgt, elt, lname = comp
            if not (isinstance(elt, ast.Subscript) and is_name(elt.value, selfn) and isinstance(elt.slice, ast.Slice) and isinstance(tgt, ast.Tuple)):
                raise Undecided('piece consumer %s' % norm(elt))
            names = [norm(x) for x in tgt.elts]
            for tup in lists[lname]:
                if len(tup) != len(names):
                    raise Undecided('tuple arity')
                local = dict(zip(names, tup))

                def ev2(e):
                    if isinstance(e, ast.Name) and e.id in local:
                        return local[e.id]
                    if isinstance(e, ast.BinOp) and isinstance(e.op, (ast.Add, ast.Sub)):
                        a, b = ev2(e.left), ev2(e.right)
                        return a + b if isinstance(e.op, ast.Add) else a - b
                    if isinstance(e, ast.Constant) and isinstance(e.value, int):
                        return Sym(c=e.value)
                    raise Undecided('slice bound %s' % norm(e))
                slices.append((ev2(elt.slice.lower), ev2(elt.slice.upper)))
            break
    if len(slices) != 2:
        raise Undecided('%d piece slices interpreted' % len(slices))
    return {'slices': slices, 'used_find': used_find, 'loop': loop, 'piece': piece, 'sep': sep, 'table_scans': table_scans}

"""P7 marker pairing, P9 raise types / definite assignment, P19 erroneous paths, P20 seam order, P21 stop-of-removed,
P25 parsable clauses, P26 index provenance, P12 slice seeding."""
import ast
import re

from ..model import AnalysisError, norm, short, call_name, const_val, flatten_add, is_attr, is_name, names_in
from ..report import rule
from ..cfg import CFG, paths, PathExplosion, default_transfer
from ..finite import eval_guard, flag_valuation, order_valuation, run_block, Undecided, cmp_regions, merge_valuations
from ..shapes import bind_call, subst
from ..consteval import get_folder, Unfoldable, EnumRef
from .P import _parents, _path_text


@rule('P7', 'marker-pairing: what is inserted as start marker at `start` is inserted as stop marker at `end`; insert_settings appends for '
            'topmost and prepends otherwise', floor=3)
def P7(m, R):
    from ..shapes import local_aliases, canon, with_helpers
    ro = m.roles
    f = m.fn('AnsiString.apply_formatting')
    ins = m.fn('%s.insert_settings' % ro.POINT)
    al = local_aliases(f)
    tbl = '%s.%s' % (f.self_name, ro.TABLE)
    scrubbed = next((norm(n.targets[0]) for n in f.walk() if isinstance(n, ast.Assign) and call_name(n.value) == ro.SCRUB), None)
    ps = ins.own_params()

    def point_key(recv):
        """index expression of the point a receiver denotes: table[k], helper(k), table.setdefault(k, ...)"""
        t = subst(recv, al)
        if isinstance(t, ast.Subscript) and norm(t.value) == tbl:
            return norm(t.slice)
        if isinstance(t, ast.Call) and isinstance(t.func, ast.Attribute) and is_name(t.func.value, f.self_name) and len(t.args) == 1 and t.func.attr.startswith('_'):
            return norm(t.args[0])
        if isinstance(t, ast.Call) and call_name(t) == 'setdefault' and norm(t.func.value) == tbl:
            return norm(t.args[0])
        return None
    got = {}
    for c in [n for n in f.walk() if isinstance(n, ast.Call) and call_name(n) == 'insert_settings' and isinstance(n.func, ast.Attribute)]:
        b, _ = bind_call(c, ins)
        if scrubbed is None or norm(b.get(ps[1])) != scrubbed:
            continue
        k = point_key(c.func.value)
        got.setdefault(k, []).append({x: norm(v) for x, v in b.items()})
    cons = 'apply_formatting start/stop pairing'
    problems = []
    if None in got:
        R.undecided(f, f.node, 'the point receiving the settings is not recognised', construct=cons)
    else:
        s_, e_ = got.get('start', []), got.get('end', [])
        if len(s_) != 1 or len(e_) != 1 or set(got) - {'start', 'end'}:
            problems.append('the new settings are inserted at points %s; expected once at `start` and once at `end`' % {k: len(v) for k, v in got.items()})
        else:
            if s_[0].get(ps[0]) != 'True':
                problems.append('at `start` the settings are inserted with apply=%s (they must start there)' % s_[0].get(ps[0]))
            if e_[0].get(ps[0]) != 'False':
                problems.append('at `end` the settings are inserted with apply=%s (they must stop there)' % e_[0].get(ps[0]))
            if s_[0].get(ps[2]) != 'topmost':
                problems.append('start insertion ignores topmost (%s)' % s_[0].get(ps[2]))
        R.check(not problems, f, f.node, 'the scrubbed list is started at `start` (respecting topmost) and stopped at `end`', '; '.join(problems), construct=cons)
    # insert_settings: where the settings land for topmost / not topmost
    apply_p, settings_p, top_p = ps[:3]
    cons = 'insert_settings'
    ial = local_aliases(ins)
    lst = None
    sel_ok = None
    for n in ins.body:
        # (the model writes `x = a if c else b` as an if / else of two assignments)
        if isinstance(n, ast.If) and names_in(n.test) == {apply_p} and len(n.body) == 1 and len(n.orelse) == 1 and \
                all(isinstance(x, ast.Assign) and isinstance(x.targets[0], ast.Name) for x in (n.body[0], n.orelse[0])) and \
                norm(n.body[0].targets[0]) == norm(n.orelse[0].targets[0]):
            lst = norm(n.body[0].targets[0])
            tv = eval_guard(n.test, flag_valuation({apply_p: True}))
            a, b = (n.body[0].value, n.orelse[0].value) if tv else (n.orelse[0].value, n.body[0].value)
            sel_ok = (norm(a) == 'self.' + ro.START and norm(b) == 'self.' + ro.STOP and tv is not None, norm(a), norm(b))
    if lst is None:
        R.undecided(ins, ins.node, 'list selection not recognised', construct=cons)
        return
    problems = []
    if not sel_ok[0]:
        problems.append('apply=True selects %s, apply=False selects %s' % (sel_ok[1], sel_ok[2]))
    where = {}
    try:
        for tv in (True, False):
            ev = []
            loc = {}

            def visit(st, loc=loc):
                if isinstance(st, ast.Assign) and len(st.targets) == 1 and isinstance(st.targets[0], ast.Name):
                    loc[st.targets[0].id] = st.value
                if isinstance(st, ast.Expr) and isinstance(st.value, ast.Call) and call_name(st.value) == 'extend' and norm(st.value.func.value) == lst:
                    ev.append(('append', norm(st.value.args[0])))
                elif isinstance(st, ast.AugAssign) and norm(st.target) == lst and isinstance(st.op, ast.Add):
                    ev.append(('append', norm(st.value)))
                elif isinstance(st, ast.Assign) and isinstance(st.targets[0], ast.Subscript) and norm(st.targets[0].value) == lst and isinstance(st.targets[0].slice, ast.Slice):
                    sl = st.targets[0].slice

                    def pos(e):
                        if e is None:
                            return None
                        e = subst(e, {k: v for k, v in ial.items()})
                        # locals assigned on the way (under the decided topmost)
                        if isinstance(e, ast.Name) and e.id in loc:
                            e = loc[e.id]
                        while isinstance(e, ast.IfExp):
                            r = eval_guard(e.test, flag_valuation({top_p: tv}))
                            if r is None:
                                raise Undecided('position %s' % norm(e))
                            e = e.body if r else e.orelse
                        return norm(e)
                    lo, hi = pos(sl.lower), pos(sl.upper)
                    if (lo, hi) in ((None, '0'), ('0', '0')):
                        ev.append(('prepend', norm(st.value)))
                    elif (lo, hi) in (('len(%s)' % lst, None), ('len(%s)' % lst, 'len(%s)' % lst)):
                        ev.append(('append', norm(st.value)))
                    else:
                        ev.append(('slice %s:%s' % (lo, hi), norm(st.value)))
            run_block([x for x in ins.body], flag_valuation({top_p: tv, apply_p: True}, {
                'isinstance(%s, list)' % settings_p: True, 'isinstance(%s, tuple)' % settings_p: False, 'isinstance(%s, (list, tuple))' % settings_p: True,
                'not isinstance(%s, list)' % settings_p: False, 'not isinstance(%s, tuple)' % settings_p: True}), visit)
            where[tv] = ev
    except Undecided as e:
        R.undecided(ins, ins.node, str(e), construct=cons)
        return
    if where.get(True) != [('append', settings_p)]:
        problems.append('topmost does %s, expected the settings appended at the end (highest precedence)' % where.get(True))
    if where.get(False) != [('prepend', settings_p)]:
        problems.append('not topmost does %s, expected the settings inserted at the front in their order (lowest precedence)' % where.get(False))
    R.check(not problems, ins, ins.node, 'apply selects START/STOP; topmost appends, otherwise prepends', '; '.join(problems), construct=cons)
    # the points exist before they are used: an explicit create-if-missing, a helper doing it, or setdefault
    cons = 'apply_formatting points exist'
    creates = set()
    for g in with_helpers(m, f, 1):
        for n in g.walk():
            if isinstance(n, ast.If) and isinstance(n.test, ast.Compare) and isinstance(n.test.ops[0], ast.NotIn) and norm(n.test.comparators[0]).endswith('.' + ro.TABLE) and \
                    any(isinstance(x, ast.Assign) and call_name(x.value) == ro.POINT and not x.value.args and not x.value.keywords for x in n.body):
                creates.add(g.qual)
            if isinstance(n, ast.Call) and call_name(n) == 'setdefault' and norm(n.func.value).endswith('.' + ro.TABLE):
                creates.add(g.qual)
    if creates:
        R.ok(f, f.node, 'missing points are created empty before use (%s)' % sorted(creates), construct=cons)
    else:
        R.undecided(f, f.node, 'no create-if-missing for the points at start / end found', construct=cons)


# ----------------------------------------------------------------------------------------------------------------------
def _assigned_names(st):
    out = set()
    tg = []
    if isinstance(st, ast.Assign):
        tg = st.targets
    elif isinstance(st, (ast.AugAssign, ast.AnnAssign)):
        tg = [st.target] if getattr(st, 'value', True) is not None else []
    elif isinstance(st, (ast.For,)):
        tg = [st.target]
    elif isinstance(st, ast.With):
        tg = [i.optional_vars for i in st.items if i.optional_vars is not None]
    elif isinstance(st, (ast.Import, ast.ImportFrom)):
        return {(a.asname or a.name).split('.')[0] for a in st.names}
    elif isinstance(st, (ast.FunctionDef, ast.ClassDef)):
        return {st.name}
    for t in tg:
        for x in ast.walk(t):
            if isinstance(x, ast.Name) and isinstance(x.ctx, ast.Store):
                out.add(x.id)
    return out


def _reads(node):
    """Names loaded by the node's own expression(s) (not nested statements); comprehension targets excluded."""
    out = []
    roots = []
    if isinstance(node, ast.If) or isinstance(node, ast.While):
        roots = [node.test]
    elif isinstance(node, ast.For):
        roots = [node.iter]
    elif isinstance(node, ast.ExceptHandler):
        roots = []
    elif isinstance(node, ast.Try):
        roots = []
    elif isinstance(node, ast.With):
        roots = [i.context_expr for i in node.items]
    elif isinstance(node, ast.expr):
        roots = [node]
    elif isinstance(node, (ast.Assign, ast.AugAssign, ast.AnnAssign, ast.Expr, ast.Return, ast.Raise, ast.Delete, ast.Assert)):
        roots = [node]
    for r in roots:
        comp_targets = set()
        for x in ast.walk(r):
            if isinstance(x, (ast.ListComp, ast.SetComp, ast.GeneratorExp, ast.DictComp)):
                for g in x.generators:
                    for y in ast.walk(g.target):
                        if isinstance(y, ast.Name):
                            comp_targets.add(y.id)
            if isinstance(x, ast.Lambda):
                for a in x.args.args:
                    comp_targets.add(a.arg)
        for x in ast.walk(r):
            if isinstance(x, ast.Name) and isinstance(x.ctx, ast.Load) and x.id not in comp_targets:
                out.append(x)
            if isinstance(x, ast.AugAssign) and isinstance(x.target, ast.Name):
                out.append(ast.Name(id=x.target.id, ctx=ast.Load(), lineno=x.lineno, col_offset=x.col_offset))
    return out


@rule('P9', 'raise-types and definite assignment: only TypeError / ValueError are raised explicitly; no local is read on a path that never '
            'assigned it; no arithmetic minus between strings', floor=30)
def P9(m, R):
    import builtins
    ro = m.roles
    # (1) explicit raises
    for f in m.funcs.values():
        if f.mod.name in ('utils', '__init__'):
            continue
        for n in f.walk():
            if isinstance(n, ast.Raise):
                if n.exc is None:
                    continue
                t = call_name(n.exc) or norm(n.exc)
                allowed = {'TypeError', 'ValueError'} | ({'StopIteration'} if f.name == '__next__' else set())
                R.check(t in allowed, f, n, 'raises %s' % t, 'raises %s; documented error types are TypeError / ValueError' % t,
                        construct='raise in %s: %s' % (f.qual, re.sub(r'\s+', ' ', norm(n))[:60]))
    # (2) definite assignment
    modnames = {}
    for md in m.mods.values():
        names = set(dir(builtins))
        for st in md.tree.body:
            names |= _assigned_names(st)
        modnames[md.name] = names
    n_checked = 0
    for f in m.funcs.values():
        if f.mod.name in ('utils',):
            continue
        cfg = CFG(f.node, f.body)
        params = set(f.params) | set(f.kwonly) | ({f.vararg} if f.vararg else set()) | ({f.kwarg} if f.kwarg else set())
        locals_ = set()
        for n in f.walk():
            if isinstance(n, ast.stmt):
                locals_ |= _assigned_names(n)
            if isinstance(n, ast.ExceptHandler) and n.name:
                locals_.add(n.name)
            if isinstance(n, ast.NamedExpr) and isinstance(n.target, ast.Name):
                locals_.add(n.target.id)
        locals_ -= params
        if not locals_:
            continue
        # must-assigned dataflow
        order = [nd for nd in cfg.nodes]
        ALL = frozenset(locals_)
        inn = {nd.id: ALL for nd in order}
        inn[cfg.entry.id] = frozenset()

        def gen(nd):
            st = nd.stmt
            if nd.kind == 'stmt' and st is not None:
                return _assigned_names(st) & locals_
            if nd.kind == 'loop' and isinstance(st, ast.For):
                return set()    # bound on the True edge only; handled below
            if nd.kind == 'except' and st is not None and st.name:
                return {st.name}
            return set()
        changed = True
        out = {}
        while changed:
            changed = False
            for nd in order:
                if nd is cfg.entry:
                    cur = frozenset()
                else:
                    ins = []
                    for lab, p in nd.pred:
                        o = out.get(p.id, ALL)
                        if p.kind == 'loop' and isinstance(p.stmt, ast.For) and lab is True:
                            o = o | (_assigned_names(p.stmt) & locals_)
                        if lab == 'exc':
                            # the statement raising may not have completed its assignment
                            o = inn.get(p.id, ALL)
                        ins.append(o)
                    cur = frozenset.intersection(*ins) if ins else ALL
                if cur != inn.get(nd.id):
                    inn[nd.id] = cur
                    changed = True
                o = cur | frozenset(gen(nd))
                if out.get(nd.id) != o:
                    out[nd.id] = o
                    changed = True
        for nd in order:
            holder = nd.stmt if nd.kind in ('stmt', 'return', 'raise') else None
            if nd.kind in ('test', 'loop'):
                holder = nd.stmt
            if holder is None:
                continue
            for rd in _reads(holder):
                if rd.id not in locals_:
                    continue
                n_checked += 1
                if rd.id in inn[nd.id]:
                    continue
                # AugAssign / own-statement assignment does not help; confirm with a concrete path
                try:
                    def transfer(node, env, var=rd.id):
                        default_transfer(node, env)
                        st = node.stmt
                        if node.kind == 'stmt' and st is not None and var in _assigned_names(st):
                            env['#set'] = True
                    pp = paths(cfg, cfg.entry, lambda x, nd=nd: x is nd, transfer=transfer, max_visits=1, limit=100000)
                except PathExplosion:
                    pp = []
                wit = None
                for p, env in pp:
                    if p[-1] is not nd or env.get('#set'):
                        continue
                    # a for-loop head on the path binds its target when the body edge is taken
                    bound = False
                    for i, x in enumerate(p[:-1]):
                        if x.kind == 'loop' and isinstance(x.stmt, ast.For) and rd.id in _assigned_names(x.stmt):
                            nxt = p[i + 1]
                            if any(l is True and s is nxt for l, s in x.succ):
                                bound = True
                        if x.kind == 'except' and x.stmt is not None and x.stmt.name == rd.id:
                            bound = True
                    # entering a loop body (or reading inside one) depends on data: only report witnesses that reach the read without
                    # taking any loop's body edge -- a loop can always run zero times
                    enters = any(x.kind == 'loop' and any(l is True and s is p[i + 1] for l, s in x.succ) for i, x in enumerate(p[:-1]))
                    if not bound and not enters:
                        wit = p
                        break
                if wit is not None:
                    R.viol(f, holder, 'local `%s` is read here but not assigned on a path from the function entry (UnboundLocalError, which is neither of '
                                      'the documented error types)' % rd.id, construct='unbound %s in %s' % (rd.id, f.qual), witness=_path_text(wit, 14))
    # names that are nothing at all: not a local, parameter, module-level name or builtin (NameError)
    undefined = []
    for f in m.funcs.values():
        if f.mod.name in ('utils', '__init__'):
            continue
        known = set(f.params) | set(f.kwonly) | {f.vararg, f.kwarg, '__class__'} | modnames[f.mod.name]
        for n in f.walk():
            if isinstance(n, ast.stmt):
                known |= _assigned_names(n)
            if isinstance(n, ast.ExceptHandler) and n.name:
                known.add(n.name)
            if isinstance(n, (ast.ListComp, ast.SetComp, ast.GeneratorExp, ast.DictComp)):
                for g in n.generators:
                    known |= {y.id for y in ast.walk(g.target) if isinstance(y, ast.Name)}
            if isinstance(n, ast.Lambda):
                known |= {a.arg for a in n.args.args}
            if isinstance(n, (ast.Import, ast.ImportFrom)):
                known |= {(a.asname or a.name).split('.')[0] for a in n.names}
        for md_st in f.mod.tree.body:
            if isinstance(md_st, (ast.Import, ast.ImportFrom)):
                known |= {(a.asname or a.name).split('.')[0] for a in md_st.names}
        # nested functions and classes: their names, parameters and locals are names of this function's text as well
        for n in ast.walk(f.node):
            if n is not f.node and isinstance(n, (ast.FunctionDef, ast.AsyncFunctionDef, ast.ClassDef)):
                known.add(n.name)
            if n is not f.node and isinstance(n, (ast.FunctionDef, ast.AsyncFunctionDef, ast.Lambda)):
                a_ = n.args
                known |= {x.arg for x in a_.posonlyargs + a_.args + a_.kwonlyargs} | ({a_.vararg.arg} if a_.vararg else set()) | ({a_.kwarg.arg} if a_.kwarg else set())
                for y in ast.walk(n):
                    if isinstance(y, ast.Name) and isinstance(y.ctx, ast.Store):
                        known.add(y.id)
        for n in f.walk():
            if isinstance(n, ast.Name) and isinstance(n.ctx, ast.Load) and n.id not in known:
                undefined.append((f, n))
    for f, n in undefined:
        R.viol(f, n, 'name `%s` is not defined anywhere (NameError when this line runs)' % n.id, construct='undefined %s in %s' % (n.id, f.qual))
    for f in m.funcs.values():
        for n in f.walk():
            if isinstance(n, ast.Call) and call_name(n) == 'isinstance' and len(n.args) == 2 and isinstance(n.args[0], ast.Name) and \
                    n.args[0].id in ('list', 'tuple', 'str', 'int', 'dict', 'slice', 'bool') and n.args[0].id not in f.params:
                R.viol(f, n, '`%s`: the arguments of isinstance are swapped (TypeError: arg 2 must be a type, for every value reaching this test)' % short(n),
                       construct='isinstance swapped in ' + f.qual)
    f0 = m.fn('AnsiString.__getitem__')
    if not undefined:
        R.ok(f0, f0.node, 'every name read in a function is a local, a parameter, a module-level name or a builtin', construct='undefined names')
    R.ok(f0, f0.node, '%d reads of locals checked package-wide: each is assigned on every path that reaches it' % n_checked, construct='definite assignment')
    # (3) no `-` between strings
    F = get_folder(m)
    strnames = {k for k, v in F.env.items() if isinstance(v, str)}
    bad = []
    n_ops = 0
    for f in m.funcs.values():
        local_str = set()
        for n in f.walk():
            if isinstance(n, ast.Assign) and isinstance(n.targets[0], ast.Name) and _is_str(n.value, strnames | local_str, ro):
                local_str.add(n.targets[0].id)
        for n in f.walk():
            if isinstance(n, ast.BinOp) and isinstance(n.op, (ast.Sub, ast.Div, ast.FloorDiv)):
                n_ops += 1
                if _is_str(n.left, strnames | local_str, ro) or _is_str(n.right, strnames | local_str, ro):
                    bad.append((f, n))
    for f, n in bad:
        R.viol(f, n, '`%s` applies %s to a string operand: TypeError whenever this line runs' % (short(n), type(n.op).__name__), construct='str arithmetic in ' + f.qual)
    if not bad:
        R.ok(f0, f0.node, 'none of the %d subtraction / division expressions has a string operand' % n_ops, construct='str arithmetic')


def _is_str(e, strnames, ro):
    if isinstance(e, ast.Constant):
        return isinstance(e.value, str)
    if isinstance(e, ast.JoinedStr):
        return True
    if isinstance(e, ast.Name):
        return e.id in strnames
    if isinstance(e, ast.Attribute):
        return e.attr == ro.TEXT and isinstance(e.value, ast.Name) and e.value.id in ('self', 'obj', 'value', 'new_s', 'cpy')
    if isinstance(e, ast.Call):
        return call_name(e) in ('str', 'join', 'format', 'upper', 'lower', 'strip', 'replace') and not (call_name(e) == 'replace' and False)
    if isinstance(e, ast.BinOp) and isinstance(e.op, ast.Add):
        return _is_str(e.left, strnames, ro) or _is_str(e.right, strnames, ro)
    if isinstance(e, ast.BinOp) and isinstance(e.op, ast.Mult):
        return _is_str(e.left, strnames, ro) or _is_str(e.right, strnames, ro)
    if isinstance(e, ast.Subscript):
        return _is_str(e.value, strnames, ro)
    return False


# ----------------------------------------------------------------------------------------------------------------------
def erroneous_polarity(m):
    """The value of parse_graphic_sequence's second parameter under which items whose function could not be determined are KEPT (True for
    `add_erroneous`; False for a parameter of the opposite sense such as `strict`): read off the guards of the appends that mention it.  None when
    the guards disagree."""
    f = m.fn('parse_graphic_sequence')
    ae = f.params[1]
    votes = set()
    for n in f.walk():
        if isinstance(n, ast.If) and ae in names_in(n.test) and any(
                isinstance(x, ast.Expr) and call_name(x.value) == 'append' and x.value.args and call_name(x.value.args[0]) == 'AnsiSetting' for x in n.body):
            others = {nm: True for nm in names_in(n.test) if nm != ae}
            tv = {b: eval_guard(n.test, flag_valuation(dict(others, **{ae: b}))) for b in (True, False)}
            if tv[True] is True and tv[False] is False:
                votes.add(True)
            elif tv[False] is True and tv[True] is False:
                votes.add(False)
            else:
                votes.add(None)
    return votes.pop() if len(votes) == 1 else None


@rule('P19', 'erroneous-paths: parse_graphic_sequence keeps every integer token with add_erroneous=True, skips only a colour code without '
             'its setup otherwise, and an empty sequence is a reset', floor=4)
def P19(m, R):
    f = m.fn('parse_graphic_sequence')
    seq, ae = f.params[:2]
    # empty -> [AnsiSetting(RESET)]
    g = f.body[0] if f.body else None
    ok = isinstance(g, ast.If) and norm(g.test) == 'not ' + seq and len(g.body) == 1 and isinstance(g.body[0], ast.Return) and \
        norm(g.body[0].value) == '[AnsiSetting(AnsiParam.RESET.value)]'
    R.check(ok, f, g or f.node, 'an empty sequence yields the single setting RESET', 'empty sequence handling is %s' % (short(g) if g else None), construct='empty sequence')
    loop = None
    for n in f.body:
        if isinstance(n, ast.For) and any(call_name(x) == 'seq_starts_with_fn' for x in ast.walk(n)):
            loop = n
    if loop is None:
        raise AnalysisError('anchor vanished: scan loop of parse_graphic_sequence')
    value = norm(loop.target.elts[1]) if isinstance(loop.target, ast.Tuple) else norm(loop.target)
    cfg = CFG(f.node, f.body)
    head = cfg.loop_of[loop]
    first = [nd for l, nd in head.succ if l is True][0]
    cur_set = None
    for n in ast.walk(loop):
        if isinstance(n, ast.Call) and call_name(n) == 'AnsiSetting' and n.args and isinstance(n.args[0], ast.Name) and n.args[0].id != value:
            cur_set = n.args[0].id
    if cur_set is None:
        R.undecided(f, loop, 'group accumulator not found', construct='scan')
        return

    def transfer(node, env):
        default_transfer(node, env)
        st = node.stmt
        if node.kind == 'stmt' and isinstance(st, ast.Expr) and call_name(st.value) == 'append':
            tgt = norm(st.value.func.value)
            ev = env.get('#ev', ())
            env['#ev'] = ev + ((tgt, norm(st.value.args[0])),)
    # group start: abstract interpretation of the scan as a state machine over (accumulator empty?, remaining count) -- whenever no
    # group is pending, an integer token must be matched against the colour functions before it is stored
    pol = erroneous_polarity(m)
    R.check(pol is not False, f, f.node, 'the second parameter, when True, keeps the items whose function could not be determined (the sense of add_erroneous)',
            'the second parameter (%s) has the opposite sense of add_erroneous: parse_graphic_sequence(seq, True) now DROPS unknown codes and incomplete groups, '
            'parse_graphic_sequence(seq, False) keeps them; every caller that passes the flag by position, or by the name add_erroneous, gets the other behaviour' % ae,
            construct='flag sense')
    pol = True if pol is None else pol      # the flag value that keeps erroneous items; below, "add_erroneous" names that sense
    _group_start(R, f, loop, value, cur_set, ae, pol)
    # dangling group: flushed iff add_erroneous
    tail = f.body[f.body.index(loop) + 1:]
    g = next((n for n in tail if isinstance(n, ast.If) and cur_set in names_in(n.test)), None)
    cons = 'dangling group'
    if g is None:
        R.viol(f, f.node, 'an incomplete group at the end is never emitted, not even with add_erroneous=True', construct=cons)
    else:
        tt = {(a, b): eval_guard(g.test, flag_valuation({cur_set: a, ae: (b if pol else not b)})) for a in (True, False) for b in (True, False)}
        ok = tt == {(True, True): True, (True, False): False, (False, True): False, (False, False): False} and \
            any(call_name(x) == 'append' and norm(x.args[0]) == 'AnsiSetting(%s)' % cur_set for x in ast.walk(g) if isinstance(x, ast.Call))
        R.check(ok, f, g, 'an incomplete group is emitted exactly when add_erroneous=True', 'emitted for (non-empty, add_erroneous) in %s' % sorted(k for k, v in tt.items() if v),
                construct=cons)


def _group_start(R, f, loop, value, cur_set, ae, pol=True):
    cons = 'group start'
    dec = [n for n in ast.walk(loop) if isinstance(n, ast.AugAssign) and isinstance(n.op, ast.Sub) and const_val(n.value) == 1 and isinstance(n.target, ast.Name)]
    if len(dec) != 1:
        return
    cnt = dec[0].target.id
    pre = f.body[:f.body.index(loop)]
    init = {}
    for st in pre:
        if isinstance(st, ast.Assign) and len(st.targets) == 1 and isinstance(st.targets[0], ast.Name):
            if st.targets[0].id == cnt and isinstance(const_val(st.value, None), int):
                init['cnt'] = const_val(st.value)
            if st.targets[0].id == cur_set and isinstance(st.value, ast.List) and not st.value.elts:
                init['cs'] = 'E'
    if 'cs' not in init:
        R.undecided(f, loop, 'initial value of %s before the scan not recognised' % cur_set, construct=cons)
        return

    class Fork(Exception):
        pass

    def is_matcher(st):
        return isinstance(st, ast.For) and any(call_name(x) == 'seq_starts_with_fn' for x in ast.walk(st))

    def norm_cnt(c):
        return c if c == 'BIG' else (0 if c <= 0 else c if c <= 2 else 'BIG')

    def truth(t, st_):
        """three-valued truth of a test in abstract state st_"""
        if isinstance(t, ast.UnaryOp) and isinstance(t.op, ast.Not):
            v = truth(t.operand, st_)
            return None if v is None else not v
        if isinstance(t, ast.BoolOp):
            vs = [truth(x, st_) for x in t.values]
            if isinstance(t.op, ast.And):
                return False if False in vs else (None if None in vs else True)
            return True if True in vs else (None if None in vs else False)
        tx = norm(t)
        if isinstance(t, ast.Call) and call_name(t) == 'any' and 'setup_seq[0]' in tx and st_.get('combo') is not None:
            # "the token is the first code of some colour function": so in the outcomes CF / MT, not when no function is concerned
            return True if 'CF' in st_['combo'] else (None if 'MT' in st_['combo'] else False)
        if tx == cur_set:
            return st_['cs'] == 'N'
        if tx == 'len(%s)' % cur_set:
            return st_['cs'] == 'N'
        if tx == 'isinstance(%s, int)' % value:
            return st_['is_int']
        if tx == ae:
            return st_['ae'] if pol else not st_['ae']
        if isinstance(t, ast.Name) and t.id in st_['vars']:
            v = st_['vars'][t.id]
            return v if isinstance(v, bool) else (None if v == '?' else (False if v is None else True))
        if isinstance(t, ast.Compare) and len(t.ops) == 1:
            l, r, op = t.left, t.comparators[0], t.ops[0]
            if norm(r) == 'None' and isinstance(op, (ast.Is, ast.IsNot)) and isinstance(l, ast.Name) and l.id in st_['vars']:
                v = st_['vars'][l.id]
                if v == '?':
                    return None
                if l.id == st_.get('matchvar') and isinstance(v, bool):
                    v = True if v else None       # the matching function, or None / nothing when none matches
                return (v is None) if isinstance(op, ast.Is) else (v is not None)
            if norm(l) == cnt and isinstance(const_val(r, None), int):
                c = st_['cnt']
                k = const_val(r)
                if c == 'BIG':
                    lo = 3
                    res = {ast.Gt: lo > k, ast.GtE: lo >= k, ast.Lt: False if k <= lo else None, ast.LtE: False if k < lo else None,
                           ast.Eq: False if k < lo else None, ast.NotEq: True if k < lo else None}.get(type(op))
                    return res
                return {ast.Gt: c > k, ast.GtE: c >= k, ast.Lt: c < k, ast.LtE: c <= k, ast.Eq: c == k, ast.NotEq: c != k}.get(type(op))
            if norm(l) == 'len(%s)' % cur_set and const_val(r, None) == 0:
                e = st_['cs'] == 'E'
                return {ast.Eq: e, ast.NotEq: not e, ast.Gt: not e, ast.LtE: e}.get(type(op))
        return None

    def clone(st_):
        c = dict(st_)
        c['vars'] = dict(st_['vars'])
        return c

    results = []        # (end state, how the iteration ended)

    def run(stmts, st_, k):
        """continuation-passing abstract execution; k(state) is called at the end of the list"""
        if not stmts:
            return k(st_)
        s0, rest = stmts[0], stmts[1:]
        if isinstance(s0, ast.If):
            v = truth(s0.test, st_)
            if v is None and any((isinstance(x, ast.Attribute) and x.attr == 'parsable') or
                                 (isinstance(x, ast.Constant) and not isinstance(x.value, bool) and x.value in (255, 256)) for x in ast.walk(s0.test)):
                st_['range_tested'] = True       # a completed group may be withheld by the range test parsable applies (0..255)
            for outcome in ([v] if v is not None else [True, False]):
                run((s0.body if outcome else s0.orelse) + rest, clone(st_), k)
            return
        if isinstance(s0, ast.Continue):
            results.append((st_, 'continue'))
            return
        if isinstance(s0, (ast.Break, ast.Return, ast.Raise)):
            results.append((st_, 'exit'))
            return
        if is_matcher(s0):
            if st_['stored_first']:
                pass
            arms = []
            for n in s0.body:
                if isinstance(n, ast.If):
                    cur_ = n
                    while cur_ is not None:
                        tt_ = norm(cur_.test)
                        kind_ = 'MT' if 'seq_starts_with_fn' in tt_ else 'CF' if 'setup_seq[0]' in tt_ else '?'
                        arms.append((kind_, cur_.body))
                        cur_ = cur_.orelse[0] if len(cur_.orelse) == 1 and isinstance(cur_.orelse[0], ast.If) else None
            if any(k_ == '?' for k_, _ in arms) or not any(k_ == 'MT' for k_, _ in arms):
                raise Undecided('matcher loop %s' % short(s0))
            # outcomes over the colour functions: none concerns this code; one matches here (then its first code equals this code for the others of
            # its family too: both arms may run); the code is a colour code but no setup matches
            mt = [a_ for k_, a_ in arms if k_ == 'MT']
            cf = [a_ for k_, a_ in arms if k_ == 'CF']
            combos = [((), [])] + [(('MT',), mt)] + ([(('CF',), cf)] if cf else []) + ([(('CF', 'MT'), cf + mt), (('MT', 'CF'), mt + cf)] if cf else [])
            for tag, blocks in combos:
                s2 = clone(st_)
                s2['consulted'] = True
                s2['combo'] = tag
                body = [x for a in blocks for x in a]
                run(body + rest, s2, k)
            return
        if isinstance(s0, ast.Assign) and len(s0.targets) == 1 and isinstance(s0.targets[0], ast.Name) and \
                isinstance(s0.value, (ast.ListComp, ast.GeneratorExp, ast.Call)) and \
                any(isinstance(x, ast.Call) and call_name(x) == 'seq_starts_with_fn' for x in ast.walk(s0.value)) and \
                (not isinstance(s0.value, ast.Call) or call_name(s0.value) in ('list', 'tuple', 'next', 'any')):
            # the colour functions matched by a comprehension: the local holds the matching functions (empty = none matches)
            for tag in ((), ('MT',), ('CF',)):
                s2 = clone(st_)
                s2['consulted'] = True
                s2['combo'] = tag
                s2['vars'][s0.targets[0].id] = ('MT' in tag)
                s2['matchvar'] = s0.targets[0].id
                run(rest, s2, k)
            return
        if isinstance(s0, ast.Assign) and len(s0.targets) == 1:
            t_, v_ = s0.targets[0], s0.value
            pairs = list(zip(t_.elts, v_.elts)) if isinstance(t_, ast.Tuple) and isinstance(v_, ast.Tuple) and len(t_.elts) == len(v_.elts) else [(t_, v_)]
            vals = []
            for a_, b_ in pairs:
                if not isinstance(a_, ast.Name):
                    vals.append((None, None))
                    continue
                while isinstance(b_, ast.IfExp):
                    tv_ = truth(b_.test, st_)
                    if tv_ is None:
                        raise Undecided('condition %s' % short(b_.test))
                    b_ = b_.body if tv_ else b_.orelse
                if isinstance(b_, (ast.BoolOp, ast.UnaryOp, ast.Compare)) and truth(b_, st_) is not None:
                    vals.append((a_.id, truth(b_, st_)))
                    continue
                if isinstance(b_, ast.Constant):
                    val = b_.value
                elif isinstance(b_, ast.Call) and call_name(b_) == 'AnsiSetting' and len(b_.args) == 1 and norm(b_.args[0]) == cur_set:
                    val = 'GROUP'
                elif isinstance(b_, ast.Name) and b_.id in st_['vars']:
                    val = st_['vars'][b_.id]
                elif isinstance(b_, ast.Name) and b_.id == cnt:
                    val = st_['cnt']
                elif norm(b_).endswith('.total_seq_count'):
                    val = 'BIG'
                elif isinstance(b_, ast.List) and not b_.elts:
                    val = 'EMPTY'
                else:
                    val = '?'
                vals.append((a_.id, val))
            for nme, val in vals:
                if nme is None:
                    continue
                if nme == cnt:
                    if val == '?' or isinstance(val, bool) or val is None or val == 'EMPTY':
                        raise Undecided('%s is assigned %s' % (cnt, short(s0.value)))
                    st_['cnt'] = norm_cnt(val) if val != 'BIG' else 'BIG'
                elif nme == cur_set:
                    st_['cs'] = 'E' if val == 'EMPTY' else 'N'
                else:
                    st_['vars'][nme] = val
            return run(rest, st_, k)
        if isinstance(s0, ast.AugAssign) and isinstance(s0.target, ast.Name) and s0.target.id == cnt and isinstance(s0.op, (ast.Sub, ast.Add)) and \
                isinstance(const_val(s0.value, None), int):
            d = const_val(s0.value) * (1 if isinstance(s0.op, ast.Add) else -1)
            if st_['cnt'] == 'BIG':
                # at least 3 before: 2 or still big afterwards
                for c2 in ((2, 'BIG') if d == -1 else ('BIG',)):
                    s2 = clone(st_)
                    s2['cnt'] = c2
                    run(rest, s2, k)
                return
            st_['cnt'] = norm_cnt(st_['cnt'] + d)
            return run(rest, st_, k)
        if isinstance(s0, ast.Expr) and isinstance(s0.value, ast.Call) and call_name(s0.value) in ('append', 'extend') and \
                isinstance(s0.value.func, ast.Attribute) and norm(s0.value.func.value) == cur_set:
            if st_['cs'] == 'E' and not st_['consulted']:
                st_['stored_first'] = True
            st_['cs'] = 'N'
            st_['stored'] = True
            return run(rest, st_, k)
        if isinstance(s0, ast.Expr) and isinstance(s0.value, ast.Call) and call_name(s0.value) in ('append', 'extend') and s0.value.args:
            at_ = names_in(s0.value.args[0])
            if cur_set in at_ or any(st_['vars'].get(n_) == 'GROUP' for n_ in at_):
                st_['flushed'] = True
            elif value in at_:
                st_['emitted'] = True
            return run(rest, st_, k)
        if isinstance(s0, (ast.For, ast.While, ast.Try, ast.With)):
            raise Undecided('statement %s inside the scan' % short(s0))
        return run(rest, st_, k)

    problems = []
    facts = []
    nonint = []
    try:
        for flag in (False, True):
            # a token that is not an integer, in every head state
            for hs0 in (('E', 0), ('N', 1), ('N', 2), ('N', 'BIG')):
                results.clear()
                st0 = {'cs': hs0[0], 'cnt': hs0[1], 'ae': flag, 'vars': {}, 'consulted': False, 'stored_first': False, 'is_int': False, 'combo': None,
                       'stored': False, 'flushed': False, 'emitted': False, 'range_tested': False}
                run(list(loop.body), st0, lambda s_: results.append((s_, 'end')))
                nonint.extend((flag, s_) for s_, _h in results)
        for flag in (False, True):
            seen = set()
            # without an initial value the remaining count is arbitrary at the first token
            work = [(init['cs'], norm_cnt(init['cnt']))] if 'cnt' in init else [(init['cs'], c_) for c_ in (0, 1, 2, 'BIG')]
            reach = {}
            while work:
                hs = work.pop()
                if hs in seen:
                    continue
                seen.add(hs)
                results.clear()
                st0 = {'cs': hs[0], 'cnt': hs[1], 'ae': flag, 'vars': {}, 'consulted': False, 'stored_first': False, 'is_int': True, 'combo': None,
                       'stored': False, 'flushed': False, 'emitted': False, 'range_tested': False}
                run(list(loop.body), st0, lambda s_: results.append((s_, 'end')))
                for s_, how in list(results):
                    if how == 'exit':
                        continue
                    if hs[0] == 'E' and s_['stored_first']:
                        problems.append((flag, hs, reach.get(hs)))
                    facts.append((flag, hs, s_, how))
                    nh = (s_['cs'], s_['cnt'])
                    if nh not in seen:
                        reach.setdefault(nh, (hs, how))
                        work.append(nh)
    except Undecided as e:
        R.undecided(f, loop, 'scan not interpreted: %s' % e, construct=cons)
        return
    except RecursionError:
        R.undecided(f, loop, 'scan too deep to interpret', construct=cons)
        return
    if problems:
        flag, hs, via = problems[0]
        how = ''
        if via:
            how = ' -- reached from the state (%s, %s left) by an iteration ending in `%s`' % ('empty' if via[0][0] == 'E' else 'pending', via[0][1], via[1])
        R.viol(f, loop, 'with add_erroneous=%s the scan can start an iteration with no group pending and %s = %s, and then stores the token without '
               'matching it against the colour functions: a colour group that starts there is split into single codes%s' % (flag, cnt, hs[1], how), construct=cons)
    else:
        R.ok(f, loop, 'whenever no group is pending an integer token is matched against the colour functions before it is stored '
             '(all reachable states of (accumulator, %s))' % cnt, construct=cons)
    # ---- what happens to an integer token, by the outcome of the colour-function match
    for flag in (True, False):
        cons2 = 'add_erroneous=%s, int token' % flag
        bad = None
        for fl, hs, s_, how in facts:
            if fl != flag or s_['stored']:
                continue
            dangling = s_['combo'] == ('CF',)
            if flag or not dangling:
                bad = (hs, s_['combo'])
                break
        if flag:
            R.check(bad is None, f, loop, 'every integer token is kept', 'an integer token is dropped although add_erroneous=True (state %s, match outcome %s)' % (bad or ('', ''))[:2],
                    construct=cons2)
        else:
            R.check(bad is None, f, loop, 'an integer token is skipped only as a colour code without its setup sequence',
                    'an integer token can be skipped for another reason (state %s, match outcome %s)' % (bad or ('', ''))[:2], construct=cons2)
    bad = next((s_ for fl, s_ in nonint if not fl and (s_['stored'] or s_['emitted'])), None)
    R.check(bad is None, f, loop, 'non-integer tokens contribute nothing', 'a non-integer token is kept although add_erroneous=False', construct='add_erroneous=False, non-int token')
    # ---- group length and completion
    probs = []

    def withheld(fl, s_):
        # while erroneous items are dropped, a completed group may be left out under the range test (and the accumulator cleared)
        return (not fl) and s_['range_tested']
    for fl, hs, s_, how in facts:
        if not s_['stored']:
            continue
        if hs[0] == 'E':
            matched = s_['combo'] is not None and 'MT' in s_['combo']
            if matched:
                if s_['cs'] != 'N' or s_['cnt'] not in (2, 'BIG'):
                    probs.append('after the first code of a matched colour function the group is %s with %s codes left: the expected length is not the function\'s total length'
                                 % ('pending' if s_['cs'] == 'N' else 'closed', s_['cnt']))
            else:
                if s_['cs'] != 'E' or not (s_['flushed'] or withheld(fl, s_)):
                    probs.append('a plain code does not form a group of its own (%s codes left after it): the following codes are swallowed into its group' % (s_['cnt'],))
        else:
            if hs[1] == 1 and (s_['cs'] != 'E' or not (s_['flushed'] or withheld(fl, s_))):
                probs.append('the last code of a group does not complete it')
        if s_['range_tested'] and fl and s_['cs'] == 'E' and not s_['flushed'] and (hs[1] == 1 or hs[0] == 'E'):
            probs.append('a completed group can be withheld by the range test although erroneous items are to be kept')
            if hs[1] in (2, 'BIG') and s_['cs'] == 'E' and hs[1] == 2:
                probs.append('a group is emitted while a code is still missing')
        if s_['flushed'] and s_['cs'] != 'E':
            probs.append('the accumulator is not cleared after emission')
    R.check(not probs, f, loop, 'a group is 1 code or the matched function\'s total length; emitted and cleared when complete', '; '.join(sorted(set(probs))[:2]),
            construct='group completion')

# ----------------------------------------------------------------------------------------------------------------------
@rule('P20', 'seam-order: __iadd__ captures the shift before extending the text; every stored key is incoming key + shift', floor=3)
def P20(m, R):
    ro = m.roles
    f = m.fn('AnsiString.__iadd__')
    selfn = f.self_name
    txt = '%s.%s' % (selfn, ro.TEXT)
    tbl = '%s.%s' % (selfn, ro.TABLE)
    shift = next((n for n in f.body if isinstance(n, ast.Assign) and norm(n.value) == 'len(%s)' % txt), None)
    ext = next((n for n in f.body if isinstance(n, ast.AugAssign) and norm(n.target) == txt), None)
    cons = 'shift capture'
    ok = shift is not None and ext is not None and f.body.index(shift) < f.body.index(ext)
    R.check(ok, f, shift or f.node, 'shift = len(text) is taken before the text is extended',
            'the shift is taken after the text was extended (every incoming key lands beyond the end)' if shift is not None else 'no shift = len(text)', construct=cons)
    if shift is None:
        return
    sv = norm(shift.targets[0])
    lp = next((n for n in f.body if isinstance(n, ast.For) and isinstance(n.target, ast.Tuple)), None)
    cons = 'key shift'
    if lp is None:
        raise AnalysisError('anchor vanished: merge loop of __iadd__')
    k = norm(lp.target.elts[0])
    # every key under which the receiver's table is read or written inside the merge loop evaluates to <incoming key> + <shift>
    from .P_more import Sym, _sym_eval
    env_ = {k: Sym({'K': 1}), sv: Sym({'S': 1})}
    bad_keys = []
    try:
        for st_ in lp.body:
            if isinstance(st_, ast.AugAssign) and isinstance(st_.target, ast.Name) and isinstance(st_.op, (ast.Add, ast.Sub)):
                d_ = _sym_eval(st_.value, env_)
                env_[st_.target.id] = env_.get(st_.target.id, Sym({st_.target.id: 1})) + d_ if isinstance(st_.op, ast.Add) else env_.get(st_.target.id, Sym({st_.target.id: 1})) - d_
            elif isinstance(st_, ast.Assign) and len(st_.targets) == 1 and isinstance(st_.targets[0], ast.Name) and isinstance(st_.value, (ast.BinOp, ast.Name)):
                try:
                    env_[st_.targets[0].id] = _sym_eval(st_.value, env_)
                except Undecided:
                    pass
            else:
                break
        want_ = Sym({'K': 1, 'S': 1})
        for n in ast.walk(lp):
            key_ = None
            if isinstance(n, ast.Subscript) and norm(n.value) == tbl:
                key_ = n.slice
            elif isinstance(n, ast.Compare) and len(n.ops) == 1 and isinstance(n.ops[0], (ast.In, ast.NotIn)) and norm(n.comparators[0]) == tbl:
                key_ = n.left
            if key_ is not None and _sym_eval(key_, env_) != want_:
                bad_keys.append('%s = %r' % (norm(key_), _sym_eval(key_, env_)))
        R.check(not bad_keys, f, lp, 'the receiver\'s table is only touched under <incoming key> + <shift>',
                'inside the merge loop the receiver\'s table is accessed under %s (K = incoming key, S = shift); expected K + S' % sorted(set(bad_keys)), construct=cons)
    except Undecided as ex:
        R.undecided(f, lp, 'keys of the merge loop not evaluated: %s' % ex, construct=cons)
    cons = 'sorted merge'
    R.check(call_name(lp.iter) == 'sorted', f, lp, 'incoming points are merged in ascending key order', 'incoming points are visited as %s' % norm(lp.iter), construct=cons)
    ext_ok = ext is not None and isinstance(ext.op, ast.Add)
    src = norm(ext.value) if ext is not None else ''
    v_ = f.own_params()[0] if f.own_params() else 'value'
    direct = ext is not None and src == '%s.%s' % (v_, ro.TEXT)        # self.TEXT += value.TEXT, or through a local holding value.TEXT
    R.check(ext_ok and (direct or any(isinstance(n, ast.Assign) and norm(n.targets[0]) == src and norm(n.value).endswith('.' + ro.TEXT) for n in f.walk())),
            f, ext or f.node, 'the text is extended by the operand\'s text', construct='text extension')


# ----------------------------------------------------------------------------------------------------------------------
@rule('P21', 'stop-of-removed: inside the range a stop marker whose setting was removed (identity match) is deleted; start-block bookkeeping', floor=2)
def P21(m, R):
    ro = m.roles
    f = m.fn('AnsiString.remove_formatting')
    loop = next((n for n in f.walk() if isinstance(n, ast.For) and call_name(n.iter) == ro.ITERATOR), None)
    if loop is None:
        raise AnalysisError('anchor vanished: scan loop of remove_formatting')
    point = norm(loop.target.elts[1])
    stop = '%s.%s' % (point, ro.STOP)
    scan = None
    for n in ast.walk(loop):
        if isinstance(n, ast.For) and stop in norm(n.iter) and n is not loop:
            scan = n
    cons = 'stop-marker scan'
    if scan is None:
        R.viol(f, loop, 'stop markers of removed settings are never deleted: the iterator would later try to stop a setting that is not active', construct=cons)
        return
    problems = []
    it = norm(scan.iter)
    if it != 'reversed(range(len(%s)))' % stop:
        problems.append('scan order %s (deleting by index needs descending order)' % it)
    i = norm(scan.target)
    finds = [n for n in ast.walk(scan) if isinstance(n, ast.Call) and call_name(n) == ro.IDFIND1]
    if not finds:
        problems.append('the removed setting is not looked up by identity')
    else:
        a0 = norm(finds[0].args[0])
        if a0 not in ('%s[%s]' % (stop, i),) and not any(isinstance(s, ast.Assign) and norm(s.targets[0]) == a0 and norm(s.value) == '%s[%s]' % (stop, i) for s in scan.body):
            problems.append('looks up %s, not the stop marker at the scan position' % a0)
    dels = [n for n in ast.walk(scan) if isinstance(n, ast.Delete) and any(norm(t) == '%s[%s]' % (stop, i) for t in n.targets)]
    if not dels:
        problems.append('the matching stop marker is not deleted')
    else:
        g = next((p for p in _parents(dels[0]) if isinstance(p, ast.If)), None)
        if g is None or scan not in list(_parents(g)):
            problems.append('the deletion is unconditional')
    R.check(not problems, f, scan, 'stop markers of removed settings are matched by identity and deleted (descending index)', '; '.join(problems), construct=cons)
    # the start block: a selected setting that starts at this very point is un-started; one that continues from before is stopped here
    cons = 'start block bookkeeping'
    active = norm(loop.target.elts[2])
    sb = next((n for n in ast.walk(loop) if isinstance(n, ast.For) and norm(n.iter) == active), None)
    if sb is None:
        R.viol(f, loop, 'at the start of the range the active settings are not examined', construct=cons)
        return
    sv = norm(sb.target)
    look = next((n for n in ast.walk(sb) if isinstance(n, ast.Assign) and call_name(n.value) == ro.IDFIND1), None)
    g = next((n for n in ast.walk(sb) if isinstance(n, ast.If) and look is not None and norm(look.targets[0]) in names_in(n.test)), None)
    if look is None or g is None:
        R.undecided(f, sb, 'start-block lookup not recognised', construct=cons)
        return
    problems = []
    if [norm(a) for a in look.value.args] != [sv, '%s.%s' % (point, ro.START)]:
        problems.append('looks up %s, expected (%s, %s.%s)' % ([norm(a) for a in look.value.args], sv, point, ro.START))
    iv = norm(look.targets[0])
    found_true = eval_guard(g.test, order_valuation({iv: 0}))
    notfound_true = eval_guard(g.test, order_valuation({iv: -1}))
    if found_true is None or notfound_true is None or found_true == notfound_true:
        R.undecided(f, g, 'start-block test %s' % short(g.test), construct=cons)
        return
    found_arm, nf_arm = (g.body, g.orelse) if found_true else (g.orelse, g.body)
    ft = [norm(x) for x in found_arm]
    nt = [norm(x) for x in nf_arm]
    # statements that follow the if in the same block run in both cases
    blk = g._parent
    tail_ = []
    for fld in ('body', 'orelse'):
        L_ = getattr(blk, fld, None)
        if isinstance(L_, list) and g in L_:
            tail_ = [norm(x) for x in L_[L_.index(g) + 1:]]
    ft += tail_
    nt += tail_
    acc = None
    for t in nt:
        mm = re.match(r'^(\w+)\.append\(%s\)$' % re.escape(sv), t)
        if mm:
            acc = mm.group(1)
    if 'del %s.%s[%s]' % (point, ro.START, iv) not in ft:
        problems.append('a selected setting that starts at this point is not removed from its START list (%s)' % ft)
    if '%s.%s.append(%s)' % (point, ro.STOP, sv) not in nt:
        problems.append('a selected setting that continues from before the range is not stopped here (%s): it stays active inside the range' % nt)
    if acc is None or '%s.append(%s)' % (acc, sv) not in ft:
        problems.append('the removed setting is not recorded for the rest of the scan in both cases')
    R.check(not problems, f, g, 'starts here -> un-started; continues from before -> stopped here; recorded either way', '; '.join(problems), construct=cons)


# ----------------------------------------------------------------------------------------------------------------------
class _Returned(Exception):
    def __init__(self, value):
        self.value = value


class _LoopCtl(Exception):
    def __init__(self, kind):
        self.kind = kind


def _parsable_scenarios(R, m, f, codes, memo):
    """AnsiSetting.parsable, evaluated abstractly on every class of setting text the documented grammar distinguishes.  A scenario fixes
    the truth of the atoms the function may ask (valid? empty? first code RESET? each code an int in 0..255? first code known? does a
    colour function's setup match / is the first code a colour code? length right?); the body is interpreted statement by statement
    under it and must return the documented verdict.  Any control-flow shape is accepted; an atom the scenario does not determine makes
    the obligation UNDECIDED."""
    from ..shapes import local_aliases, canon, quantifier
    al = local_aliases(f)
    first = '%s[0]' % codes
    ln = 'len(%s)' % codes
    selfn = f.self_name

    def ctext(e):
        return canon(e, al)

    base = dict(valid=True, empty=False, reset=False, elem=7, known=True, fn='plain', lentotal='<', len1=True)
    scen = [
        ('not valid', dict(valid=False), False),
        ('empty', dict(empty=True), False),
        ('first code RESET', dict(reset=True, elem=0), False),
        ('a code that is not an integer', dict(elem='str'), False),
        ('a negative code', dict(elem=-1), False),
        ('a code above 255', dict(elem=256), False),
        ('unknown first code', dict(known=False, elem=99), False),
        ('colour code without its setup, alone', dict(fn='dangling', elem=38), False),
        ('colour code without its setup, more codes', dict(fn='dangling', elem=38, len1=False), False),
        ('complete colour function', dict(fn='match', elem=38, len1=False, lentotal='='), True),
        ('colour function with missing codes', dict(fn='match', elem=38, len1=False, lentotal='<'), False),
        ('colour function followed by extra codes', dict(fn='match', elem=38, len1=False, lentotal='>'), False),
        ('single known code 0 < c < 255', dict(), True),
        ('single known code 255', dict(elem=255), True),
        ('single known code 1', dict(elem=1), True),
        ('several plain codes', dict(len1=False), False),
    ]
    fn_seqs = {'plain': [[(False, False)], [(False, False), (False, False)]],
               'dangling': [[(False, True)], [(False, False), (False, True)], [(False, True), (False, False)]],
               'match': [[(True, True)], [(False, True), (True, True)], [(False, False), (True, True)]]}

    def run_scenario(sc, seq):
        st = {'vars': {}, 'memo': None, 'it': None, 'elem_var': None}

        def truth(t):
            if isinstance(t, ast.Constant):
                return bool(t.value)
            if isinstance(t, ast.UnaryOp) and isinstance(t.op, ast.Not):
                v = truth(t.operand)
                return None if v is None else not v
            if isinstance(t, ast.BoolOp):
                # short-circuit, left to right
                for x in t.values:
                    v = truth(x)
                    if v is None:
                        return None
                    if isinstance(t.op, ast.And) and not v:
                        return False
                    if isinstance(t.op, ast.Or) and v:
                        return True
                return isinstance(t.op, ast.And)
            q = quantifier(t)
            if q is not None:
                kind, it, tgt, pred = q
                if ctext(it) == codes and isinstance(tgt, ast.Name):
                    if sc['empty']:
                        return kind == 'all'
                    old = st['elem_var']
                    st['elem_var'] = tgt.id
                    try:
                        return truth(pred)
                    finally:
                        st['elem_var'] = old
                if norm(it) == '_AnsiControlFn' and isinstance(tgt, ast.Name):
                    outs = []
                    for mt, cf in (seq or [(False, False)]):
                        old = st['it']
                        st['it'] = (tgt.id, mt, cf)
                        try:
                            outs.append(truth(pred))
                        finally:
                            st['it'] = old
                    if None in outs:
                        return None
                    return all(outs) if kind == 'all' else any(outs)
                return None
            if isinstance(t, ast.Compare) and len(t.ops) == 1 and isinstance(t.ops[0], (ast.Is, ast.IsNot)) and isinstance(t.left, ast.Name) and \
                    t.left.id in st.get('fnvars', ()) and const_val(t.comparators[0], 0) is None:
                isnone = st['vars'].get(t.left.id) is None
                return isnone if isinstance(t.ops[0], ast.Is) else not isnone
            if isinstance(t, ast.Name) and t.id in st.get('fnvars', ()):
                return st['vars'].get(t.id) is not None
            if isinstance(t, ast.Compare) and len(t.ops) == 1 and isinstance(t.ops[0], (ast.Is, ast.IsNot)) and isinstance(t.left, ast.Name) and \
                    t.left.id in st['vars'] and const_val(t.comparators[0], 0) is None:
                # a local holding what a helper returned (a count, the marker of a function's total, or None)
                isnone = st['vars'][t.left.id] is None
                return isnone if isinstance(t.ops[0], ast.Is) else not isnone
            tx = ctext(t)
            if tx == '%s.valid' % selfn:
                return sc['valid']
            if tx == codes:
                return not sc['empty']
            if isinstance(t, ast.Call) and call_name(t) == 'hasattr':
                return False
            if isinstance(t, ast.Name) and t.id in st['vars'] and isinstance(st['vars'][t.id], bool):
                return st['vars'][t.id]
            if tx == '%s.%s' % (selfn, memo) and isinstance(st['memo'], bool):
                return st['memo']
            if isinstance(t, ast.Call) and call_name(t) == 'isinstance' and len(t.args) == 2 and norm(t.args[1]) == 'int':
                a0 = ctext(t.args[0])
                if a0 == st['elem_var'] or a0 == first:
                    return sc['elem'] != 'str'
                return None
            if isinstance(t, ast.Call) and call_name(t) == 'seq_starts_with_fn' and st['it'] is not None and norm(t.func.value) == st['it'][0] and \
                    [ctext(a) for a in t.args] == [codes]:
                return st['it'][1]
            if isinstance(t, ast.Compare):
                parts = [t.left] + list(t.comparators)
                res = True
                for (l, op, r) in zip(parts, t.ops, parts[1:]):
                    v = cmp2(l, op, r)
                    if v is None:
                        return None
                    if not v:
                        res = False
                        break
                return res
            return None

        def num(e):
            tx = ctext(e)
            if isinstance(const_val(e, None), int) and not isinstance(const_val(e, None), bool):
                return const_val(e)
            if tx in (st['elem_var'], first):
                if sc['empty'] and tx == first:
                    raise Undecided('%s read although the list may be empty' % first)
                return sc['elem'] if sc['elem'] != 'str' else None
            if tx == 'AnsiParam.RESET.value':
                return 0
            return None

        def cmp2(l, op, r):
            lt, rt = ctext(l), ctext(r)
            pair = {lt, rt}
            # length facts
            if ln in pair:
                other = r if lt == ln else l
                ot = ctext(other)
                swapped = lt != ln
                fn_names = ({st['it'][0]} if st['it'] is not None else set()) | {n_ for n_ in st.get('fnvars', ()) if isinstance(st['vars'].get(n_), tuple)}
                held = st['vars'].get(other.id) if isinstance(other, ast.Name) else None
                if isinstance(other, ast.Name) and other.id in st['vars'] and isinstance(held, int) and not isinstance(held, bool):
                    other = ast.Constant(value=held)
                if (ot.endswith('.total_seq_count') and ot[:-len('.total_seq_count')] in fn_names) or held == ('TOTAL',):
                    a_ = {'<': 4, '=': 5, '>': 6}[sc['lentotal']]
                    a_, b_ = (5, a_) if swapped else (a_, 5)
                    return {ast.Eq: a_ == b_, ast.NotEq: a_ != b_, ast.Lt: a_ < b_, ast.LtE: a_ <= b_, ast.Gt: a_ > b_, ast.GtE: a_ >= b_}.get(type(op))
                k = const_val(other, None)
                if isinstance(k, int):
                    n_ = 0 if sc['empty'] else (1 if sc['len1'] else 3)
                    a_, b_ = (k, n_) if swapped else (n_, k)
                    return {ast.Eq: a_ == b_, ast.NotEq: a_ != b_, ast.Lt: a_ < b_, ast.LtE: a_ <= b_, ast.Gt: a_ > b_, ast.GtE: a_ >= b_}.get(type(op))
                return None
            # first code against a colour function's code
            if st['it'] is not None and '%s.setup_seq[0]' % st['it'][0] in pair and (first in pair or st['elem_var'] in pair):
                if isinstance(op, (ast.Eq, ast.NotEq)):
                    return st['it'][2] if isinstance(op, ast.Eq) else not st['it'][2]
                return None
            # first code RESET
            if 'AnsiParam.RESET.value' in pair and first in pair and isinstance(op, (ast.Eq, ast.NotEq, ast.Is, ast.IsNot)):
                if sc['empty']:
                    raise Undecided('%s read although the list may be empty' % first)
                v = sc['reset']
                return v if isinstance(op, (ast.Eq, ast.Is)) else not v
            a_, b_ = num(l), num(r)
            if a_ is None or b_ is None:
                return None
            return {ast.Eq: a_ == b_, ast.NotEq: a_ != b_, ast.Lt: a_ < b_, ast.LtE: a_ <= b_, ast.Gt: a_ > b_, ast.GtE: a_ >= b_}.get(type(op))

        def value(e):
            if e is None:
                return None
            if isinstance(e, ast.Constant):
                return e.value
            tx = ctext(e)
            if tx == '%s.%s' % (selfn, memo):
                return st['memo']
            if isinstance(e, ast.Name) and e.id in st['vars']:
                return st['vars'][e.id]
            if isinstance(e, ast.Call) and isinstance(e.func, ast.Attribute) and e.func.attr.startswith('_') and not e.func.attr.startswith('__') and \
                    norm(e.func.value) in (selfn, '__class__', f.cls) and not e.keywords:
                h = m.funcs.get('%s.%s' % (f.cls, e.func.attr))
                if h is not None and h is not f:
                    from ..inline import _subst as subst1
                    ps_ = h.own_params() if h.self_name else list(h.params)
                    if len(ps_) != len(e.args):
                        raise Undecided('call %s' % short(e))
                    env_ = dict(zip(ps_, e.args))
                    if h.self_name and h.self_name != selfn:
                        env_[h.self_name] = ast.Name(id=selfn, ctx=ast.Load())
                    al.update({k_: v_ for k_, v_ in local_aliases(h).items() if k_ not in al})
                    try:
                        run([subst1(b_, env_) for b_ in h.body])
                    except _Returned as r_:
                        return r_.value
                    return None
            if isinstance(e, ast.Attribute) and e.attr == 'total_seq_count':
                fn_names_ = ({st['it'][0]} if st['it'] is not None else set()) | {n_ for n_ in st.get('fnvars', ()) if isinstance(st['vars'].get(n_), tuple)}
                if norm(e.value) in fn_names_:
                    return ('TOTAL',)        # the total length of the colour function under consideration
            v = truth(e)
            if v is None:
                raise Undecided('value `%s` is not determined by the scenario' % short(e))
            return v

        def decide(t):
            v = truth(t)
            if v is None:
                raise Undecided('test `%s` is not determined by the scenario' % short(t))
            return v

        def run(stmts):
            for s0 in stmts:
                if isinstance(s0, ast.If):
                    run(s0.body if decide(s0.test) else s0.orelse)
                elif isinstance(s0, ast.Return):
                    raise _Returned(value(s0.value))
                elif isinstance(s0, ast.Raise):
                    raise _Returned('raise')
                elif isinstance(s0, (ast.Break, ast.Continue)):
                    raise _LoopCtl('break' if isinstance(s0, ast.Break) else 'continue')
                elif isinstance(s0, ast.Assign) and len(s0.targets) == 1 and isinstance(s0.targets[0], ast.Name) and isinstance(s0.value, ast.Call) and \
                        call_name(s0.value) == 'next' and s0.value.args and isinstance(s0.value.args[0], ast.GeneratorExp) and \
                        norm(s0.value.args[0].generators[0].iter) == '_AnsiControlFn' and isinstance(s0.value.args[0].generators[0].target, ast.Name):
                    # the first colour function for which the filter holds, or the default
                    g_ = s0.value.args[0].generators[0]
                    hit = None
                    for mt, cf in (seq or []):
                        st['it'] = (g_.target.id, mt, cf)
                        try:
                            vs_ = [truth(c_) for c_ in g_.ifs]
                        finally:
                            st['it'] = None
                        if None in vs_:
                            raise Undecided('filter of %s' % short(s0.value))
                        if all(vs_):
                            hit = (mt, cf)
                            break
                    st['vars'][s0.targets[0].id] = ('FN', hit) if hit else None
                    st.setdefault('fnvars', set()).add(s0.targets[0].id)
                elif isinstance(s0, ast.Assign) and len(s0.targets) == 1:
                    t_ = s0.targets[0]
                    if norm(t_) == '%s.%s' % (selfn, memo):
                        st['memo'] = value(s0.value)
                    elif isinstance(t_, ast.Name):
                        v0 = s0.value
                        if isinstance(v0, ast.Call) and isinstance(v0.func, ast.Attribute) and v0.func.attr.startswith('_') and not v0.func.attr.startswith('__') and \
                                norm(v0.func.value) in (selfn, '__class__', f.cls) and m.funcs.get('%s.%s' % (f.cls, v0.func.attr)) is not None:
                            # what a private helper returns under this scenario is held by the local (it is not an alias of an expression)
                            al.pop(t_.id, None)
                            st['vars'][t_.id] = value(v0)
                            continue
                        if t_.id in al or call_name(s0.value) == 'to_list':
                            continue
                        st['vars'][t_.id] = value(s0.value)
                elif isinstance(s0, ast.For):
                    itx = ctext(s0.iter)
                    if itx == codes and isinstance(s0.target, ast.Name):
                        if not sc['empty']:
                            old = st['elem_var']
                            st['elem_var'] = s0.target.id
                            try:
                                run(s0.body)
                            except _LoopCtl as lc:
                                if lc.kind == 'break':
                                    st['elem_var'] = old
                                    continue
                            st['elem_var'] = old
                        run(s0.orelse)
                    elif norm(s0.iter) == '_AnsiControlFn' and isinstance(s0.target, ast.Name):
                        broke = False
                        for mt, cf in (seq or []):
                            st['it'] = (s0.target.id, mt, cf)
                            try:
                                run(s0.body)
                            except _LoopCtl as lc:
                                if lc.kind == 'break':
                                    broke = True
                                    break
                            finally:
                                st['it'] = None
                        if not broke:
                            run(s0.orelse)
                    else:
                        raise Undecided('loop over %s' % short(s0.iter))
                elif isinstance(s0, ast.Try):
                    raises = any(isinstance(x, ast.Call) and call_name(x) == 'AnsiParam' for b_ in s0.body for x in ast.walk(b_))
                    if raises and sc['empty']:
                        raise Undecided('the first code is looked up although the list may be empty')
                    if raises and (not sc['known'] or sc['elem'] == 'str' or (isinstance(sc['elem'], int) and not 0 <= sc['elem'] <= 255 and False)):
                        h = next((h_ for h_ in s0.handlers if h_.type is None or 'ValueError' in norm(h_.type) or norm(h_.type) == 'Exception'), None)
                        if h is None:
                            raise _Returned('raise')
                        run(h.body)
                    else:
                        run(s0.body)
                        run(s0.orelse)
                    run(s0.finalbody)
                elif isinstance(s0, (ast.Expr, ast.AugAssign, ast.Pass)):
                    continue
                else:
                    raise Undecided('statement %s' % short(s0))
        try:
            run(f.body)
        except _Returned as r_:
            return r_.value
        return None

    for name, delta, want in scen:
        sc = dict(base)
        sc.update(delta)
        cons = 'parsable: ' + name
        bad = None
        try:
            for seq in fn_seqs[sc['fn']]:
                got = run_scenario(sc, seq)
                if got is not want and not (want is False and got is False):
                    bad = (got, seq)
                    break
        except Undecided as ex:
            R.undecided(f, f.node, str(ex), construct=cons)
            continue
        except RecursionError:
            R.undecided(f, f.node, 'too deep', construct=cons)
            continue
        R.check(bad is None, f, f.node, 'a setting with %s is %sparsable' % (name, '' if want else 'not '),
                'for a setting with %s parsable returns %r; the documented answer is %r' % (name, bad[0] if bad else None, want), construct=cons)


@rule('P25', 'parsable-clauses: every clause of the documented grammar has its guard in AnsiSetting.parsable', floor=7)
def P25(m, R):
    f = m.fn('AnsiSetting.parsable')
    rets = [n for n in f.walk() if isinstance(n, ast.Return)]
    memo = None
    for n in f.walk():
        if isinstance(n, ast.Call) and call_name(n) == 'hasattr':
            memo = const_val(n.args[1])
    codes = None
    for n in f.walk():
        if isinstance(n, ast.Assign) and call_name(n.value) == 'to_list':
            codes = norm(n.targets[0])
    if codes is None:
        if any(isinstance(n, ast.Call) and call_name(n) == 'to_list' for n in f.walk()):
            codes = '%s.to_list()' % f.self_name         # passed straight on to a helper
        else:
            # the work is done in a private helper
            from ..shapes import with_helpers
            for g_ in with_helpers(m, f, 1)[1:]:
                for n in g_.walk():
                    if isinstance(n, ast.Assign) and call_name(n.value) == 'to_list':
                        codes = norm(n.targets[0])
            if codes is None:
                raise AnalysisError('anchor vanished: to_list() in parsable')
    _parsable_scenarios(R, m, f, codes, memo)
    # to_list: every token appended exactly once (a loop with try/int/except, or a comprehension over a convert-or-keep helper)
    tl = m.fn('AnsiSetting.to_list')
    lp3 = next((n for n in tl.walk() if isinstance(n, ast.For)), None)
    ok = None

    def int_or_same(h):
        """h(x): try: return int(x) except ValueError: return x"""
        b = h.body
        if len(b) == 1 and isinstance(b[0], ast.Try) and len(b[0].handlers) == 1 and norm(b[0].handlers[0].type) == 'ValueError':
            t_ = [x for x in b[0].body if isinstance(x, ast.Return)]
            e_ = [x for x in b[0].handlers[0].body if isinstance(x, ast.Return)]
            p0 = h.params[0] if h.params else None
            return len(t_) == 1 and norm(t_[0].value) == 'int(%s)' % p0 and len(e_) == 1 and norm(e_[0].value) == p0
        return False
    why = None
    if lp3 is not None:
        # every path through one iteration appends exactly one value: int(<token>) when the conversion succeeds, the token text when
        # it raises ValueError (paths over the CFG with its exception edges; names resolved along the path)
        rets_ = [n for n in tl.walk() if isinstance(n, ast.Return)]
        res = norm(rets_[-1].value) if rets_ else None
        from ..inline import _subst as subst1
        cfg3 = CFG(tl.node, tl.body)
        head3 = cfg3.loop_of[lp3]
        first3 = [nd for l, nd in head3.succ if l is True][0]
        tok = norm(lp3.target)
        try:
            ps3 = paths(cfg3, first3, lambda nd: nd is head3, max_visits=1, limit=2000)
        except PathExplosion:
            ps3 = None
        glued = None
        it3 = lp3.iter
        if call_name(it3) == 'split' and isinstance(it3.func, ast.Attribute) and call_name(it3.func.value) == 'replace' and \
                norm(it3.func.value.func.value) == 'self._str' and len(it3.func.value.args) == 2 and [norm(a) for a in it3.args] == ['ansi_sep']:
            a0_, a1_ = (const_val(x, None) for x in it3.func.value.args)
            if isinstance(a0_, str) and a0_ and a0_.isspace() and a1_ == '':
                glued = a0_
        if glued is not None:
            ok, why = False, ('blanks are removed from the whole text before it is split (%s): the digits on both sides of an interior blank are glued together, '
                              '"3 1" is read as the code 31 and the setting is reported parsable; only blanks around a whole field are insignificant' % short(it3))
        elif ps3 is None or norm(lp3.iter) != 'self._str.split(ansi_sep)' or res is None:
            ok = None
        else:
            ok = True
            for pth, _e in ps3:
                if pth[-1] is not head3:
                    ok, why = False, 'an iteration can leave the loop (%s)' % pth[-1].text()
                    break
                defs = {}
                appended = []
                handled = False
                for i_, nd in enumerate(pth):
                    nxt = pth[i_ + 1] if i_ + 1 < len(pth) else None
                    if nd.kind == 'except':
                        handled = norm(nd.stmt.type) if nd.stmt.type is not None else 'all'
                    if nd.kind != 'stmt':
                        continue
                    st_ = nd.stmt
                    raises = nxt is not None and nxt.kind == 'except' and any(isinstance(x, ast.Call) and call_name(x) == 'int' for x in ast.walk(st_))
                    if raises:
                        continue            # the statement did not complete
                    if isinstance(st_, ast.Assign) and len(st_.targets) == 1 and isinstance(st_.targets[0], ast.Name):
                        defs[st_.targets[0].id] = subst1(st_.value, defs)
                    elif isinstance(st_, ast.AnnAssign) and isinstance(st_.target, ast.Name) and st_.value is not None:
                        defs[st_.target.id] = subst1(st_.value, defs)
                    elif isinstance(st_, ast.Expr) and isinstance(st_.value, ast.Call) and call_name(st_.value) == 'append' and \
                            norm(st_.value.func.value) == res and len(st_.value.args) == 1:
                        appended.append(norm(subst1(st_.value.args[0], defs)))
                texts = ('%s.strip()' % tok, tok)
                if len(appended) != 1:
                    ok, why = False, 'a token is appended %d times on the path %s' % (len(appended), 'through the ValueError handler' if handled else 'without exception')
                    break
                a_ = appended[0]
                if handled:
                    if handled not in ('ValueError',):
                        ok, why = False, 'the conversion failure is caught as %s' % handled
                        break
                    if a_ not in texts:
                        ok, why = False, 'a token that does not convert is kept as %s' % a_
                        break
                elif a_ not in tuple('int(%s)' % t_ for t_ in texts):
                    ok, why = False, 'a token that converts is kept as %s' % a_
                    break
    else:
        # a comprehension over the pieces keeps each piece once by construction; what it keeps is decided on the abstract token classes
        from .P_more3 import _own_returns, _conv_helper
        rets_ = _own_returns(tl)
        if len(rets_) == 1 and isinstance(rets_[0].value, ast.ListComp) and len(rets_[0].value.generators) == 1:
            g_ = rets_[0].value.generators[0]
            e_ = rets_[0].value.elt
            if norm(g_.iter) == 'self._str.split(ansi_sep)' and isinstance(g_.target, ast.Name):
                from .P_more3 import _tok_eval, _tok_run, _TokError, _TOK
                conv = {}
                try:
                    for cls_ in _TOK:
                        env_ = {g_.target.id: cls_}
                        h_ = None
                        if isinstance(e_, ast.Call) and len(e_.args) == 1 and not e_.keywords and call_name(e_) not in ('int', 'AnsiParam'):
                            h_ = _conv_helper(m, tl, call_name(e_))
                        if h_ is not None:
                            ps_ = h_.own_params() if h_.self_name else h_.params
                            conv[cls_] = _tok_run(h_.body, {ps_[0]: _tok_eval(e_.args[0], env_)})
                        else:
                            conv[cls_] = _tok_eval(e_, env_)
                    ok = not g_.ifs and isinstance(conv['digits'], tuple) and conv['digits'][0] == 'int' and conv['other text'] == 'other text' and conv['empty'] == 'empty'
                    if g_.ifs:
                        why = 'pieces are filtered by %s: a dropped piece makes a malformed setting look well-formed' % short(g_.ifs[0])
                    elif not ok:
                        why = 'a piece of class digits / other text / empty is kept as %s / %s / %s' % (conv['digits'], conv['other text'], conv['empty'])
                except _TokError:
                    ok, why = False, 'a piece that is not a number makes to_list raise ValueError'
                except Undecided:
                    ok = None
    if ok is None:
        # pieces filtered by their truth value before they are converted: an empty field is a piece too (it is what makes "1;" or ";31" unparsable)
        filt = [c_ for c_ in ast.walk(tl.node) if isinstance(c_, (ast.ListComp, ast.GeneratorExp)) and c_.generators and
                any(isinstance(t_, ast.Name) and any(t_.id == x.id for g_ in c_.generators for x in ast.walk(g_.target) if isinstance(x, ast.Name))
                    for g_ in c_.generators for t_ in g_.ifs)] + \
               [n_ for n_ in ast.walk(tl.node) if isinstance(n_, ast.If) and isinstance(n_.test, ast.UnaryOp) and isinstance(n_.test.op, ast.Not) and
                isinstance(n_.test.operand, ast.Name) and len(n_.body) == 1 and isinstance(n_.body[0], ast.Continue)]
        if filt:
            R.viol(tl, filt[0], 'to_list leaves out the pieces that are empty (%s): the text "1;" / ";31" / "38;5;;7" loses its empty field, every remaining piece is an '
                                'integer, and parsable answers True for a text that is not one complete parameter group' % short(filt[0]), construct='to_list tokens')
        else:
            R.undecided(tl, tl.node, 'token conversion of to_list not recognised', construct='to_list tokens')
    else:
        R.check(ok, tl, lp3 or tl.node, 'to_list keeps every ;-separated token once: as int when it converts, as text otherwise', why, construct='to_list tokens')


# ----------------------------------------------------------------------------------------------------------------------
@rule('P26', 'index-provenance: an index obtained by searching list X is used only on X, a copy of X, or a list built parallel to X', floor=2)
def P26(m, R):
    ro = m.roles
    n_sites = 0
    for fname in ('remove_formatting', '__iadd__', 'apply_formatting', '__getitem__'):
        f = m.fn('AnsiString.' + fname)
        from ..shapes import local_aliases, canon
        al = local_aliases(f)
        prov = {}     # index name -> searched list text
        pairs = {}    # name of pair list -> (find_list, in_list)
        parallel = {}  # list name -> list it is parallel to (same slice bounds)
        for n in f.walk():
            if isinstance(n, ast.Assign) and isinstance(n.targets[0], ast.Name) and isinstance(n.value, ast.Call):
                if call_name(n.value) == ro.IDFIND1 and len(n.value.args) == 2:
                    prov[n.targets[0].id] = canon(n.value.args[1], al)
                elif call_name(n.value) == ro.IDFINDN and len(n.value.args) == 2:
                    pairs[n.targets[0].id] = (canon(n.value.args[0], al), canon(n.value.args[1], al))
        # copies / parallel lists: X = list(Y), X = Y[a:b] and Z = W[a:b] with the same bounds where W relates to Y
        slices = {}
        for n in f.walk():
            if isinstance(n, ast.Assign) and isinstance(n.targets[0], ast.Name):
                v = n.value
                if isinstance(v, ast.Subscript) and isinstance(v.slice, ast.Slice):
                    slices[n.targets[0].id] = (canon(v.value, al), canon(v.slice, al))
                elif isinstance(v, ast.Attribute):
                    slices.setdefault(n.targets[0].id, (norm(v), '[whole]'))
        for lp in [n for n in f.walk() if isinstance(n, ast.For)]:
            it = lp.iter
            inner = it.args[0] if call_name(it) == 'reversed' and it.args else it
            if isinstance(inner, ast.Name) and inner.id in pairs and isinstance(lp.target, ast.Tuple) and len(lp.target.elts) == 2:
                a, b = [norm(x) for x in lp.target.elts]
                prov[a] = pairs[inner.id][0]
                prov[b] = pairs[inner.id][1]
        for n in f.walk():
            subs = []
            if isinstance(n, ast.Delete):
                subs = [(t, 'del') for t in n.targets if isinstance(t, ast.Subscript)]
            elif isinstance(n, ast.Assign):
                subs = [(t, 'store') for t in n.targets if isinstance(t, ast.Subscript)]
                subs += [(x, 'load') for x in ast.walk(n.value) if isinstance(x, ast.Subscript)]
            for sub, how in subs:
                k = norm(sub.slice)
                if k not in prov:
                    continue
                n_sites += 1
                used_on = canon(sub.value, al)
                src = prov[k]
                cons = '%s: %s[%s]' % (fname, used_on, k)
                ok = used_on == src
                if not ok:
                    # the searched list is a slice / copy of the list used, or both are slices with equal bounds (parallel lists)
                    su, ss = slices.get(used_on), slices.get(src)
                    if ss and (ss[0] == used_on):
                        ok = True
                    elif su and ss and su[1] == ss[1] and ss[1].startswith(':'):
                        ok = True
                    elif su and su[0] == src:
                        ok = True
                    elif su and ss and su[1] == ':len(%s)' % ss[0]:
                        ok = True      # a prefix of exactly the searched list's length: built parallel to it
                    elif ss and used_on.endswith('.' + ro.STOP) and ss[0].endswith('.' + ro.STOP) and ss[1] == '[whole]':
                        ok = True
                    # x[key].rem where the searched list was `settings.rem` copied into x[key] (list(settings.rem)) in the same block
                    if not ok:
                        raw_used = norm(sub.value)
                        for a in f.walk():
                            if isinstance(a, ast.Assign) and isinstance(a.value, ast.Call) and call_name(a.value) == ro.POINT:
                                tgt = norm(a.targets[0])
                                if raw_used.startswith(tgt + '.') and any(src in norm(x_) for x_ in a.value.args):
                                    ok = True
                                args = [norm(x) for x in a.value.args]
                                if used_on.startswith(tgt + '.') and any(src in x for x in args):
                                    ok = True
                R.check(ok, f, sub, 'index %s found in %s is used on %s' % (k, src, used_on),
                        'index %s was found by searching %s but is used to %s %s: a position in one list says nothing about another' % (k, src, how, used_on), construct=cons)
    if n_sites == 0:
        raise AnalysisError('no index uses found (rule would pass vacuously)')


# ----------------------------------------------------------------------------------------------------------------------
@rule('P12', 'slice-seeding: exhaustive scenario simulation of __getitem__ -- key 0 is seeded exactly once, from the settings active at the '
             'start of the slice; interior points are copied under idx - start; the slice is closed', floor=5)
def P12(m, R):
    import itertools
    ro = m.roles
    f = m.fn('AnsiString.__getitem__')
    loop = next((n for n in f.body if isinstance(n, ast.For) and call_name(n.iter) == ro.ITERATOR), None)
    if loop is None:
        raise AnalysisError('anchor vanished: scan loop of __getitem__')
    idx, point, active = [norm(x) for x in loop.target.elts]
    pre = f.body[:f.body.index(loop)]
    post = f.body[f.body.index(loop) + 1:]
    from ..shapes import local_aliases, canon
    al = local_aliases(f)
    # names of start / end locals: the ones compared with idx in the loop (a cached len(text) is not one of them)
    cmpn = set()
    for n in ast.walk(loop):
        if isinstance(n, ast.Compare) and norm(n.left) == idx and isinstance(n.comparators[0], ast.Name):
            if not canon(n.comparators[0], al).startswith('len('):
                cmpn.add(n.comparators[0].id)
    new_s = None
    for n in pre:
        if isinstance(n, ast.Assign) and call_name(n.value) == 'AnsiString' and isinstance(n.targets[0], ast.Name):
            new_s = n.targets[0].id
    if len(cmpn) != 2 or new_s is None:
        R.undecided(f, loop, 'start / end locals not recognised (%s)' % sorted(cmpn), construct='slice scenario')
        return
    # which is start: the one subtracted in the copy key
    st = None
    for n in ast.walk(loop):
        if isinstance(n, ast.Subscript) and isinstance(n.slice, ast.BinOp) and isinstance(n.slice.op, ast.Sub) and norm(n.slice.left) == idx:
            st = norm(n.slice.right)
    if st not in cmpn:
        R.undecided(f, loop, 'copy key idx - start not found', construct='slice scenario')
        return
    en = next(iter(cmpn - {st}))
    tblnew = '%s.%s' % (new_s, ro.TABLE)
    # flag / snapshot variables: locals initialised before the loop with None / False
    state_vars = {}
    for n in pre:
        if isinstance(n, ast.Assign) and isinstance(n.targets[0], ast.Name) and isinstance(n.value, ast.Constant) and n.value.value in (None, False):
            state_vars[n.targets[0].id] = n.value.value
    REG = {'<st': 0, '=st': 1, 'in': 2, '=en': 3, '>en': 4}
    seqs = []
    names = list(REG)
    for L in range(0, 4):
        for combo in itertools.product(names, repeat=L):
            ranks = [REG[c] for c in combo]
            if ranks != sorted(ranks):
                continue
            if combo.count('=st') > 1 or combo.count('=en') > 1:
                continue
            seqs.append(combo)
    problems = {}
    n_scen = 0
    canon_cache = {}

    def add(kind, msg, scen):
        problems.setdefault(kind, []).append((msg, scen))
    for combo in seqs:
        for truth in itertools.product((True, False), repeat=2 * len(combo)):
            n_scen += 1
            state = dict(state_vars)          # name -> None/False/True/('snap', iter, truthy)
            events = []
            snap_iter = {'i': None}
            cur = {'it': -1, 'active': False, 'stop': False}

            def truthy(v):
                if isinstance(v, tuple):
                    return v[2]
                return bool(v)
            facts = {}

            def val(atom):
                t = canon_cache.get(id(atom))
                if t is None:
                    t = canon_cache[id(atom)] = canon(atom, al)
                if t in facts:
                    return facts[t]
                if isinstance(atom, ast.Name) and atom.id in state:
                    return truthy(state[atom.id])
                if t == active:
                    return cur['active']
                if t == '%s.%s' % (point, ro.STOP):
                    return cur['stop']
                if t.startswith('%s > len(' % idx) or t.startswith('%s >= len(' % idx):
                    return cur['reg'] == '>en'
                if t == '%s.%s' % (point, ro.START):
                    return cur['stop']      # only consulted at the end point, where copying is optional anyway
                if ' not in %s' % tblnew in t:
                    return True
                return None

            def visit(s):
                if isinstance(s, ast.Assign) and isinstance(s.targets[0], ast.Name) and s.targets[0].id in state:
                    v = s.value
                    if isinstance(v, ast.Constant):
                        state[s.targets[0].id] = v.value
                    elif norm(v) in ('list(%s)' % active, '%s.copy()' % active, '%s[:]' % active, active):
                        state[s.targets[0].id] = ('snap', cur['it'], cur['active'])
                    else:
                        state[s.targets[0].id] = ('?', cur['it'], True)
                    return
                if isinstance(s, ast.Assign) and isinstance(s.targets[0], ast.Name) and s.targets[0].id in al:
                    return          # a cached sub-expression (alias), not state
                if isinstance(s, ast.Assign) and isinstance(s.targets[0], ast.Subscript) and norm(s.targets[0].value) == tblnew and call_name(s.value) == ro.POINT:
                    key = norm(s.targets[0].slice)
                    pt = m.fn(ro.POINT + '.__init__')
                    b, _ = bind_call(s.value, pt)
                    pps = pt.own_params()
                    a0 = b.get(pps[0])
                    a1 = b.get(pps[1])

                    def src(e):
                        if e is None:
                            return None
                        t = norm(e)
                        mm = re.match(r'^list\((.+)\)$', t)
                        t = mm.group(1) if mm else t
                        if t == active:
                            return ('active', cur['it'])
                        if t in state and isinstance(state[t], tuple):
                            return ('snap', state[t][1])
                        if t == '%s.%s' % (point, ro.START):
                            return ('START', cur['it'])
                        if t == '%s.%s' % (point, ro.STOP):
                            return ('STOP', cur['it'])
                        return ('?', t)
                    events.append(('store', key, src(a0), src(a1), cur['it']))
                    return
                if isinstance(s, ast.Expr) and call_name(s.value) == 'extend' and (canon_cache.get(id(s)) or canon_cache.setdefault(id(s), canon(s.value.func.value, al))).startswith(tblnew):
                    events.append(('close', cur['it']))
            ended = None
            try:
                for i, reg in enumerate(combo):
                    cur.update(it=i, reg=reg, active=truth[2 * i], stop=truth[2 * i + 1])
                    r = REG[reg]
                    facts.clear()
                    order = {idx: r, st: 1, en: 3}
                    ov = order_valuation(order)
                    out = run_block(loop.body, merge_valuations(lambda a: ov(a), val), visit)
                    if out == 'break':
                        ended = i
                        break
                    if out == 'return':
                        raise Undecided('return inside the scan')
                cur.update(it=len(combo), reg='after', active=False, stop=False)
                out = run_block([s for s in post], val, visit)
            except Undecided as e:
                R.undecided(f, loop, 'scenario %s: %s' % (combo, e), construct='slice scenario')
                return
            # ---- expectations
            processed = [i for i, reg in enumerate(combo) if reg in ('<st', '=st', 'in') and (ended is None or i < ended)]
            first_ge = next((i for i, reg in enumerate(combo) if reg != '<st'), None)
            has_eq = '=st' in combo
            if has_eq:
                i_eq = combo.index('=st')
                want_seed = truth[2 * i_eq]
                want_src = ('active', i_eq)
            else:
                lt = [i for i, reg in enumerate(combo) if reg == '<st']
                if lt:
                    want_seed = truth[2 * lt[-1]]
                    want_src = ('snap', lt[-1])
                else:
                    want_seed = False
                    want_src = None
            seeds = [e for e in events if e[0] == 'store' and e[1] == '0']
            scen = '%s active=%s' % ('/'.join(combo) or 'no points', [truth[2 * i] for i in range(len(combo))])
            if want_seed and not seeds:
                add('seed-missing', 'settings active at the start of the slice are not seeded at key 0', scen)
            if not want_seed and seeds:
                add('seed-spurious', 'key 0 is seeded although nothing is active at the start of the slice', scen)
            # a repeated seed with the same (acceptable) content is harmless
            alt0 = ('snap', want_src[1]) if (want_src and want_src[0] == 'active') else None
            if len(seeds) > 1 and not all(sd[2] in (want_src, alt0) for sd in seeds):
                add('seed-twice', 'key 0 is seeded %d times (the later one overwrites the first with settings of a later position)' % len(seeds), scen)
            # at the '=start' point the iterator's list and a snapshot taken in that very iteration hold the same settings
            alt = ('snap', want_src[1]) if (want_src and want_src[0] == 'active') else None
            if want_seed and seeds and seeds[-1][2] not in (want_src, alt):
                add('seed-source', 'key 0 is seeded from %s, expected %s (the active list as of the last point not beyond the start)' % (seeds[-1][2], want_src), scen)
            # interior copies
            for i, reg in enumerate(combo):
                if ended is not None and i > ended:
                    continue
                stores = [e for e in events if e[0] == 'store' and e[4] == i and e[1] != '0']
                if reg == 'in':
                    ok = len(stores) == 1 and stores[0][1] in ('%s - %s' % (idx, st),) and stores[0][2] == ('START', i) and stores[0][3] == ('STOP', i)
                    if not ok:
                        add('interior', 'an interior point is stored as %s, expected key idx - start with its own START and STOP lists' % (stores,), scen)
                elif reg == '=en':
                    want = truth[2 * i + 1]
                    # copying the stop markers of the end point is optional: the closing block stops every still-active setting anyway
                    ok = not stores or (len(stores) == 1 and stores[0][1] == '%s - %s' % (idx, st) and stores[0][2] in (None,) and stores[0][3] == ('STOP', i))
                    if not ok:
                        add('end-point', 'the point at the end is stored as %s (stop markers present: %s)' % (stores, want), scen)
                elif reg in ('<st', '>en') and stores:
                    add('outside', 'a point outside the slice is copied (%s)' % (stores,), scen)
            # closing: iff the active list as of the last processed point is non-empty
            final_active = truth[2 * processed[-1]] if processed else False
            closes = [e for e in events if e[0] == 'close']
            if final_active and not closes:
                add('close-missing', 'settings still active at the end of the slice are not closed', scen)
            if closes and not final_active:
                add('close-spurious', 'the closing block runs although nothing is active at the end', scen)
    labels = {
        'seed': ('seed-missing', 'seed-spurious', 'seed-twice'), 'seed source': ('seed-source',), 'interior copies': ('interior', 'outside'),
        'end point': ('end-point',), 'closing': ('close-missing', 'close-spurious'),
    }
    for lab, kinds in labels.items():
        found = [x for k in kinds for x in problems.get(k, [])]
        if found:
            msg, scen = found[0]
            R.viol(f, loop, '%s [scenario: points %s] (%d of %d scenarios)' % (msg, scen, len(found), n_scen), construct='slice ' + lab)
        else:
            R.ok(f, loop, '%s correct in all %d scenarios (<=3 points x regions <start,=start,inside,=end,>end x list emptiness)' % (lab, n_scen), construct='slice ' + lab)
    # (f) the only return that bypasses the closing block is the empty-slice one
    # (returns after the scan are followed by the scenario simulation above; this concerns the ones before it)
    pre_nodes = {id(x) for st_ in f.body[:f.body.index(loop)] for x in ast.walk(st_)} if loop in f.body else set()
    rets = [n for n in f.walk() if isinstance(n, ast.Return)]
    early = [r for r in rets if id(r) in pre_nodes]
    ok = len(early) == 1 and any(isinstance(p, ast.If) and norm(p.test) in ('not %s.%s' % (new_s, ro.TEXT), 'len(%s.%s) == 0' % (new_s, ro.TEXT)) for p in _parents(early[0]))
    R.check(ok and isinstance(f.body[-1], ast.Return), f, early[0] if early else f.node, 'only an empty slice returns before the closing block',
            '%d early returns' % len(early), construct='slice early return')


# ----------------------------------------------------------------------------------------------------------------------
@rule('P27', 'seam-retarget-consumes: when __iadd__ re-targets a stop marker of the appended string to the receiver\'s merged marker, that '
             '(find, replace) pair is consumed, so a later stop marker of a re-started setting is left alone', floor=1)
def P27(m, R):
    ro = m.roles
    f = m.fn('AnsiString.__iadd__')
    retargets = []
    for n in f.walk():
        if isinstance(n, ast.Assign) and isinstance(n.targets[0], ast.Subscript) and norm(n.targets[0].value).endswith('.' + ro.STOP) and \
                isinstance(n.value, ast.Subscript) and isinstance(n.value.value, ast.Name):
            retargets.append(n)
    cons = 'seam re-targeting'
    if not retargets:
        R.viol(f, f.node, 'stop markers of the appended string that refer to a merged start marker are never re-targeted to the receiver\'s marker: '
                          'the iterator cannot stop the setting (it stays on to the end)', construct=cons)
        return
    for rt in retargets:
        repl = rt.value.value.id
        k = norm(rt.value.slice)
        lp = next((p for p in _parents(rt) if isinstance(p, ast.For)), None)
        # the find list: the first argument of the search whose result the loop walks
        find_list = None
        if lp is not None:
            inner = lp.iter.args[0] if (call_name(lp.iter) == 'reversed' and lp.iter.args) else lp.iter
            src = inner
            if isinstance(inner, ast.Name):
                for a in f.walk():
                    if isinstance(a, ast.Assign) and norm(a.targets[0]) == inner.id and call_name(a.value) == ro.IDFINDN:
                        src = a.value
            if call_name(src) == ro.IDFINDN:
                find_list = norm(src.args[0])
        blk = rt._parent
        later = []
        for fld in ('body', 'orelse'):
            L = getattr(blk, fld, None)
            if isinstance(L, list) and rt in L:
                later = L[L.index(rt) + 1:]
        dels = {norm(t.value) for s_ in later if isinstance(s_, ast.Delete) for t in s_.targets if isinstance(t, ast.Subscript) and norm(t.slice) == k}
        problems = []
        if find_list is None:
            R.undecided(f, rt, 're-target loop not recognised', construct=cons)
            continue
        if repl not in dels:
            problems.append('entry %s of %s is not removed after use' % (k, repl))
        if find_list not in dels:
            problems.append('entry %s of %s is not removed after use: a later stop marker of the same setting object (the setting was interrupted '
                            'and re-started inside the appended string) is re-targeted too and can never be stopped' % (k, find_list))
        if lp is not None and dels and not (call_name(lp.iter) == 'reversed'):
            problems.append('entries are deleted while walking the matches in ascending order')
        R.check(not problems, f, rt, 'each merged pair is consumed by its first (only) stop marker', '; '.join(problems), construct=cons)

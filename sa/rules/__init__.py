from . import T, D, D6  # noqa: F401

from . import T, T9, D, D6  # noqa: F401

from . import T  # noqa: F401

from . import T, D  # noqa: F401

from . import T, T9, D, D6, P  # noqa: F401

from . import T, T9, D, D6, P, P_tostr, P_parse, F, E, P_more, P_more2, P_more3  # noqa: F401

from . import T, T9, D, D6, P, P_tostr  # noqa: F401

"""Driver:  /venv/bin/python -m sa.check <Cxx> --tier quick|thorough [--repo DIR] [--only RULE] [--replay FILE]

exit 0  every armed obligation DISCHARGED or listed open in known_findings.json (KNOWN-FINDING lines)
exit 1  VIOLATION property=<id> replay=<path>   (positive witness construct)
exit 2  ANALYSIS-ERROR ...                        (anchor vanished / undecided shape / floor not met / analyser failed)
"""
import argparse
import json
import os
import sys
import time
import traceback

from .model import Model, AnalysisError
from . import report
from .report import RULES, OK, VIOL, UNDEC
from . import rules as _rules  # noqa: F401  (registers the rules)
from .props import PROPS


def run_property(prop, tier, repo, only=None, quiet=False, overrides=None, write=True):
    t0 = time.time()
    seed = int(os.environ.get('VERIF_SEED', '0') or 0)
    errors = []
    model = Model(repo, overrides)
    import re as _re
    ro = model.roles
    subst = {'_slice_val_to_idx': ro.NORMALISE, '_AnsiSettingsIterator': ro.ITERATOR, '_scrub_ansi_settings': ro.SCRUB, '_AnsiSettingPoint': ro.POINT}

    def _flt(rx):
        for a, b in subst.items():
            rx = rx.replace(a, _re.escape(b))
        return _re.compile(rx)
    specs = [(r, None) if isinstance(r, str) else (r[0], _flt(r[1])) for r in PROPS[prop]['rules']]
    for r, _f in specs:
        if r not in RULES:
            # a rule the property relies on is not registered (a broken checker must never look like a pass)
            errors.append('%s: rule is listed for %s but not implemented / not registered' % (r, prop))
    specs = [(r, f) for r, f in specs if r in RULES]
    quick_specs = list(specs)
    if tier == 'thorough':
        # thorough: every rule of the property armed on all of its obligations (no per-property construct filter) ...
        specs = [(r, None) for r, f in specs]
    if only:
        specs = [(r, f) for r, f in specs if r == only]
    rule_ids = [r for r, f in specs]
    filters = dict(specs)
    obls = []
    for rid in rule_ids:
        try:
            got = report.run_rule(rid, model)
        except AnalysisError as e:
            errors.append('%s: %s' % (rid, e))
            continue
        except Exception as e:  # analyser bug: never a silent pass, never a VIOLATION
            errors.append('%s: analyser failed: %s: %s' % (rid, type(e).__name__, e))
            if os.environ.get('SA_DEBUG'):
                traceback.print_exc()
            continue
        floor = RULES[rid][2]
        if len(got) < floor and not only and not any(o.status == VIOL for o in got):
            errors.append('%s: %d obligations found, below the hand-confirmed floor %d (rule would pass vacuously)' % (rid, len(got), floor))
        flt = filters.get(rid)
        if flt is not None:
            kept = [o for o in got if flt.search('%s :: %s' % (o.func, o.construct))]
            if kept or not got:
                got = kept
            # (a filter that selects nothing -- a private helper was renamed -- falls back to the whole rule: no vacuous pass)
        obls.extend(got)
    known = report.load_known()
    known_hits, fresh = [], []
    for o in obls:
        if o.status == VIOL:
            e = report.match_known(o, prop, known)
            if e is not None:
                known_hits.append('%s %s %s' % (o.rule, o.func, o.construct))
            else:
                fresh.append(o)
        elif o.status == UNDEC:
            errors.append('%s: undecided shape in %s (%s:%d): %s -- %s' % (o.rule, o.func, o.file, o.line, o.construct, o.msg))
    extra = None
    if tier == 'thorough' and not only and overrides is None:
        # ... plus the sensitivity audit over the functions the property's own (filtered) obligations are anchored in
        from . import audit
        own = [o for o in obls if any(r == o.rule and (f is None or f.search('%s :: %s' % (o.func, o.construct))) for r, f in quick_specs)]
        extra = audit.sensitivity(prop, repo, quick_specs, own, errors)
    lines = []
    for o in obls:
        if o.status == VIOL and report.match_known(o, prop, known) is not None:
            lines.append('KNOWN-FINDING: property=%s %s %s %s (%s:%d) %s' % (prop, o.rule, o.func, o.construct, o.file, o.line, o.msg))
    paths = []
    if write:
        for i, o in enumerate(fresh):
            paths.append(report.write_finding(prop, i, o, repo))
        report.write_evidence(prop, tier, seed, model, rule_ids, obls, known_hits, len(fresh), time.time() - t0, extra, errors)
    for i, o in enumerate(fresh):
        lines.append('VIOLATION property=%s replay=%s' % (prop, paths[i] if write else '-'))
        lines.append('  %s %s:%d in %s: %s -- %s' % (o.rule, o.file, o.line, o.func, o.construct, o.msg))
        for w in o.witness[:12]:
            lines.append('      witness: %s' % w)
    for e in errors:
        lines.append('ANALYSIS-ERROR property=%s %s' % (prop, e))
    n_ok = sum(1 for o in obls if o.status == OK)
    lines.append('%s tier=%s rules=%s obligations=%d discharged=%d violated=%d (known %d) undecided/errors=%d wall=%.2fs' % (
        prop, tier, ','.join(rule_ids), len(obls), n_ok, len(fresh) + len(known_hits), len(known_hits), len(errors), time.time() - t0))
    code = 1 if fresh else 2 if errors else 0
    if not quiet:
        print('\n'.join(lines))
    return code, obls, fresh, errors


def main(argv=None):
    ap = argparse.ArgumentParser()
    ap.add_argument('prop')
    ap.add_argument('--tier', default=os.environ.get('VERIF_TIER', 'quick'), choices=['quick', 'thorough'])
    ap.add_argument('--repo', default='/repo')
    ap.add_argument('--only')
    ap.add_argument('--replay')
    a = ap.parse_args(argv)
    if a.replay:
        with open(a.replay) as fh:
            rec = json.load(fh)
        a.prop, a.only = rec['property'], rec['rule']
    if a.prop not in PROPS:
        print('ANALYSIS-ERROR unknown property %s' % a.prop)
        return 2
    try:
        code, _, _, _ = run_property(a.prop, a.tier, a.repo, a.only, write=not os.environ.get('SA_NOWRITE'))
    except AnalysisError as e:
        print('ANALYSIS-ERROR property=%s %s' % (a.prop, e))
        return 2
    except Exception as e:
        traceback.print_exc()
        print('ANALYSIS-ERROR property=%s analyser failed: %s: %s' % (a.prop, type(e).__name__, e))
        return 2
    return code


if __name__ == '__main__':
    sys.exit(main())
